#!/bin/bash
D="$1"; NAME=$(basename "$D"); W=$(mktemp -d /tmp/benchk.XXXXXX)
git -C /repo worktree add -q --detach "$W/wt" HEAD || exit 3
cd "$W/wt"; export CARGO_TARGET_DIR="$W/target" CARGO_NET_OFFLINE=true
git apply "$D/patch.diff" || { echo "$NAME APPLY-FAILED"; cd /; git -C /repo worktree remove --force "$W/wt"; rm -rf "$W"; exit 4; }
r=$(cargo test --offline 2>&1 | grep -E "^test result|^warning: unused|^warning: mqtt" | tr '\n' ';')
echo "$NAME $r"
cd /; git -C /repo worktree remove --force "$W/wt"; rm -rf "$W"
