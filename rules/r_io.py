"""I/O discipline rules: which reader/writer primitives are used (S-readers, S-writers), how I/O errors
are propagated (S-ioerr, H-fromio, H-toio, H-noswallow), EOF classification (T-eof), the async encoder
wrappers (H-async1), VarBytes::as_ref (H-asref) and purity of the encode closure (S-pure)."""
from facts import strip, lit_value, pp, pp_pat, loc, path_of
from norm import nbody, walk_all, unblock
from report import AnchorLost
from tables import const_eval
from r_poll import _parents, _ancestors

CRATE = "mqtt_proto"


def _is_async_fn(F, fid):
    f = F.fns.get(fid)
    return bool(f and f.get("is_async") and f["kind"] in ("Fn", "AssocFn"))


def all_bodies(F):
    for fid, f in F.fns.items():
        if f["kind"] == "Closure" and fid.endswith("::{closure#0}") and _is_async_fn(F, fid[:-len("::{closure#0}")]):
            continue   # the coroutine body of an async fn is visited through the fn itself
        if f.get("thir") and f["kind"] in ("Fn", "AssocFn", "Closure"):
            b = nbody(F, fid) if f["kind"] != "Closure" else _closure_body(F, fid)
            if b is not None:
                yield fid, f, b


def _closure_body(F, fid):
    from norm import norm
    f = F.fns[fid]
    key = ("closure", id(F), fid)
    c = getattr(F, "_cl_cache", None)
    if c is None:
        c = F._cl_cache = {}
    if key not in c:
        c[key] = norm(f["thir"]["root"]) if f.get("thir") else None
    return c[key]


def callgraph(F):
    g = getattr(F, "_callgraph", None)
    if g is not None:
        return g
    g = {}
    for fid, f, b in all_bodies(F):
        out = set()
        for x in walk_all(b):
            k = x.get("k")
            if k == "Call":
                fn = x.get("fn") or {}
                for key in ("res", "def"):
                    if fn.get(key):
                        out.add(fn[key])
            elif k == "Closure":
                out.add(x["def"])
            elif k == "Await" and x.get("poll_fn"):
                r = x["poll_fn"].get("res")
                if r:
                    out.add(r)
                    if r.endswith("::{closure#0}"):
                        out.add(r[: -len("::{closure#0}")])
            elif k == "Zst" and x.get("fn"):
                for key in ("res", "def"):
                    if x["fn"].get(key):
                        out.add(x["fn"][key])
        if f.get("is_async") and f["kind"] in ("Fn", "AssocFn"):
            out.add(fid + "::{closure#0}")
        g[fid] = out
    F._callgraph = g
    return g


def closure_of(F, roots):
    g = callgraph(F)
    seen = set()
    stack = [r for r in roots if r in g]
    while stack:
        n = stack.pop()
        if n in seen:
            continue
        seen.add(n)
        for m in g.get(n, ()):
            if m in g and m not in seen:
                stack.append(m)
            # trait method defs resolved nowhere (generic H::..): follow every impl of that trait method
            if m not in g and m.startswith("common::poll::PollHeader::"):
                name = m.rsplit("::", 1)[1]
                for imp in F.impls_of("PollHeader"):
                    for it in imp["items"]:
                        if it["name"] == name and it["def"] not in seen:
                            stack.append(it["def"])
            if m not in g and m.startswith("common::types::Encodable::"):
                name = m.rsplit("::", 1)[1]
                for imp in F.impls_of("Encodable"):
                    for it in imp["items"]:
                        if it["name"] == name and it["def"] not in seen:
                            stack.append(it["def"])
    return seen


def decode_roots(F):
    roots = []
    for fam in ("v3", "v5"):
        roots += ["%s::packet::Packet::decode" % fam, "%s::packet::Packet::decode_async" % fam,
                  "%s::packet::Header::decode" % fam, "%s::packet::Header::decode_async" % fam,
                  "%s::packet::Header::new_with" % fam, "%s::connect::Connect::decode_with_protocol" % fam]
    roots += ["common::utils::decode_raw_header", "common::types::Protocol::decode_async"]
    from r_tables import poll_fn_id
    roots.append(poll_fn_id(F))
    return roots


def encode_roots(F):
    roots = []
    for fam in ("v3", "v5"):
        roots += ["%s::packet::Packet::encode" % fam, "%s::packet::Packet::encode_len" % fam, "%s::packet::Packet::encode_async" % fam]
    for imp in F.impls_of("Encodable"):
        roots += [i["def"] for i in imp["items"]]
    return roots


# ---- S-readers / S-writers ------------------------------------------------------------------------------

READ_OK = {"tokio::io::util::async_read_ext::AsyncReadExt::read_exact", "tokio::io::async_read::AsyncRead::poll_read"}
WRITE_OK = {"std::io::Write::write_all", "tokio::io::util::async_write_ext::AsyncWriteExt::write_all"}


def s_readers(F, R):
    """Every call on the transport is read_exact (complete operand before use) or, in poll, poll_read."""
    n = 0
    for fid, f, b in all_bodies(F):
        for x in walk_all(b):
            if x.get("k") != "Call":
                continue
            fn = x["fn"]
            d = fn.get("def") or ""
            tr = fn.get("trait") or ""
            if tr.endswith("AsyncReadExt") or tr.endswith("async_read::AsyncRead") or tr in ("std::io::Read", "std::io::BufRead") \
                    or tr.endswith("AsyncBufReadExt") or tr.endswith("AsyncBufRead"):
                n += 1
                ok = d in READ_OK and (d.endswith("read_exact") or f["id"].endswith("::poll") or f["root"].startswith("common::poll::"))
                R.check(ok, "S-readers", "%s/%s" % (f["root"], fn.get("name")),
                        "%s reads the transport with %s: only read_exact (and poll_read inside the poll decoder) keep "
                        "`ran out of bytes` an EOF-class I/O error and never over-read the frame" % (f["root"], d), where=loc(x))
            elif "BufReader" in d or "io::util::take" in d or fn.get("name") in ("take", "chain") and "io" in d:
                R.fail("S-readers", "%s/adaptor/%s" % (f["root"], fn.get("name")), "%s wraps the reader in %s" % (f["root"], d), where=loc(x))
    R.floor("S-readers", "reader call sites", n, 8)
    R.analysed["reader_call_sites"] = n


def s_writers(F, R):
    """Every call on a sink is write_all (std::io::Write or tokio AsyncWriteExt): a short or zero-length
    write surfaces as an error instead of silently dropping bytes."""
    n = 0
    for fid, f, b in all_bodies(F):
        for x in walk_all(b):
            if x.get("k") != "Call":
                continue
            fn = x["fn"]
            tr = fn.get("trait") or ""
            d = fn.get("def") or ""
            if tr in ("std::io::Write",) or tr.endswith("AsyncWriteExt") or tr.endswith("async_write::AsyncWrite"):
                n += 1
                R.check(d in WRITE_OK, "S-writers", "%s/%s" % (f["root"], fn.get("name")),
                        "%s writes to the sink with %s instead of write_all: partial or zero-length writes are not turned into errors" % (f["root"], d),
                        where=loc(x))
    R.floor("S-writers", "sink call sites", n, 5)
    R.analysed["sink_call_sites"] = n
    _buffered(F, R)


BUFFERED = ("BufWriter", "LineWriter", "BufStream")


def _buffered(F, R):
    """No buffering adapter sits between an encoder and the caller's sink unless it is explicitly flushed with
    the result propagated in the function that created it: a BufWriter dropped unflushed writes in Drop and discards the error."""
    made = 0
    for fid, f, b in all_bodies(F):
        ctor = [x for x in walk_all(b) if x.get("k") == "Call" and any(w in (x["fn"].get("def") or "") for w in BUFFERED)
                and x["fn"].get("name") in ("new", "with_capacity")]
        if not ctor:
            continue
        made += len(ctor)
        flushed = False
        for x in walk_all(b):
            if x.get("k") == "Try":
                inner = strip(x["e"])
                while inner.get("k") == "Await":
                    inner = strip(inner["e"])
                if inner.get("k") == "Call" and inner["fn"].get("name") in ("flush", "into_inner") and \
                        any(w in ((inner["args"][0].get("ty") if inner["args"] else "") or "") + (inner["fn"].get("def") or "") + (inner["fn"].get("self_ty") or "") for w in BUFFERED):
                    flushed = True
        R.check(flushed, "S-writers", "%s/buffered-unflushed" % f["root"],
                "%s wraps the sink in %s but never propagates a flush()/into_inner() result: write errors raised when the buffer is "
                "dropped are discarded and the encoder reports success" % (f["root"], ctor[0]["fn"].get("def")), where=loc(ctor[0]))
    R.analysed["buffering_adapters"] = made


# ---- S-ioerr / H-fromio / H-toio / T-eof -------------------------------------------------------------------

def _kind_preserving_closure(F, cid):
    """closure |err| Error::IoError(err.kind(), err.to_string())"""
    f = F.fns.get(cid)
    if f is None:
        return False, "no closure body"
    b = unblock(_closure_body(F, cid))
    params = [p["pat"] for p in f["thir"]["params"] if p.get("pat")]
    pname = params[-1].get("name") if params and params[-1].get("k") == "Binding" else None
    if b.get("k") == "Adt" and b.get("adt") == "common::error::Error" and b["variant"] == "IoError" and pname:
        k = strip(b["fields"][0]["e"])
        ok = k.get("k") == "Call" and k["fn"].get("def") == "std::io::error::Error::kind" and pp(strip(k["args"][0])) == pname
        return ok, pp(b)[:120]
    return False, pp(b)[:120]


IO_FROM = ("<common::error::Error as core::convert::From<std::io::error::Error>>::from",
           "<v5::error::ErrorV5 as core::convert::From<std::io::error::Error>>::from")


def _is_io_from_ref(clo):
    """`map_err(Error::from)`: a reference to the crate's own From<io::Error> conversion (kind-preserving by H-fromio)."""
    clo = strip(clo)
    return clo.get("k") == "Zst" and (clo.get("fn") or {}).get("res") in IO_FROM


def s_ioerr(F, R):
    """Every io::Result produced by a transport/sink call is propagated through a kind-preserving
    conversion: `?` (From<io::Error>) or map_err(|e| IoError(e.kind(), ..)) then `?`; never discarded."""
    n = 0
    nmap = 0
    for fid, f, b in all_bodies(F):
        par = None
        for x in walk_all(b):
            if x.get("k") != "Call":
                continue
            d = x["fn"].get("def") or ""
            if d.endswith("poll_read"):
                continue
            # producers of an io::Result: the transport / sink calls and every function (crate helper or foreign) returning one;
            # Result's own combinators are consumers, not producers
            io_typed = _err_type(x.get("ty")) == "std::io::error::Error" and not d.startswith("core::result::Result") and \
                not d.startswith("core::ops::try_trait") and x["fn"].get("name") not in ("from_residual", "branch", "from_output")
            if d not in READ_OK | WRITE_OK and not io_typed:
                continue
            if x["args"] and "alloc::vec::Vec<u8>" in (strip(x["args"][0]).get("ty") or x["args"][0].get("ty") or ""):
                continue      # std: `impl Write for Vec<u8>` never fails; nothing to propagate
            n += 1
            if par is None:
                par = _parents(b)
            chain = []
            node = x
            for a in _ancestors(par, x):
                if a.get("k") in ("Await", "Borrow", "Deref"):
                    node = a
                    continue
                chain.append(a)
                if len(chain) >= 3:
                    break
            key = "%s/%s" % (f["root"], d.rsplit("::", 1)[1])
            first = chain[0] if chain else {}
            if first.get("k") == "Try":
                R.ok("S-ioerr", key, "`?`")
            elif first.get("k") == "Return":
                R.ok("S-ioerr", key, "returned to the caller as it is")
            elif first.get("k") == "Match" and first.get("scrut") is node and \
                    all(_pat_root(a["pat"]) == "Ok" or _propagates(a["body"]) for a in first["arms"]):
                R.ok("S-ioerr", key, "matched, every arm that can see the Err propagates it")
            elif first.get("k") == "Let" and first.get("e") is node and len(chain) > 1 and chain[1].get("k") == "If" and \
                    _pat_root(first["pat"]) == "Err" and _arm_keeps_kind(F, first["pat"], chain[1]["then"]):
                R.ok("S-ioerr", key, "`if let Err(e) = .. { return Err(IoError(e.kind(), ..)) }`: the arm, evaluated on an abstract io::Error, returns an error of the same kind")
            elif first.get("k") == "Call" and first["fn"].get("name") == "map_err" and len(chain) > 1 and chain[1].get("k") == "Try":
                nmap += 1
                R.ok("S-ioerr", key + "/map_err", "map_err then `?` (that the mapping keeps the kind is H-noswallow's evaluated rule)")
            elif first.get("k") == "Block" and first.get("expr") is not None and f["root"].startswith("common::utils::write_"):
                R.ok("S-ioerr", key, "returned as the function's io::Result")
            elif first.get("k") is None and "pat" in first:
                R.ok("S-ioerr", key, "returned")
            else:
                # tail expression returning the io::Result itself is fine (write_bytes); anything else is a discard
                if _is_tail_of_fn(par, x, b) and (f["kind"] != "Closure" or _closure_result_used(F, fid)):
                    R.ok("S-ioerr", key, "tail")
                else:
                    how = first.get("k")
                    if how == "Call":
                        how = "passed to %s" % (first["fn"].get("def") or first["fn"].get("name"))
                    R.fail("S-ioerr", key + "/discarded",
                           "%s does not propagate the io::Result of %s with `?` before going on (%s): a failed read/write is followed by "
                           "further I/O or is dropped" % (f["root"], d, how), where=loc(x))
    R.floor("S-ioerr", "io::Result call sites", n, 14)
    # the poll decoder's poll_read results are decided by the evaluated transfer functions P-header / P-body (transport error,
    # Pending and zero-length read cases), not by the shape of its match arms


def s_collect(F, R):
    """Every entry a decoder reads in a loop is stored: a `push` (insert / extend) into the list a decoder builds is not
    conditional on what the list already holds or on the entry itself -- a decoder that skips a repeated or "redundant" entry
    returns a packet with fewer entries than the bytes carry, and whatever accounts the bytes through the stored entries
    (`last()`, `encode_len()`) then miscounts."""
    n = 0
    for fid in sorted(closure_of(F, decode_roots(F))):
        f = F.fns.get(fid)
        if not f or not f.get("thir"):
            continue
        if f["kind"] == "Closure" and fid.endswith("::{closure#0}") and _is_async_fn(F, fid[:-len("::{closure#0}")]):
            continue
        b = nbody(F, fid) if f["kind"] != "Closure" else _closure_body(F, fid)
        if b is None:
            continue
        par = None
        for x in walk_all(b):
            if x.get("k") != "Call" or x["fn"].get("name") not in ("push", "insert", "extend", "push_back", "extend_from_slice", "append") \
                    or not (x["fn"].get("def") or "").startswith("alloc::"):
                continue
            if par is None:
                par = _parents(b)
            n += 1
            dest = pp(strip(x["args"][0])).lstrip("&*").replace("mut ", "").strip()
            vals = {pp(y) for a in x["args"][1:] for y in walk_all(a) if y.get("k") in ("Var", "Upvar")}
            for a in _ancestors(par, x):
                if a.get("k") in ("While", "Loop", "For"):
                    break
                cond = None
                if a.get("k") == "If":
                    cond = a["cond"]
                elif a.get("k") == "Match":
                    cond = a["scrut"]
                if cond is None:
                    continue
                names = {pp(y) for y in walk_all(cond) if y.get("k") in ("Var", "Upvar", "Field")}
                txt = pp(cond)
                if dest in txt or any(d_ in names for d_ in (dest,)) or (vals & names):
                    R.fail("S-collect", "%s/%s" % (f["root"], dest),
                           "%s stores an entry it has read into `%s` only under the condition `%s`, which depends on the list or on the entry: "
                           "some entries on the wire are not in the packet" % (f["root"], dest, txt[:80]), where=loc(x))
                    break
            else:
                continue
    R.floor("S-collect", "stores into decoded lists", n, 8)


def _closure_result_used(F, fid, depth=0):
    """The closure's result (an io::Result it returns as its tail) reaches a `?`, a `return` or the enclosing function's own
    tail through the combinator it is handed to (`map_or(Ok(()), f)`, `try_for_each(f)`, `and_then(f)` ..) and the method chain
    on that combinator's result; a chain that ends in a statement (`opt.map(f);`) drops it."""
    if "::{closure" not in fid or depth > 3:
        return True
    parent = fid.rsplit("::{closure", 1)[0]
    pf = F.fns.get(parent)
    if pf is None or not pf.get("thir"):
        return True               # cannot locate the use site: not this clause's business
    pb = nbody(F, parent) if pf["kind"] != "Closure" else _closure_body(F, parent)
    if pb is None:
        return True
    node = None
    for y in walk_all(pb):
        if y.get("k") == "Closure" and y.get("def") == fid:
            node = y
            break
    if node is None:
        return True
    par = _parents(pb)
    cur = node
    for a in _ancestors(par, node):
        k = a.get("k")
        if k in ("Borrow", "Deref", "Await", "Scope", "Use", "NeverToAny", "PtrCoerce"):
            cur = a
            continue
        if k == "Call":
            cur = a               # the combinator receiving the closure, then the method chain on its result
            continue
        if k in ("Try", "Return"):
            return True
        if k == "Match" and a.get("scrut") is cur:
            return True           # handed to a match: the match clause of this rule / H-noswallow looks at its arms
        if k == "Expr" and "e" in a and len(a) <= 3:
            return False          # an expression statement: the value is dropped
        if k == "Let" or (k is None and "pat" in a):
            return True           # bound to a pattern / variable: followed no further
        if k == "Block":
            if a.get("expr") is cur:
                if _is_tail_of_fn(par, a, pb) or a is pb:
                    return pf["kind"] != "Closure" or _closure_result_used(F, parent, depth + 1)
                cur = a
                continue
            return False          # a statement: the value is dropped
        if k in ("If", "Loop", "While", "For"):
            cur = a
            continue
        return True
    return True


def _arm_keeps_kind(F, pat, body):
    """The arm, evaluated with the caught io::Error abstract, leaves the function with Err(IoError(that error's kind, ..))
    (possibly wrapped in ErrorV5::Common) or with the io::Error itself."""
    from peval import PE, Sym, Adt, Undecided, _Ret
    how, ids = _err_binders(pat)
    if how != "bound" or not ids:
        return False

    def hook(d, res, args, node, env):
        if d == "std::io::error::Error::kind" and args and args[0] == Sym("ioerr"):
            return Sym("ioerr.kind")
        if node["fn"].get("name") in ("to_string", "to_owned") and len(args) == 1:
            return Sym("text")
        return None
    pe = PE(F, call_hook=hook)
    env = {i: Sym("ioerr") for i in ids}
    try:
        pe.ev(body, env)
        return False              # falls through: the error is dropped and decoding goes on
    except _Ret as r:
        v = r.v
    except Undecided:
        return False
    if isinstance(v, Adt) and v.variant == "Err":
        v = v.fields.get("0")
    if v == Sym("ioerr"):
        return True
    while isinstance(v, Adt) and v.variant == "Common":
        v = v.fields.get("0")
    return isinstance(v, Adt) and v.variant == "IoError" and v.fields.get("0") == Sym("ioerr.kind")


def _is_tail_of_fn(par, x, b):
    """x *is* the value the function returns (through blocks / await / borrows only), not an operand of something else."""
    node = x
    while id(node) in par and node is not b:
        p = par[id(node)]
        if p.get("k") == "Block":
            if p.get("expr") is not node:
                return False
        elif p.get("k") in ("Await", "Borrow", "Deref"):
            pass
        elif p.get("k") is None and "pat" in p and p.get("body") is node:
            pass                      # the body of a match arm ..
        elif p.get("k") == "Match" and node is not p.get("scrut"):
            pass                      # .. of a match that is itself in tail position
        elif p.get("k") == "If" and node is not p.get("cond"):
            pass
        else:
            return False
        node = p
    return True


def h_fromio(F, R):
    a = "<common::error::Error as core::convert::From<std::io::error::Error>>::from"
    b = unblock(nbody(F, a)) if a in F.fns else None
    if b is None:
        raise AnchorLost(a)
    ok = b.get("k") == "Adt" and b.get("variant") == "IoError"
    if ok:
        k = strip(b["fields"][0]["e"])
        ok = k.get("k") == "Call" and k["fn"].get("def") == "std::io::error::Error::kind" and pp(strip(k["args"][0])) == "err"
    R.check(ok, "H-fromio", "Error", "From<io::Error> for Error is %s (the kind must be err.kind())" % pp(b)[:100], where=a)
    v = "<v5::error::ErrorV5 as core::convert::From<std::io::error::Error>>::from"
    b = unblock(nbody(F, v)) if v in F.fns else None
    if b is None:
        raise AnchorLost(v)
    ok = b.get("k") == "Adt" and b.get("variant") == "Common" and pp(strip(b["fields"][0]["e"])) == "<T as core::convert::Into<U>>::into(err)"
    R.check(ok, "H-fromio", "ErrorV5", "From<io::Error> for ErrorV5 is %s" % pp(b)[:100], where=v)
    # #[from] Common(Error): derived From<Error> for ErrorV5 wraps unchanged
    c = "<v5::error::ErrorV5 as core::convert::From<common::error::Error>>::from"
    b = unblock(nbody(F, c)) if c in F.fns else None
    ok = b is not None and b.get("k") == "Adt" and b.get("variant") == "Common" and len(b["fields"]) == 1 and strip(b["fields"][0]["e"]).get("k") == "Var"
    R.check(ok, "H-fromio", "ErrorV5-from-Error", "From<Error> for ErrorV5 is %s" % (pp(b)[:100] if b else None), where=c)


def h_toio(F, R):
    fid = "common::error::<impl core::convert::From<common::error::Error> for std::io::error::Error>::from"
    if fid not in F.fns:
        raise AnchorLost(fid)
    b = unblock(nbody(F, fid))
    ok = b.get("k") == "Match" and pp(strip(b["scrut"])) == "err"
    io_arm = other = False
    if ok:
        for arm in b["arms"]:
            p = arm["pat"]
            body = pp(unblock(arm["body"]))
            if p.get("k") == "Variant" and p["variant"] == "IoError":
                kv = p["subs"][0]["pat"].get("name")
                io_arm = body == "<T as core::convert::Into<U>>::into(%s)" % kv
            elif p.get("k") in ("Wild", "Binding"):
                other = body == "<T as core::convert::Into<U>>::into(ErrorKind::InvalidData{})"
            else:
                R.fail("H-toio", "extra-arm/%s" % pp(p)[:40], "From<Error> for io::Error has an extra arm %s" % pp(arm)[:100], where=loc(arm))
    R.check(ok and io_arm, "H-toio", "io-kind-preserved", "From<Error> for io::Error does not return the carried kind for IoError", where=fid)
    R.check(ok and other, "H-toio", "protocol-errors-invalid-data", "From<Error> for io::Error does not map protocol errors to InvalidData", where=fid)
    extra = [i for i in F.impls if (i.get("trait") or "").endswith("convert::From") and i["self_ty"] == "std::io::error::Error" and "ErrorV5" in (i.get("trait_ref") or "")]
    R.check(not extra, "H-toio", "no-v5-bypass", "a direct From<ErrorV5> for io::Error exists and is not checked", where=extra[0]["sp"] if extra else "?")


def t_eof(F, R):
    fid = "common::error::Error::is_eof"
    b = unblock(nbody(F, fid))
    ok = False
    if b.get("k") == "Match" and len(b["arms"]) == 2:
        a0 = b["arms"][0]
        p = a0["pat"]
        while p.get("k") == "Deref":
            p = p["sub"]
        g = unblock(a0["guard"]) if a0.get("guard") else None
        if p.get("k") == "Variant" and p["variant"] == "IoError" and g is not None and g.get("k") == "Binary" and g["op"] == "Eq":
            kv = None
            q = p["subs"][0]["pat"]
            while q.get("k") == "Deref":
                q = q["sub"]
            kv = q.get("name")
            ok = pp(strip(g["l"])).lstrip("*") == kv and pp(strip(g["r"])).startswith("ErrorKind::UnexpectedEof") and lit_value(unblock(a0["body"])) is True \
                and lit_value(unblock(b["arms"][1]["body"])) is False
    R.check(ok, "T-eof", "Error::is_eof", "Error::is_eof is not `IoError(kind, _) if kind == UnexpectedEof`: %s" % pp(b)[:160], where=fid)
    fid = "v5::error::ErrorV5::is_eof"
    b = unblock(nbody(F, fid))
    ok = False
    if b.get("k") == "Match":
        got = {}
        for arm in b["arms"]:
            p = arm["pat"]
            while p.get("k") == "Deref":
                p = p["sub"]
            if p.get("k") == "Variant":
                got[p["variant"]] = (p["subs"][0]["pat"], pp(unblock(arm["body"])))
            else:
                got["*"] = (None, pp(unblock(arm["body"])))
        if set(got) == {"Common", "*"}:
            q = got["Common"][0]
            while q.get("k") == "Deref":
                q = q["sub"]
            ok = got["Common"][1] == "common::error::Error::is_eof(&*%s)" % q.get("name") and got["*"][1] == "false"
    R.check(ok, "T-eof", "ErrorV5::is_eof", "ErrorV5::is_eof is not `Common(e) => e.is_eof(), _ => false`: %s" % pp(b)[:160], where=fid)
    # PollHeader::is_eof_error delegates
    for fam, want in (("v3", "common::error::Error::is_eof(&*err)"), ("v5", "v5::error::ErrorV5::is_eof(&*err)")):
        m = F.impl_method("PollHeader", "%s::packet::Header" % fam, "is_eof_error")
        bb = pp(unblock(nbody(F, m)))
        R.check(bb in (want, want.replace("&*", "")), "T-eof", "%s/is_eof_error" % fam, "PollHeader::is_eof_error for %s is %s" % (fam, bb), where=m)


# ---- H-noswallow: the catalogue of map_err closures ----------------------------------------------------------

def h_noswallow(F, R):
    """Every `map_err` in the crate is one of: (a) kind-preserving I/O mapping, (b) a closure ignoring the
    error of a *pure* call (from_utf8, QoS::from_u8), (c) the InvalidTopicName -> InvalidResponseTopic remap,
    which matches exactly that variant and passes everything else through unchanged."""
    import r_pe3
    r_pe3.h_noswallow_maps(F, R)
    # errors are consumed only by `?`, the blocking wrappers and poll's substitutions: no `.ok()`, `unwrap_or*`, `if let Ok`
    bad = 0
    from r_io import decode_roots
    dec = closure_of(F, decode_roots(F))
    for fid in sorted(dec):
        f = F.fns.get(fid)
        if not f or not f.get("thir"):
            continue
        b = nbody(F, fid) if f["kind"] != "Closure" else _closure_body(F, fid)
        for x in walk_all(b):
            if x.get("k") == "Call" and (x["fn"].get("def") or "").startswith("core::result::Result") and \
                    x["fn"].get("name") in ("ok", "unwrap_or", "unwrap_or_default", "unwrap_or_else", "or", "or_else", "is_err"):
                if fid.endswith("::poll") and x["fn"]["name"] == "is_err":
                    continue
                inner_has_read = any(y.get("k") == "Await" for y in walk_all(x["args"][0]))
                if inner_has_read or x["fn"]["name"] in ("ok", "unwrap_or", "unwrap_or_default", "unwrap_or_else"):
                    bad += 1
                    R.fail("H-noswallow", "%s/result-%s" % (f["root"], x["fn"]["name"]), "%s discards an error with .%s()" % (f["root"], x["fn"]["name"]), where=loc(x))
    R.ok("H-noswallow", "no-discarding-combinators", {"decode_closure_functions": len(dec)})
    _result_matches(F, R, dec)


IO_CARRYING = ("common::error::Error", "v5::error::ErrorV5", "std::io::error::Error")
MATCH_EXEMPT = {
    # the documented EOF -> Ok(None) mapping of the blocking wrappers: decided by H-block (evaluated)
    "v3::packet::Packet::decode": "H-block", "v5::packet::Packet::decode": "H-block",
}


def _err_type(ty):
    """Error type of `core::result::Result<T, E>` (top-level), None for other types."""
    ty = (ty or "").lstrip("&").replace("mut ", "")
    if not ty.startswith("core::result::Result<") or not ty.endswith(">"):
        return None
    inner = ty[len("core::result::Result<"):-1]
    depth = 0
    for i in range(len(inner) - 1, -1, -1):
        c = inner[i]
        if c == ">":
            depth += 1
        elif c == "<":
            depth -= 1
        elif c == "," and depth == 0:
            return inner[i + 1:].strip()
    return None


def _pat_root(p):
    """'Ok' / 'Err' / 'any' for the outermost constructor a pattern tests."""
    while p.get("k") in ("Deref", "AscribeUserType") and p.get("sub"):
        p = p["sub"]
    if p.get("k") == "Binding" and p.get("sub"):
        return _pat_root(p["sub"])
    if p.get("k") == "Variant":
        return p.get("variant")
    if p.get("k") == "Or":
        roots = {_pat_root(q) for q in p.get("pats", [])}
        return roots.pop() if len(roots) == 1 else "any"
    return "any"


def _propagates(body):
    for y in walk_all(body):
        if y.get("k") in ("Try", "Return"):
            return True
        if y.get("k") == "Adt" and y.get("variant") == "Err":
            return True
    return False


_PRIMS = {"usize", "u8", "u16", "u32", "u64", "u128", "isize", "i8", "i16", "i32", "i64", "i128", "bool", "()", "char"}


def _peel_pat(p):
    while p.get("k") in ("Deref", "DerefPattern", "AscribeUserType") and p.get("sub"):
        p = p["sub"]
    return p


def _err_binders(pat):
    """How an arm that can see an Err sees the error value: ('specific', None) when the pattern names one non-I/O variant of a
    crate error (the arm cannot see an I/O error), ('bound', ids) when the error (or the whole result, or the Common(..) payload)
    is bound to variables, ('blind', None) when it is matched by a wildcard."""
    p = _peel_pat(pat)
    if p.get("k") == "Binding":
        ids = {p["var"]["id"]}
        if p.get("sub"):
            k, more = _err_binders(p["sub"])
            if k == "specific":
                return k, None
            return "bound", ids | (more or set())
        return "bound", ids
    if p.get("k") == "Wild" or p.get("k") is None:
        return "blind", None
    if p.get("k") == "Or":
        kinds = [_err_binders(q) for q in p.get("pats", [])]
        if all(k == "specific" for k, _ in kinds):
            return "specific", None
        ids = set()
        for k, i in kinds:
            if k == "blind":
                return "blind", None
            ids |= (i or set())
        return "bound", ids
    if p.get("k") == "Variant":
        v = p.get("variant")
        subs = p.get("subs") or []
        if v in ("Err", "Common"):
            if not subs:
                return "blind", None
            return _err_binders(subs[0]["pat"])
        if v == "IoError":
            ids = set()
            for sp in subs:
                q = _peel_pat(sp["pat"])
                if q.get("k") == "Binding":
                    ids.add(q["var"]["id"])
            return ("bound", ids) if ids else ("blind", None)
        return "specific", None
    return "blind", None


def _can_do_io(e, fn_body, depth=0):
    """The expression awaits / blocks on something (or is a local whose initialiser does): its Err can be an I/O error or an
    end of input. A pure computation returning the crate's error type (QoS::from_u8, Pid::try_from, ..) cannot produce one."""
    for y in walk_all(e):
        if y.get("k") == "Await" or (y.get("k") == "Call" and y["fn"].get("name") in ("block_on", "poll_read", "read_exact", "read")):
            return True
    base = strip(e)
    if base.get("k") in ("Var", "Upvar") and depth < 3:
        for blk in walk_all(fn_body):
            if blk.get("k") == "Block":
                for st in blk.get("stmts", []):
                    if st.get("k") == "Let" and st.get("init") is not None and st["pat"].get("k") == "Binding" and st["pat"]["var"]["id"] == base["var"]["id"]:
                        return _can_do_io(st["init"], fn_body, depth + 1)
        return True       # a parameter / pattern binding: unknown origin
    return False


def _mentions(body, ids):
    return any(y.get("k") in ("Var", "Upvar") and y["var"]["id"] in ids for y in walk_all(body))


def _result_matches(F, R, dec):
    """A Result that can carry an I/O error (crate error types, io::Error) is consumed by `?` or by a match /
    if-let / let-else in which every arm that can see an Err propagates it (returns, `?`s or rebuilds an Err).
    An arm such as `Err(e) if e.is_eof() => None` turns 'input ended' into a value."""
    seen = 0
    for fid in sorted(dec):
        f = F.fns.get(fid)
        if not f or not f.get("thir"):
            continue
        b = nbody(F, fid) if f["kind"] != "Closure" else _closure_body(F, fid)
        root = f["root"]
        for x in walk_all(b):
            sites = []
            if x.get("k") == "Match" and not x.get("src", "Normal").startswith(("TryDesugar", "AwaitDesugar", "ForLoopDesugar")):
                et = _err_type(x["scrut"].get("ty"))
                if et is not None:
                    sites.append(("match", et, [(a["pat"], a["body"]) for a in x["arms"]], x["scrut"]))
            if x.get("k") == "If":
                c = unblock(x["cond"])
                if c.get("k") == "Let":
                    et = _err_type(c["e"].get("ty"))
                    if et is not None:
                        arms_ = [(c["pat"], x["then"])]
                        if _pat_root(c["pat"]) != "Err":
                            arms_.append(({"k": "Wild"}, x.get("else") or {"k": "Tuple", "items": []}))     # the else branch sees the Err
                        sites.append(("if-let", et, arms_, c["e"]))
            if x.get("k") == "Block":
                for st in x.get("stmts", []):
                    if st.get("k") == "Let" and st.get("else") is not None and st.get("init") is not None:
                        et = _err_type(st["init"].get("ty"))
                        if et is not None:
                            sites.append(("let-else", et, [(st["pat"], {"k": "Tuple", "items": []}), ({"k": "Wild"}, st["else"])], st["init"]))
            for kind, et, arms, scrut in sites:
                if not (et in IO_CARRYING or "::" not in et or et.startswith("<")) or et in _PRIMS:
                    continue      # error of a pure computation (Utf8Error, TryFromIntError, a binary search's insertion index ..)
                seen += 1
                if root in MATCH_EXEMPT or root.endswith("::poll"):
                    continue      # evaluated as a whole by H-block / P-header / P-body
                for pat, body in arms:
                    pr = _pat_root(pat)
                    if pr == "Ok":
                        continue
                    if pat.get("k") == "Binding" and not pat.get("sub") and strip(unblock(body)).get("k") == "Var" \
                            and strip(unblock(body))["var"]["id"] == pat["var"]["id"]:
                        continue      # `other => other`: the whole Result, error included, is the arm's value
                    okk = _propagates(body)
                    R.check(okk, "H-noswallow", "%s/%s-on-result/%s" % (root, kind, pp_pat(pat)[:40] if pat.get("k") != "Wild" else "_"),
                            "%s: a %s on a Result<_, %s> has an arm `%s` that does not propagate the error: an I/O error or end of input becomes a value" % (
                                root, kind, et, pp_pat(pat)[:60] if pat.get("k") != "Wild" else "_"), where=loc(x))
                    if not okk:
                        continue
                    how, ids = _err_binders(pat)
                    same = how == "specific" or (how == "bound" and _mentions(body, ids)) or not _can_do_io(scrut, b)
                    R.check(same, "H-noswallow", "%s/%s-on-result/%s/replaced" % (root, kind, pp_pat(pat)[:40] if pat.get("k") != "Wild" else "_"),
                            "%s: a %s on a Result<_, %s> has an arm `%s` that can see an I/O error (or end of input) and returns a different error "
                            "without using the one it caught: the front-ends then disagree on where the input ended" % (
                                root, kind, et, pp_pat(pat)[:60] if pat.get("k") != "Wild" else "_"), where=loc(x))
    R.floor("H-noswallow", "matches on I/O-carrying results (wrappers and poll included)", seen, 1)


# ---- H-async1 / H-asref ------------------------------------------------------------------------------------------

def h_async1(F, R):
    """encode_async = encode()? ; write_all(data.as_ref()).await ; Ok(()): one source of bytes, one sink call."""
    for fam in ("v3", "v5"):
        fid = "%s::packet::Packet::encode_async" % fam
        b = nbody(F, fid)
        if b is None:
            raise AnchorLost(fid)
        calls = [x for x in walk_all(b) if x.get("k") == "Call"]
        enc = [c for c in calls if c["fn"].get("def") == "%s::packet::Packet::encode" % fam]
        sink = [c for c in calls if (c["fn"].get("trait") or "").endswith("AsyncWriteExt") or (c["fn"].get("trait") or "").endswith("AsyncWrite")]
        R.check(len(enc) == 1 and pp(strip(enc[0]["args"][0])).lstrip("*") == "self", "H-async1", "%s/one-encode" % fam,
                "%s calls encode %d times" % (fid, len(enc)), where=fid)
        ok = len(sink) == 1 and sink[0]["fn"].get("name") == "write_all"
        src = None
        if ok:
            a = strip(sink[0]["args"][1])
            ok = a.get("k") == "Call" and a["fn"].get("name") == "as_ref" and "VarBytes" in (a["fn"].get("self_ty") or a["fn"].get("def") or "")
            if ok:
                src = strip(a["args"][0])
                ok = src.get("k") == "Var"
        R.check(ok, "H-async1", "%s/one-write_all" % fam,
                "%s does not send the encoded bytes with exactly one write_all(data.as_ref()): %s" % (fid, [pp(s)[:80] for s in sink]), where=fid)
        if ok and src is not None:
            # `data` is bound from encode()?
            bound = False
            for x in walk_all(b):
                if x.get("k") == "Block":
                    for s in x.get("stmts", []):
                        if s["k"] == "Let" and s["pat"].get("k") == "Binding" and s["pat"]["var"]["id"] == src["var"]["id"]:
                            i = s["init"]
                            bound = i.get("k") == "Try" and strip(i["e"]) is enc[0] if enc else False
            R.check(bound, "H-async1", "%s/same-bytes" % fam, "%s writes %s, which is not the result of encode()" % (fid, pp(src)), where=fid)
        ifs = [x for x in walk_all(b) if x.get("k") in ("If", "Match", "Loop", "While", "For")]
        R.check(not ifs, "H-async1", "%s/straight-line" % fam, "%s has branching (%s): some packets take a different path to the sink" % (fid, ifs[0].get("k") if ifs else ""), where=fid)


def h_asref(F, R):
    fid = "<common::types::VarBytes as core::convert::AsRef<[u8]>>::as_ref"
    if fid not in F.fns:
        raise AnchorLost(fid)
    b = strip(unblock(nbody(F, fid)))
    if b.get("k") != "Match":
        raise AnchorLost("VarBytes::as_ref: match self")
    seen = set()
    for arm in b["arms"]:
        p = arm["pat"]
        while p.get("k") == "Deref":
            p = p["sub"]
        if p.get("k") != "Variant":
            R.fail("H-asref", "catch-all", "VarBytes::as_ref has a catch-all arm", where=loc(arm))
            continue
        q = p["subs"][0]["pat"]
        while q.get("k") == "Deref":
            q = q["sub"]
        v = q.get("name")
        body = strip(unblock(arm["body"]))
        s = pp(body)
        whole = s in (v, "&*%s" % v, "*%s" % v) or ("index" in s and "RangeFull" in s and v in s) or s.endswith("deref(&*%s)" % v) or s.endswith("as_slice(&*%s)" % v)
        seen.add(p["variant"])
        R.check(whole, "H-asref", p["variant"], "VarBytes::%s.as_ref() returns %s, not the whole container" % (p["variant"], s[:100]), where=loc(arm))
    names = {v["name"] for v in F.adts["common::types::VarBytes"]["variants"]}
    R.check(seen == names, "H-asref", "all-variants", "VarBytes::as_ref covers %s of %s" % (sorted(seen), sorted(names)), where=fid)


# ---- S-pure --------------------------------------------------------------------------------------------------------

IMPURE_PATH_BITS = ("::time::", "rand", "std::env", "thread_local", "::cell::", "::atomic::", "sync::mutex", "sync::rwlock",
                    "once_cell", "OnceLock", "std::fs", "std::net", "process::")


def s_pure(F, R):
    """The encode closure takes &self, touches no static / thread-local / interior-mutable state and calls
    nothing environment dependent: repeated invocations emit the same bytes."""
    cl = closure_of(F, encode_roots(F))
    n = 0
    for fid in sorted(cl):
        f = F.fns.get(fid)
        if not f or not f.get("thir"):
            continue
        b = nbody(F, fid) if f["kind"] != "Closure" else _closure_body(F, fid)
        n += 1
        for x in walk_all(b):
            k = x.get("k")
            if k in ("StaticRef", "ThreadLocalRef"):
                R.fail("S-pure", "%s/static/%s" % (f["root"], x.get("def")), "encode path reads static %s" % x.get("def"), where=loc(x))
            if k == "Call":
                d = (x["fn"].get("res") or x["fn"].get("def") or "")
                if any(bit in d for bit in IMPURE_PATH_BITS):
                    R.fail("S-pure", "%s/impure-call/%s" % (f["root"], d), "encode path calls %s" % d, where=loc(x))
        self_kinds = [p.get("self_kind") for p in f["thir"]["params"] if p.get("self_kind")]
        if f["kind"] == "AssocFn" and self_kinds and f.get("name") in ("encode", "encode_len", "encode_async", "to_u8", "to_pair", "value"):
            R.check(self_kinds[0] in ("RefImm", "Imm"), "S-pure", "%s/self" % fid, "%s takes self as %s" % (fid, self_kinds[0]), where=f["sp"])
    # no field of an encodable type is interior-mutable
    bad = []
    for path, a in F.adts.items():
        for v in a["variants"]:
            for fl in v["fields"]:
                if any(t in fl["ty"] for t in ("Cell<", "Mutex<", "RwLock<", "Atomic", "OnceCell", "OnceLock")):
                    bad.append((path, fl["name"], fl["ty"]))
    R.check(not bad, "S-pure", "no-interior-mutability", "interior-mutable fields: %s" % bad[:3])
    R.floor("S-pure", "functions in the encode closure", n, 80)
    R.analysed["encode_closure_functions"] = n
