#!/usr/bin/env python3
"""Development helper (not used by registered commands): write the prompts for one round of sub-agents.
mkround.py seeds <round> <dir>   -> <dir>/prompt_Cxx.txt  (two property-breaking changes per property)
mkround.py benign <tag-letter> <dir> -> <dir>/prompt_<L>n.txt (four behaviour-preserving refactorings per region)
The prompts contain the property text and the summaries of earlier rounds' changes (so that they are not repeated);
nothing else from /verif is given to the agents."""
import json, os, sys
VERIF = os.path.dirname(os.path.dirname(os.path.abspath(__file__)))

SEED_TPL = '''You are helping evaluate verification tooling for the Rust crate `mqtt-proto` (MQTT v3.1/v3.1.1/v5.0 packet codec with sync, async and poll-based decoders/encoders). You have your own scratch git worktree of the repository at {wt} . Work ONLY inside {wt} (never touch /repo or /verif; do not read /verif). Always build with `CARGO_TARGET_DIR={wt}/target` and `--offline` (there is no network).

Below is one semantic property of the crate that is supposed to hold for ALL inputs / schedules / histories:

  id: {id}
  title: {title}
  statement: {statement}
  quantifier: {qtext}
  why the existing tests cannot settle it: {why}
  code anchors (files): {files}
  mechanisms in the code that are meant to make it hold: {mech}

YOUR TASK: produce TWO independent, realistic source changes (mutations) to the crate, each of which
  (a) BREAKS the property above (for some input/schedule/history),
  (b) still COMPILES, and
  (c) still PASSES the whole existing test suite unchanged (`cd {wt} && CARGO_TARGET_DIR={wt}/target cargo test --offline` -> 73 passed), and
  (d) needs something SPECIFIC to manifest: an unusual input, a particular boundary value, a particular interleaving/chunking, a multi-step sequence, a specific combination of optional fields, or two cooperating sites that each look fine alone. NOT something ordinary use would expose at once, and not obviously sabotaged code: it should look like a plausible bug a maintainer could introduce during a refactor, a "simplification", an "optimisation" or while adding a feature.
This is round {round}. The following ideas were already used in earlier rounds (for this and neighbouring properties) -- do NOT reuse them or close variants of them; find different mechanisms and different code sites:
{avoid}
{hint}
The two changes should use DIFFERENT mechanisms / touch different code sites. Each change should be small (a few lines).

For EACH change deliver, under {wt}/out/{id}-{b1}/ and {wt}/out/{id}-{b2}/ :
  - patch.diff : `git diff` of the source change ONLY (src/ files; apply-able with `git apply` on a clean checkout of HEAD). Do not include the demonstration test in patch.diff.
  - demo.rs : a self-contained Rust integration test file (to be placed at tests/demo.rs of the crate; it may use the crate's public API plus dev-dependencies already available: tokio (full), futures-lite, proptest) with one or more #[test] functions that FAIL with the change applied and PASS on the unchanged tree.
  - meta.json : {{"property": "{id}", "summary": "<one sentence: what was changed>", "needs": "<what specific input/schedule/sequence is needed for it to manifest>", "files_touched": [...], "ran": ["<commands you ran and their outcome>"]}}
You MUST verify all of this yourself, for each change separately, starting from a clean tree (`git -C {wt} checkout -- . && git -C {wt} clean -fdq -e out -e target`): (1) with only the demo test added: demo passes and the 73 existing tests pass; (2) with the patch applied: existing 73 tests still pass, and the demo FAILS. Record the commands and results in meta.json. Leave the worktree clean (no patch applied; demo removed from tests/) at the end, keeping only {wt}/out/ and {wt}/target.
Notes: use --offline. The lib is `mqtt_proto`; see src/lib.rs, src/common, src/v3, src/v5. Poll-based decoder: `v3::PollPacket::new(&mut state, &mut reader)` / `v5::PollPacket` are futures. Keep your final answer short: list the two changes (one line each) and confirm the verification results.
'''

HINTS = {
 12: "This round, write the change as a REFACTORING GONE WRONG: the diff must read as a pure clean-up that a reviewer expects to be behaviour-preserving -- duplicated match arms merged, a helper extracted and reused at a second site whose needs differ slightly, a `match` replaced by a table / `matches!` / combinator chain, a computation hoisted out of a branch or loop, an index loop replaced by an iterator chain, a magic number replaced by a named constant that is off by one or shared with a different meaning, a parameter or local retyped (u8/u16/u32/usize, `&str`/`&[u8]`, `Option` instead of a sentinel), a condition 'simplified' with De Morgan or a range pattern, two checks reordered, an early return inverted, a `?` replaced by explicit handling or the reverse, `as` casts replaced by `From`/`try_from` (or the reverse) -- and exactly one case is not preserved. The best ones keep every existing call shape intact and differ from a correct refactoring in one token, one arm, one bound or one ordering. Do not add new features, limits or spec citations.",
 11: "Any mechanism is welcome this round; favour changes that a reviewer would wave through: a bug fix that is right for the reported case and wrong for a neighbouring one; a spec citation applied to the wrong protocol version, packet type or direction; a defensive limit or sanity check with an off-by-one; a helper reused where its contract is slightly different; two sites changed together that only agree on the common case; an `Option`/`Result` combinator chain that drops a case (`unwrap_or_default`, `ok()`, `filter`, `and_then` on the wrong side); integer type narrowing or widening at a boundary; iterator adaptors that silently stop early (`zip`, `take_while`, `take`, `step_by`, `windows`, `chunks_exact`); shadowed variables; `matches!`/or-patterns missing a variant; an early `return`/`continue`/`break` that skips bookkeeping. Prefer code that evaluates cleanly (ordinary std methods on concrete values) over exotic constructs.",
 10: "This round, prefer changes that present themselves as PERFORMANCE work: a lookup table or branch-free bit trick replacing a match; a bulk copy / `extend_from_slice` / `copy_from_slice` / `chunks` replacing per-item writes or reads; a pre-computed or cached length; a pre-allocation heuristic (`with_capacity`, `reserve`, `resize`, `set_len`); `unsafe` used to skip a check that 'was already done' (`get_unchecked`, `from_utf8_unchecked`, `unwrap_unchecked`, `MaybeUninit::assume_init`, pointer casts); an early exit for the common case; SWAR / word-at-a-time scanning of strings; reading several header or length bytes at once; avoiding a clone by sharing a buffer; `#[inline]`d helper that re-implements a std routine by hand. The optimisation must be wrong only for a specific value, length, alignment, boundary or schedule.",
 9: "This round, prefer changes in the parts of the public API that sit AROUND the byte-level codecs and that the property still depends on: `new` / `new_*` convenience constructors and `Default` impls of packet bodies and property sets; `From` / `TryFrom` / `Into` conversions between bodies, packets, headers and error types; accessors and predicates (`pid()`, `qos()`, `get_type()`, `is_shared()`, `is_sys()`, `is_eof()`, `value()`, `len()`/`is_empty()` of wrapper types); `Header::new` / `Header::decode` / `Header::new_with`; the `VarBytes` container and its `AsRef`/`Deref`; `Packet::encode_len` vs `Packet::encode`; `total_len` / `header_len` / `remaining_len` / `var_int_len`; `PartialEq` / `Hash` / `Ord` / `Clone` impls written by hand; `Display` of types whose text is part of the property. Also welcome: state carried from one packet to the next (a reused poll state object, a reused buffer, a sticky flag) and behaviour that differs between the first and the second call.",
 8: "This round, prefer VALUE-LEVEL changes written as clean, ordinary code that keeps every length, every read/write count and the control-flow shape intact: a field adjusted on its way in or out (clamped with min/max, defaulted when zero, rounded, masked, normalised, lower-cased, trimmed, sorted, de-duplicated, truncated, wrapped with wrapping_*/saturating_* arithmetic); one field written from / decoded into a sibling field of the same type; a value derived from another field instead of being carried as it is; an off-by-one on a stored value (not on a length); an endianness or byte-order slip in a hand-written conversion; a boolean inverted on one side only; an enum mapped through an intermediate integer with one case collapsed. The change may sit in a decoder, an encoder, a constructor (`new`, `new_*`), a `From`/`TryFrom`/`Default` impl or an accessor the property depends on. It must still need a specific value or combination to show.",
 7: "This round, prefer changes whose effect comes from WHERE the new code sits rather than from a wrong constant: a pre-check or fast path placed in front of a correct loop or in the caller of a correct helper; a post-processing step after a correct decoder or encoder (normalising, clamping, de-duplicating, sorting, trimming, defaulting a value that was just decoded or is about to be encoded); a condition on one field that depends on a different field of the same packet; validation moved from a shared helper into only some of its callers (or the reverse); a wrapper type / builder / `From` impl that silently adjusts a value on its way in or out; a cache or memo keyed on too little. Also welcome: asymmetric handling of the two directions (encoder stricter or laxer than decoder), and behaviour that differs between `decode` of a full packet and decoding the same body through the body type's own public `decode_async`/`encode` entry points.",
 6: "This round, prefer changes that live in places a per-function review does not look at: inside a `macro_rules!` definition (one arm, one repetition, one `$(...)?`), in a generic helper or blanket impl used by many packet types, in a trait's default method, in a `cfg`-independent re-export or type alias, in code that only ONE of the three front-ends (sync `decode`, `decode_async`, poll-based `PollPacket`) goes through, in only one of the two protocol families where the sibling stays correct, or in the interaction between a *public constructor / setter* and the encoder (a value the constructor accepts but the encoder or decoder mishandles). Also welcome: off-by-one at an exact protocol limit (127/128, 16383/16384, 65535, 268435455), behaviour that differs only when an optional section is present but EMPTY (empty property block, empty payload, empty user name, zero-length string), and state that survives from one packet to the next on a reused decoder state object.",
 5: "Any mechanism is welcome this round; favour changes that a reviewer would wave through: a bug fix that is right for the reported case and wrong for a neighbouring one, a micro-optimisation, a defensive limit, a convenience API added next to existing code, a dependency-style helper replaced by a hand-written one (or the reverse), an error message / variant tidied up, a spec citation applied to the wrong protocol version or packet type.",
 4: "Prefer, this round, VALUE-LEVEL slips that keep every length and every control-flow shape intact: two same-typed fields or values swapped on one side only (encoder or decoder); a value written from / decoded into the wrong but type-compatible field; a constant that is almost right (one bit, one value, one enum variant off); an operation applied in the wrong order; a comparison with the wrong operand; a change in a rarely examined impl (Hash, Ord, PartialEq, Display, Default, From/TryFrom conversions, Clone, a `new_*` convenience constructor, a public helper such as total_len/header_len) that the property still depends on; a change that affects only one protocol family or one packet type of several siblings. Also welcome: changes whose effect depends on *two* features being combined (e.g. a will with properties AND a user name).",
 3: "Prefer, this round: (i) a change where the code *looks* locally more defensive or more spec-conformant than before (an added check, a clamp, a cache, a fast path, a helper reuse) but breaks the property for a corner; (ii) a change in a place that is NOT one of the listed anchor mechanisms but that the property still depends on (a trait impl, a Default, a From conversion, a constant, a macro arm, a sibling packet type, the other protocol family); (iii) a change that keeps every individual function's contract plausible but makes two of them disagree.",
}

BENIGN_TPL = '''You are helping evaluate static-analysis tooling for the Rust crate `mqtt-proto` (MQTT v3.1/v3.1.1/v5.0 packet codec). You have your own scratch git worktree of the repository at {wt} . Work ONLY inside {wt} (never touch /repo or /verif; do not read /verif). Always build with `CARGO_TARGET_DIR={wt}/target` and `--offline` (no network).

YOUR TASK: produce FOUR independent BEHAVIOUR-PRESERVING refactorings of the code in: {region}
Each refactoring must be the kind of edit a maintainer makes without intending any behaviour change, and must in fact not change the observable behaviour of any public API for any input (same results, same errors with the same payloads, same bytes, same panics-or-not, same number of bytes read from / written to the transport and in the same pattern of calls as far as a caller can observe). Do NOT change public signatures. Each refactoring should touch a handful of lines (3-40) and the four should touch different functions where possible.
Refactorings already done in earlier rounds -- do different ones (different functions and/or different kinds of transformation):
{avoid}
Ideas for this round (pick varied ones; be bolder than cosmetic edits, but stay strictly equivalent; prefer kinds of transformation NOT in the list above): converting between iterator chains and explicit loops; introducing or removing small private types / traits / generic helpers; moving logic between a macro and a function for one instantiation; changing how a state machine is spelled (match on a tuple, nested matches, early returns, labelled breaks); replacing arithmetic by an equivalent form (shifts/masks vs division/modulo, `a - b` after an explicit comparison vs checked_sub, saturating forms that cannot saturate); replacing `Option`/`Result` combinators by pattern matching and back; splitting or merging `impl` blocks; reordering items; turning constants into associated consts / const fns / statics of the same value; using `core::mem::take` / `replace` / `swap`; slices vs arrays vs `Vec` for fixed small buffers where the reads/writes stay identical; extracting a private helper function or closure used from two places; inlining a private helper at its call sites; replacing an `if`/`else if` chain by a `match` (or the reverse), or a `match` with guards by nested ifs; early-return style vs. single-exit style; replacing an explicit loop by iterator adaptors (`try_for_each`, `fold`, `take_while`) or the reverse where exactly equivalent; introducing a small private struct/tuple to carry two locals; replacing a bool flag by an Option or enum local; changing integer types of *locals* where provably lossless; splitting a compound condition into nested ifs; replacing `a.checked_sub(b).ok_or(E)?` by an explicit comparison and subtraction or the reverse; `matches!` vs match; `Option::filter/then/then_some`; `let else`; using `core::mem::take/replace`; reordering match arms that are disjoint; moving a constant into an associated const; using a `const fn`; merging duplicated v3/v5 code through a private generic helper within one module (only if no behaviour changes).

For EACH refactoring n in {{1,2,3,4}} deliver under {wt}/out/{tag}-n/ :
  - patch.diff : `git diff` of the change only (src/ files; must apply with `git apply` on a clean checkout of HEAD).
  - meta.json : {{"summary": "<one sentence: what was refactored>", "why_equivalent": "<one or two sentences>", "files_touched": [...]}}
You MUST verify each one separately from a clean tree (`git -C {wt} checkout -- . && git -C {wt} clean -fdq -e out -e target`): apply the patch, run `cd {wt} && CARGO_TARGET_DIR={wt}/target cargo test --offline` -> all 73 tests pass and there are no new compiler warnings. Leave the worktree clean at the end (no patch applied), keeping only {wt}/out/ and {wt}/target. Keep your final answer short: one line per refactoring.
'''

PLAIN_IDEAS = "Ideas (ordinary maintenance edits): renaming locals and private items; adding doc comments and #[inline]; reordering independent statements or match arms; `if`/`match` conversions; `?` vs explicit early return; introducing a local for a repeated sub-expression or removing one; named constants for literals; `Self::` paths; splitting a long expression; small helper extraction; clippy-style rewrites (`matches!`, `map_or`, `is_some_and`, `let else`, `then_some`); formatting of numeric literals (0x80 vs 128 vs 0b1000_0000)."

REGIONS = {
 "1": "src/common/poll.rs and src/v3/poll.rs, src/v5/poll.rs (the poll decoder state machine and the PollHeader impls)",
 "2": "src/common/utils.rs and src/common/error.rs",
 "3": "src/common/types.rs",
 "4": "src/v5/types.rs (PropertyId, PropertyValue helpers, VarByteInt and the property macros)",
 "5": "src/v3/packet.rs and src/v5/packet.rs, src/v5/error.rs",
 "6": "src/v3/connect.rs and src/v5/connect.rs",
 "7": "src/v3/publish.rs and src/v5/publish.rs",
 "8": "src/v3/subscribe.rs and src/v5/subscribe.rs",
}


def main():
    kind, arg, out = sys.argv[1], sys.argv[2], sys.argv[3]
    os.makedirs(out, exist_ok=True)
    if kind == "seeds":
        rnd = int(arg)
        props = {json.loads(l)["id"]: json.loads(l) for l in open(os.path.join(VERIF, "properties.jsonl"))}
        prev = {}
        for n in sorted(os.listdir(os.path.join(VERIF, "seeded"))):
            p = os.path.join(VERIF, "seeded", n, "meta.json")
            if os.path.exists(p):
                m = json.load(open(p))
                prev.setdefault(m["property"], []).append(m.get("summary", "")[:240])
        allprev = [s for v in prev.values() for s in v]
        for pid, p in props.items():
            if pid in ("C16", "C19"):
                continue
            wt = os.path.join(out, pid)
            mech = "; ".join("%s (%s)" % (m["name"], m["where"]) for m in p["anchors"]["mechanism"])
            av = prev.get(pid, [])
            avoid = "\n".join("  - " + s for s in (av + [x for x in allprev if x not in av])[:60])
            open(os.path.join(out, "prompt_%s.txt" % pid), "w").write(SEED_TPL.format(
                wt=wt, id=pid, title=p["title"], statement=p["statement"], qtext=p["quantifier"]["text"], why=p["why_tests_cant"],
                files=", ".join(p["anchors"]["files"]), mech=mech, avoid=avoid, round=rnd, hint=HINTS.get(rnd, ""),
                b1=str(2 * rnd - 1), b2=str(2 * rnd)))
    else:
        letter = arg
        prev = []
        for n in sorted(os.listdir(os.path.join(VERIF, "benign"))):
            p = os.path.join(VERIF, "benign", n, "meta.json")
            if os.path.exists(p):
                prev.append(json.load(open(p)).get("summary", "")[:160])
        plain = len(sys.argv) > 4 and sys.argv[4] == "plain"
        tpl = BENIGN_TPL
        if plain:
            a = tpl.index("Ideas for this round")
            b = tpl.index("For EACH refactoring")
            tpl = tpl[:a] + PLAIN_IDEAS + "\n\n" + tpl[b:]
        for k, reg in REGIONS.items():
            tag = letter + k
            open(os.path.join(out, "prompt_%s.txt" % tag), "w").write(tpl.format(
                wt=os.path.join(out, tag), region=reg, tag=tag, avoid="\n".join("  - " + s for s in prev[-60:])))


if __name__ == "__main__":
    main()
