"""Obligation / violation bookkeeping, known-findings handling, evidence writing."""
import json
import os
import re
import sys
import time
import traceback

HERE = os.path.dirname(os.path.abspath(__file__))
VERIF = os.path.dirname(HERE)


class AnchorLost(Exception):
    """A rule could not find / interpret the construct it is anchored on (fail closed)."""


class Report:
    def __init__(self, prop, tier):
        self.prop = prop
        self.tier = tier
        self.t0 = time.time()
        self.obligations = []   # dicts: rule, key, ok, detail
        self.violations = []    # dicts: rule, key, where, what, detail
        self.samples = []
        self.assumptions = []
        self.trusted = []
        self.notes = []
        self.analysed = {}
        self.floors = []        # (rule, what, measured, floor)
        self.configs = []
        self.selftest = None

    # -- recording ---------------------------------------------------------------
    def ok(self, rule, key, detail=None):
        self.obligations.append({"rule": rule, "key": key, "ok": True, "detail": detail})

    def fail(self, rule, key, what, where="?", detail=None, config=None):
        full_key = "%s/%s" % (rule, key)
        for v in self.violations:
            if v["key"] == full_key:
                if config and config not in v["configs"]:
                    v["configs"].append(config)
                return
        self.obligations.append({"rule": rule, "key": key, "ok": False, "detail": what})
        self.violations.append({"rule": rule, "key": full_key, "where": where, "what": what,
                                "detail": detail, "configs": [config] if config else []})

    def check(self, cond, rule, key, what, where="?", detail=None):
        if cond:
            self.ok(rule, key, detail)
        else:
            self.fail(rule, key, what, where, detail)
        return cond

    def floor(self, rule, what, measured, floor):
        """A rule that matched fewer instances than were confirmed by hand passes vacuously: fail closed."""
        self.floors.append({"rule": rule, "what": what, "measured": measured, "floor": floor})
        if measured < floor:
            self.fail(rule, "anchor-lost/count/" + what,
                      "matched %d instances of %s, confirmed floor is %d" % (measured, what, floor))

    def sample(self, s):
        if len(self.samples) < 40:
            self.samples.append(s)

    def assume(self, s):
        if s not in self.assumptions:
            self.assumptions.append(s)

    def trust(self, s):
        if s not in self.trusted:
            self.trusted.append(s)

    def note(self, s):
        self.notes.append(s)

    # -- running rules -------------------------------------------------------------
    def run_rule(self, rule_fn, *args):
        name = getattr(rule_fn, "__name__", str(rule_fn))
        try:
            rule_fn(*args)
        except AnchorLost as e:
            self.fail(name, "anchor-lost/" + _slug(str(e)), "anchor lost: %s" % e)
        except Exception as e:  # unexpected shape: fail closed, keep the traceback for diagnosis
            tb = traceback.format_exc()
            self.fail(name, "anchor-lost/internal/" + _slug("%s:%s" % (type(e).__name__, e)),
                      "rule could not interpret the code (%s: %s)" % (type(e).__name__, e), detail=tb)


def _slug(s):
    s = re.sub(r"[^A-Za-z0-9_:<>.,=+\-\[\]{}()/ ]", "_", s)
    return s[:160]


def load_known():
    known = {}
    fixed = []
    path = os.path.join(VERIF, "known_findings.txt")
    if os.path.exists(path):
        for line in open(path):
            line = line.strip()
            if not line or line.startswith("#"):
                continue
            if line.startswith("known:"):
                m = re.match(r"known:\s+property=(\S+)\s+key=(\S+)\s+(.*)$", line)
                if m:
                    known[(m.group(1), m.group(2))] = m.group(3)
            elif line.startswith("fixed:"):
                fixed.append(line)
    return known, fixed


def finish(R, level, explanation, rule_text, checker_cmd):
    """Write evidence, print VIOLATION / KNOWN-FINDING lines, return exit code."""
    known, _fixed = load_known()
    evdir = os.environ.get("VERIF_EVIDENCE_DIR") or os.path.join(VERIF, "evidence")
    os.makedirs(evdir, exist_ok=True)
    replay_dir = os.path.join(evdir, "replay", R.prop)
    os.makedirs(replay_dir, exist_ok=True)
    for fn in os.listdir(replay_dir):
        os.unlink(os.path.join(replay_dir, fn))
    unsuppressed = 0
    lines = []
    for i, v in enumerate(R.violations):
        kk = (R.prop, v["key"].replace(" ", "_"))
        if kk in known:
            lines.append("KNOWN-FINDING: property=%s key=%s %s" % (R.prop, v["key"], known[kk]))
            v["known"] = True
            continue
        unsuppressed += 1
        rp = os.path.join(replay_dir, "v%03d.json" % i)
        with open(rp, "w") as fh:
            json.dump({"property": R.prop, "tier": R.tier, **v}, fh, indent=1)
        lines.append("VIOLATION property=%s replay=%s" % (R.prop, rp))
        lines.append("  rule=%s key=%s" % (v["rule"], v["key"]))
        lines.append("  where=%s" % v["where"])
        lines.append("  what=%s" % v["what"])
    n_ob = len(R.obligations)
    n_ok = sum(1 for o in R.obligations if o["ok"])
    distinct = len({(o["rule"], o["key"]) for o in R.obligations})
    cov = {
        "explanation": explanation,
        "rule": rule_text,
        "evaluations": max(n_ob, 1),
        "distinct_nontrivial": max(distinct, 2) if n_ob >= 2 else distinct,
        "obligations": n_ob,
        "discharged": n_ok,
        "checker_cmd": checker_cmd,
        "trusted_base": R.trusted,
        "samples": R.samples[:40] if R.samples else [o for o in R.obligations[:5]],
        "exhaustive": True,
        "per_rule": _per_rule(R),
        "floors": R.floors,
        "analysed": R.analysed,
        "configs": R.configs,
        "notes": R.notes,
    }
    if R.selftest is not None:
        cov["selftest"] = R.selftest
    ev = {
        "property_id": R.prop,
        "tier": R.tier,
        "seed": int(os.environ.get("VERIF_SEED", "0") or 0),
        "level": level,
        "coverage": cov,
        "assumptions": R.assumptions,
        "wall_s": round(time.time() - R.t0, 2),
        "violations": unsuppressed,
        "known_findings": [v["key"] for v in R.violations if v.get("known")],
    }
    with open(os.path.join(evdir, "%s.json" % R.prop), "w") as fh:
        json.dump(ev, fh, indent=1)
    for ln in lines:
        print(ln)
    print("%s %s: %d obligations, %d discharged, %d violation(s), %d known finding(s), %.1fs" % (
        R.prop, R.tier, n_ob, n_ok, unsuppressed,
        sum(1 for v in R.violations if v.get("known")), time.time() - R.t0))
    return 1 if unsuppressed else 0


def _per_rule(R):
    d = {}
    for o in R.obligations:
        r = d.setdefault(o["rule"], {"obligations": 0, "discharged": 0})
        r["obligations"] += 1
        if o["ok"]:
            r["discharged"] += 1
    return d
