"""Engine L, read side: byte-consumption summaries of decoders.

`ReadInterp` extends the write/len interpreter with the effect "consumes N bytes from the reader".
Values read from the wire are fresh integer symbols val($nK); buffers carry a symbolic length; storing a
decoded buffer/integer into a field path records an alias so later `field.len()` denotes the same symbol.
Only paths on which the decoder *continues* are summarised: a `return`, an `Err(..)` value or `?` on an
error leaves the summary (the property clauses concerned quantify over accepted inputs).

Loops `while X > Y { .. }` are summarised by one symbolic iteration: the record holds the bytes consumed
per iteration and the decrease of the distance X - Y; rules require them to be equal (accounting) and the
decrease to be >= 1 (progress). After the loop the exact-exit state (X == Y) is assumed and recorded as an
obligation for the structural rule that checks the post-loop test.
"""
from facts import strip, lit_value, pp, loc
from norm import nbody, walk_all, unblock
from lensum import (BoolVal, Interp, Poly, PathVal, Opaque, TupleVal, Cases, ConstBytes, Unsupported, UNIT,
                    as_poly, mix, ind_not, g_val, g_len, g_enc, g_varint, g_sum, fmt_path, _P)


class _DivergeBase(Exception):
    pass


class Diverge(_DivergeBase):
    pass


class LoopBreak(Diverge):
    """`break` out of the innermost loop (a divergence of the path inside the loop body)."""


class ErrVal:
    def __repr__(self):
        return "Err"


class BufVal:
    def __init__(self, n):
        self.n = n

    def __repr__(self):
        return "Buf(%r)" % (self.n,)


_WRAPPERS = {"new", "from", "into", "try_from", "try_into", "ok_or", "ok_or_else", "map_err", "expect",
             "unwrap", "from_utf8_unchecked", "clone", "to_owned", "to_string", "into_boxed_slice", "freeze"}


_MUTATORS = {"dedup", "dedup_by", "dedup_by_key", "sort", "sort_unstable", "sort_by", "sort_by_key", "sort_unstable_by", "sort_unstable_by_key",
             "sort_by_cached_key", "retain", "retain_mut", "truncate", "reverse", "clear", "pop", "remove", "swap_remove", "drain", "insert",
             "swap", "rotate_left", "rotate_right", "split_off", "fill", "make_ascii_lowercase", "make_ascii_uppercase"}


class ReadInterp(Interp):
    def __init__(self, F, summarise_props=True):
        super().__init__(F, "read")
        self.consumed = Poly()
        self.alias = {}        # symbol path -> ("len"|"val", target path)
        self.known = {}        # atom -> bool
        self.nsym = 0
        self.loops = []
        self.exact_exit = []
        self.summarise_props = summarise_props
        self.reads = []        # ordered (kind, detail, destination symbol)
        self.ncond = 0
        self.stores = {}       # symbol path -> list of destination paths
        self.cmp_atoms = {}    # fresh condition atom -> (op, lhs poly, rhs poly)
        self._breaks = []      # (in then-branch?, indicator) of conditional breaks seen while evaluating a loop body
        self.free_syms = set() # symbols standing for loop-exit values that a later guard may pin down
        self.charges = []      # (read primitive, bytes, "pre"|"post"): was the frame's budget charged before the read?
        self.path_atoms = []   # (condition atom, truth) assumed on the branch being evaluated
        self.ge = []           # polynomials known to be >= 0 at the current point (successful checked_sub, surviving comparisons)

    def fresh(self, prefix="n"):
        self.nsym += 1
        return ("$%s%d" % (prefix, self.nsym),)

    # -- running functions: async fns keep their parameters as upvars of the coroutine body
    def run_fn(self, fid, args):
        f = self.F.fns.get(fid)
        if f is None or not f.get("thir"):
            raise Unsupported("no body for %s" % fid)
        body = nbody(self.F, fid)
        from lensum import Frame
        fr = Frame()
        params = list(f["thir"]["params"])
        if f["kind"] == "Closure" and params and params[0].get("pat") is None:
            params = params[1:]
        if len(params) != len(args):
            raise Unsupported("arity mismatch calling %s" % fid)
        for p, a in zip(params, args):
            if p.get("pat") is not None:
                self.bind(fr, p["pat"], a)
        self.depth += 1
        if self.depth > 14:
            raise Unsupported("call depth exceeded at %s" % fid)
        try:
            return self.eval(fr, body)
        finally:
            self.depth -= 1
            self.last_frame = (fr, params)

    @staticmethod
    def _mut_ref_var(a):
        """var id when the argument is `&mut local` (possibly re-borrowed): the callee writes the caller's variable."""
        if a.get("k") != "Borrow" or not a.get("mut"):
            return None
        x = a
        while x.get("k") in ("Borrow", "Deref", "Scope", "Use", "NeverToAny", "PtrCoerce") and x.get("e") is not None:
            if x.get("k") == "Borrow" and not x.get("mut"):
                return None
            x = x["e"]
        return x["var"]["id"] if x.get("k") == "Var" else None

    def _call_local(self, fr, res, args, vals):
        """run a crate function; values the callee stored through `&mut local` parameters flow back into the caller's locals"""
        v = self.run_fn(res, vals)
        cfr, params = self.last_frame
        # `let x = x;` re-bindings of parameters (async fn bodies start with them): the reference lives on under the new id
        alias = {}
        for x in walk_all(nbody(self.F, res)):
            if x.get("k") == "Block":
                for st in x.get("stmts", []):
                    if st.get("k") == "Let" and st.get("init") is not None and st["pat"].get("k") == "Binding":
                        src = strip(st["init"])
                        if src.get("k") in ("Var", "Upvar"):
                            alias[st["pat"]["var"]["id"]] = src["var"]["id"]
        for a, p in zip(args, params):
            vid = self._mut_ref_var(a)
            pat = p.get("pat") or {}
            if vid is not None and pat.get("k") == "Binding":
                pid = pat["var"]["id"]
                for new, old in alias.items():
                    o = old
                    while o in alias:
                        o = alias[o]
                    if o == pid and new in cfr.env:
                        pat = {"k": "Binding", "var": {"id": new}}
            if vid is not None and pat.get("k") == "Binding" and isinstance(fr.env.get(vid), (Poly, Opaque)) or \
                    (vid is not None and pat.get("k") == "Binding" and vid in fr.env and isinstance(cfr.env.get(pat["var"]["id"]), (Poly, Opaque))):
                new = cfr.env.get(pat["var"]["id"])
                if new is not None:
                    fr.env[vid] = new
        return v

    # -- substitution of aliases into a polynomial
    def resolve(self, p):
        if not isinstance(p, Poly):
            return p
        out = Poly()
        for (atoms, g), c in p.m.items():
            g2 = self._res_gen(g)
            out = out + Poly({(atoms, g2): c})
        return out

    def _res_gen(self, g):
        if g is None:
            return None
        if g[0] == "val" and g[1] in self.alias:
            kind, path = self.alias[g[1]]
            if kind in ("len", "val"):
                return (kind, tuple(path))
            return ("val", tuple(path))
        if g[0] == "varint":
            inner = self.resolve(Poly.from_key(g[1]))
            return ("varint", inner.key(), repr(inner))
        if g[0] == "sum":
            inner = self.resolve(Poly.from_key(g[2]))
            return ("sum", g[1], inner.key(), repr(inner))
        if g[0] == "enc" and g[2] in self.alias:
            return ("enc", g[1], tuple(self.alias[g[2]][1]))
        if g[0] in ("len", "val", "enc"):
            # paths rooted at an aliased symbol ($p3.user_properties -> properties.user_properties)
            path = g[-1]
            for k in range(len(path), 0, -1):
                if path[:k] in self.alias and self.alias[path[:k]][0] == "path":
                    np = tuple(self.alias[path[:k]][1]) + path[k:]
                    return g[:-1] + (np,)
        return g

    # -- divergence
    def e_Return(self, fr, e):
        raise Diverge()

    def e_Break(self, fr, e):
        raise LoopBreak()

    def e_Try(self, fr, e):
        v = self.eval(fr, e["e"])
        if isinstance(v, ErrVal):
            raise Diverge()
        if isinstance(v, tuple) and v and v[0] == "checked":
            self.ge.append(v[1])          # the subtraction did not underflow
            return v[1]
        return v

    def e_Adt(self, fr, e):
        adt = e["adt"]
        if adt == "core::result::Result":
            if e["variant"] == "Err":
                return ErrVal()
            return self.eval(fr, e["fields"][0]["e"]) if e["fields"] else UNIT
        if adt == "core::option::Option":
            if e["variant"] == "None":
                return ("none",)
            return self.eval(fr, e["fields"][0]["e"])
        a = self.F.adts.get(adt)
        if a is not None and a["kind"] == "enum" and not e["fields"]:
            return ("variant", e["variant"], adt)
        vals = {}
        for f in e["fields"]:
            vals[f["name"]] = self.eval_quiet(fr, f["e"])
        return ("struct", adt, e["variant"], vals)

    def opt_cases(self, v):
        """On the read side `Some(x)` is represented by x itself: a computed Option is a case split whose alternatives are
        ("none",) or a payload."""
        def rec(x):
            if isinstance(x, tuple) and x and x[0] in ("none", "some"):
                return [(Poly.const(1), x)]
            if isinstance(x, Cases):
                out = []
                for i, y in x.pairs:
                    sub = rec(y)
                    if sub is None:
                        return None
                    out += [(i * j, z) for j, z in sub]
                return out
            if isinstance(x, (PathVal, Opaque)) or x is None:
                return None
            return [(Poly.const(1), ("some", x))]
        if isinstance(v, tuple) and v and v[0] in ("none", "some"):
            return [(Poly.const(1), v)]
        if isinstance(v, Cases):
            out = rec(v)
            return out if out is not None and any(y == ("none",) for _j, y in out) else None
        return None

    def fork(self, fr, ind, then_fn, else_fn):
        base_env = dict(fr.env)
        base_known = dict(self.known)
        base_alias = dict(self.alias)
        base_ge = list(self.ge)
        base_pa = list(self.path_atoms)
        c0 = self.consumed
        r0 = len(self.reads)

        def run(fn):
            fr.env = dict(base_env)
            self.known = dict(base_known)
            self.alias = dict(base_alias)
            self.ge = base_ge + self._ge_facts(ind, fn is then_fn)
            self.path_atoms = base_pa + self._branch_atom(ind, fn is then_fn)
            self.consumed = c0
            try:
                v = fn()
            except LoopBreak:
                self._breaks.append((fn is then_fn, ind))
                del self.reads[r0:]
                return None
            except Diverge:
                del self.reads[r0:]
                return None
            if isinstance(v, ErrVal):
                del self.reads[r0:]
                return None
            rd = self.reads[r0:]
            del self.reads[r0:]
            return (v, self.consumed, fr.env, self.known, self.alias, rd, self.ge)
        a = run(then_fn)
        b = run(else_fn)
        self.path_atoms = base_pa
        if a is None and b is None:
            fr.env, self.known, self.alias, self.consumed = base_env, base_known, base_alias, c0
            self.ge = base_ge
            raise Diverge()
        if a is None or b is None:
            v, self.consumed, fr.env, self.known, self.alias, rd, self.ge = a or b
            self.reads.extend(rd)
            self.learn(fr, ind, then_survived=(a is not None))
            return v
        v1, c1, env1, k1, al1, rd1, ge1 = a
        v2, c2, env2, k2, al2, rd2, ge2 = b
        keys2 = {q.key() for q in ge2}
        self.ge = [q for q in ge1 if q.key() in keys2]
        self.consumed = ind * c1 + ind_not(ind) * c2
        if rd1 or rd2:
            self.reads.append(("cond", repr(ind), rd1, rd2))
        self.known = {k: v for k, v in k1.items() if k2.get(k) == v}
        self.alias = dict(al2)
        self.alias.update(al1)
        env = {}
        for vid in set(env1) & set(env2):
            x, y = env1.get(vid), env2.get(vid)
            if x is y:
                env[vid] = x
            else:
                try:
                    env[vid] = mix(ind, x, y)
                except Unsupported:
                    env[vid] = Opaque("diverged")
        fr.env = env
        if isinstance(v1, Opaque) and isinstance(v2, Opaque):
            return UNIT
        try:
            return mix(ind, v1, v2)
        except Unsupported:
            return Opaque("mixed")

    @staticmethod
    def _branch_atom(ind, truth):
        atoms = ind.atoms()
        if len(atoms) != 1:
            return []
        (atom,) = atoms
        if len(ind.m) == 1 and ind.m.get((frozenset([atom]), None)) == 1:
            return [(atom, truth)]
        if len(ind.m) == 2 and ind.m.get((frozenset(), None)) == 1 and ind.m.get((frozenset([atom]), None)) == -1:
            return [(atom, not truth)]
        return []

    def _ge_facts(self, ind, truth):
        """What a comparison recorded as a condition atom says on the branch where it is `truth`: polynomials that are >= 0."""
        atoms = ind.atoms()
        if len(atoms) != 1:
            return []
        (atom,) = atoms
        info = self.cmp_atoms.get(atom)
        if not info:
            return []
        if len(ind.m) == 2 and ind.m.get((frozenset(), None)) == 1 and ind.m.get((frozenset([atom]), None)) == -1:
            truth = not truth          # the indicator is `1 - atom`
        elif not (len(ind.m) == 1 and ind.m.get((frozenset([atom]), None)) == 1):
            return []
        op, a, b = info
        d = a - b
        if (op, truth) in (("Ge", True), ("Lt", False)):
            return [d]
        if (op, truth) in (("Gt", True), ("Le", False)):
            return [d - Poly.const(1)]
        if (op, truth) in (("Le", True), ("Gt", False)):
            return [-d]
        if (op, truth) in (("Lt", True), ("Ge", False)):
            return [-d - Poly.const(1)]
        if (op, truth) in (("Eq", True), ("Ne", False)):
            return [d, -d]
        return []

    def learn(self, fr, ind, then_survived):
        """The surviving branch of `if a != b { diverge }` knows a == b: pin a free loop-exit symbol."""
        atoms = ind.atoms()
        if len(atoms) != 1 or len(ind.m) != 1:
            return
        (atom,) = atoms
        info = self.cmp_atoms.get(atom)
        if not info:
            return
        op, a, b = info
        equal_known = (op == "Ne" and not then_survived) or (op == "Eq" and then_survived)
        if not equal_known:
            return
        for x, y in ((a, b), (b, a)):
            sym = _single_symbol(x)
            if sym is not None and sym in self.free_syms:
                self.subst_symbol(fr, sym, y)
                self.free_syms.discard(sym)
                return

    def subst_symbol(self, fr, sym, value):
        def sub(p):
            if not isinstance(p, Poly):
                return p
            out = Poly()
            for (atoms, g), c in p.m.items():
                if g is not None and g[0] == "val" and g[1] == sym:
                    out = out + Poly({(atoms, None): c}) * value
                else:
                    out = out + Poly({(atoms, g): c})
            return out
        self.consumed = sub(self.consumed)
        for vid, v in list(fr.env.items()):
            fr.env[vid] = sub(v)

    # -- conditions
    def cond(self, fr, e):
        e = unblock(e)
        if e.get("k") == "Binary" and e["op"] in ("Ne", "Eq", "Gt", "Lt", "Ge", "Le"):
            try:
                a = as_poly(self.eval(fr, e["l"]), "cmp")
                b = as_poly(self.eval(fr, e["r"]), "cmp")
            except Unsupported:
                a = b = None
            if a is not None:
                d = a - b
                if d.is_zero():
                    return Poly.const(1 if e["op"] in ("Eq", "Ge", "Le") else 0)
                if d.is_const() and e["op"] not in ("Eq", "Ne"):
                    cv = d.const_value()
                    return Poly.const(1 if {"Gt": cv > 0, "Lt": cv < 0, "Ge": cv >= 0, "Le": cv <= 0}[e["op"]] else 0)
                if not d.is_const():
                    self.ncond += 1
                    atom = ("cond", ("$c%d" % self.ncond,))
                    self.cmp_atoms[atom] = (e["op"], a, b)
                    return Poly.atom(atom)
        if e.get("k") == "Call" and e["fn"].get("name") in ("is_some", "is_none") and len(e["args"]) == 1:
            v = self.eval(fr, e["args"][0])
            if isinstance(v, PathVal):
                a = ("some", v.path)
                if a in self.known:
                    val = self.known[a] if e["fn"]["name"] == "is_some" else not self.known[a]
                    return Poly.const(1 if val else 0)
        try:
            return super().cond(fr, e)
        except Unsupported:
            self.eval_quiet(fr, e)
            self.ncond += 1
            return Poly.atom(("cond", ("$c%d" % self.ncond,)))

    def match_ind(self, fr, scrut, pat):
        p = pat
        while p.get("k") == "Deref":
            p = p["sub"]
        if isinstance(scrut, tuple) and scrut and scrut[0] == "checked" and p.get("k") == "Variant" and p.get("adt") == "core::option::Option":
            # the Option returned by checked_sub: None is the refused (too short) frame, which is not an accepting path
            if p["variant"] == "None":
                return Poly.const(0), (lambda: None)
            sub = p["subs"][0]["pat"] if p.get("subs") else {"k": "Wild"}
            while sub.get("k") == "Deref":
                sub = sub["sub"]
            if sub.get("k") == "Const" and isinstance(sub.get("val"), int):
                d = scrut[1] - Poly.const(sub["val"])
                if d.is_zero():
                    return Poly.const(1), (lambda: None)
                self.ncond += 1
                atom = ("cond", ("$c%d" % self.ncond,))
                self.cmp_atoms[atom] = ("Eq", scrut[1], Poly.const(sub["val"]))
                return Poly.atom(atom), (lambda: None)
            return Poly.const(1), (lambda: (self.ge.append(scrut[1]), self.bind(fr, sub, scrut[1])))
        if p.get("k") == "Variant" and p.get("adt") == "core::option::Option":
            if isinstance(scrut, PathVal):
                a = ("some", scrut.path)
                if a in self.known:
                    is_some = self.known[a]
                    hit = is_some if p["variant"] == "Some" else not is_some
                    return Poly.const(1 if hit else 0), (lambda: self.bind(fr, p, scrut))
            elif isinstance(scrut, (BufVal, Poly)):
                # value known to be Some(..) (constructed locally)
                hit = p["variant"] == "Some"
                return Poly.const(1 if hit else 0), (lambda: self.bind_value(fr, p, scrut))
        if p.get("k") == "Binding" and p.get("sub"):
            ind, binder = self.match_ind(fr, scrut, p["sub"])
            return ind, (lambda: (binder(), fr.env.__setitem__(p["var"]["id"], scrut)))
        if p.get("k") == "Variant" and p.get("adt") == "core::option::Option" and not isinstance(scrut, PathVal) and self.opt_cases(scrut) is not None:
            return super().match_ind(fr, scrut, pat)        # a computed Option (a constructor / helper picked by an earlier match)
        if p.get("k") == "Variant" and p.get("adt") == "core::result::Result" and isinstance(scrut, (BufVal, Poly)):
            # on the read side `Ok(x)` is x itself (a fallible wrapper around one decoded value): the Ok arm sees the value,
            # the Err arm an error value; which arm runs is an unknown condition
            self.ncond += 1
            ind = Poly.atom(("cond", ("$c%d" % self.ncond,)))
            if p["variant"] == "Ok":
                return ind, (lambda: self.bind_value(fr, p, scrut))
            return ind, (lambda: self.bind_value(fr, p, ErrVal()))
        if p.get("k") == "Const" or not isinstance(scrut, PathVal) and p.get("k") == "Variant":
            self.ncond += 1
            return Poly.atom(("cond", ("$c%d" % self.ncond,))), (lambda: None)
        return super().match_ind(fr, scrut, pat)

    def bind_value(self, fr, p, val):
        for s in p.get("subs", []):
            self.bind(fr, s["pat"], val)

    def e_If(self, fr, e):
        c = unblock(e["cond"])
        # `if X > 0 { A } else { B }` / `X != 0` / `0 < X` / `X >= 1` / `!buf.is_empty()`: B knows X == 0;
        # `if X == 0 { B } else { A }` / `X < 1` / `buf.is_empty()`: the same with the branches exchanged
        xs = None
        swapped = False
        if c.get("k") == "Binary":
            lv, rv = lit_value(c["l"]), lit_value(c["r"])
            op = c["op"]
            if op in ("Gt", "Ne") and rv == 0 and lv is None:
                xs = c["l"]
            elif op in ("Lt", "Ne") and lv == 0 and rv is None:
                xs = c["r"]
            elif op == "Ge" and rv == 1 and lv is None:
                xs = c["l"]
            elif op == "Eq" and rv == 0 and lv is None:
                xs, swapped = c["l"], True
            elif op == "Eq" and lv == 0 and rv is None:
                xs, swapped = c["r"], True
            elif op == "Lt" and rv == 1 and lv is None:
                xs, swapped = c["l"], True
        elif c.get("k") == "Unary" and c.get("op") == "Not" and unblock(c["e"]).get("k") == "Call" and \
                unblock(c["e"])["fn"].get("name") == "is_empty" and len(unblock(c["e"])["args"]) == 1:
            xs = {"__len_of": unblock(c["e"])["args"][0]}
        elif c.get("k") == "Call" and c["fn"].get("name") == "is_empty" and len(c["args"]) == 1:
            xs, swapped = {"__len_of": c["args"][0]}, True
        if xs is not None and swapped and any(y.get("k") in ("Break", "Continue") for y in walk_all(e["then"])):
            xs = None            # a loop's exit test (`if rest == 0 { break }`): e_Loop reads it as a comparison
        if xs is not None:
            try:
                if "__len_of" in xs:
                    bv = self.eval(fr, xs["__len_of"])
                    x = bv.n if isinstance(bv, BufVal) else None
                else:
                    x = as_poly(self.eval(fr, xs), "cond")
            except Unsupported:
                x = None
            if x is not None and not x.is_const():
                self.ncond += 1
                ind = Poly.atom(("cond", ("$c%d" % self.ncond,)))
                c0 = self.consumed
                env0 = dict(fr.env)
                nz, z = (e.get("else"), e["then"]) if swapped else (e["then"], e.get("else"))
                v = self.fork(fr, ind, lambda: self.eval(fr, nz) if nz else UNIT,
                              lambda: self.eval(fr, z) if z else UNIT)
                # remove the artificial atom where both branches agree modulo multiples of x (x == 0 in else)
                self.consumed = self._merge_zero(self.consumed, ind, x)
                for vid, val in list(fr.env.items()):
                    if isinstance(val, Poly):
                        fr.env[vid] = self._merge_zero(val, ind, x)
                if isinstance(v, Poly):
                    v = self._merge_zero(v, ind, x)
                return v
        return super().e_If(fr, e)

    def _merge_zero(self, p, ind, x):
        (a,) = ind.atoms()
        then_p = p.subst_atom(a, True)
        else_p = p.subst_atom(a, False)
        d = then_p - else_p
        if d.is_zero():
            return then_p
        # d == k * x for an integer k  =>  else_p + k*x == then_p and x == 0 in the else branch
        for k in (1, -1, 2, -2):
            if (d - x * k).is_zero():
                return then_p
        return p

    # -- assignments: record aliases / known facts
    def store(self, path, val, rhs_expr):
        r = unblock(rhs_expr) if isinstance(rhs_expr, dict) else None
        if isinstance(r, dict) and r.get("k") == "Adt" and r.get("adt") == "core::option::Option":
            self.known[("some", tuple(path))] = (r["variant"] == "Some")
        sym = None
        if isinstance(val, BufVal):
            sym = _single_symbol(val.n)
            if sym is not None:
                self.alias[sym] = ("len", tuple(path))
        elif isinstance(val, Poly):
            sym = _single_symbol(val)
            if sym is not None:
                self.alias[sym] = ("val", tuple(path))
        elif isinstance(val, PathVal) and val.path and val.path[0].startswith("$"):
            self.alias[val.path] = ("path", tuple(path))
            sym = val.path
        if sym is not None:
            self.stores.setdefault(sym, []).append(tuple(path))

    def e_Assign(self, fr, e):
        l = strip(e["l"])
        v = self.eval_quiet(fr, e["r"])
        if l.get("k") == "Var" and isinstance(fr.env.get(l["var"]["id"]), tuple) and fr.env[l["var"]["id"]][:1] == ("elemref",):
            _k, avid, i = fr.env[l["var"]["id"]]
            arr = fr.env.get(avid)
            if isinstance(arr, TupleVal):
                items = list(arr.items)
                items[i] = v
                fr.env[avid] = TupleVal(items)
            return UNIT
        if e["l"].get("k") == "Deref" and l.get("k") == "Var" and isinstance(fr.env.get(l["var"]["id"]), PathVal):
            self.store(fr.env[l["var"]["id"]].path, v, e["r"])
            return UNIT
        if l.get("k") == "Var":
            fr.env[l["var"]["id"]] = v
            return UNIT
        if l.get("k") == "Field":
            try:
                base = self.eval(fr, l["lhs"])
            except Unsupported:
                base = None
            if isinstance(base, tuple) and base and base[0] == "struct":
                base[3][str(l["name"])] = v           # a local record (newtype counter, small state struct) updated in place
                return UNIT
        try:
            target = self.eval(fr, e["l"])
        except Unsupported:
            return UNIT
        if isinstance(target, PathVal):
            if self.summarise_props and target.path and isinstance(target.path[0], str) and target.path[0].startswith("$p") and len(target.path) > 1:
                # the bytes a decoded property set occupied are accounted as enc(props): it must not change afterwards
                raise Unsupported("a field of a decoded property set (%s) is modified after decoding: its encoded length no longer "
                                  "equals the bytes that were consumed" % ".".join(map(str, target.path[1:])))
            self.store(target.path, v, e["r"])
        return UNIT

    def e_AssignOp(self, fr, e):
        l = strip(e["l"])
        if l.get("k") != "Var":
            # e.g. `*var_idx += 1` on state fields: untracked
            self.eval_quiet(fr, e["r"])
            return UNIT
        vid = l["var"]["id"]
        cur = fr.env.get(vid)
        if e["op"] in ("AddAssign", "SubAssign") and isinstance(cur, Poly):
            r = as_poly(self.eval(fr, e["r"]), pp(e["r"]))
            fr.env[vid] = cur + r if e["op"] == "AddAssign" else cur - r
        else:
            self.eval_quiet(fr, e["r"])
            fr.env[vid] = Opaque("updated")
        return UNIT

    def e_Binary(self, fr, e):
        op = e["op"]
        if op in ("Add", "Sub", "Mul"):
            try:
                a = as_poly(self.eval(fr, e["l"]), pp(e["l"]))
                b = as_poly(self.eval(fr, e["r"]), pp(e["r"]))
                return a + b if op == "Add" else a - b if op == "Sub" else a * b
            except Unsupported:
                return Opaque("arith")
        if op in ("Eq", "Ne", "Gt", "Lt", "Ge", "Le") and not getattr(self, "_in_cmp", False):
            self._in_cmp = True
            try:
                return BoolVal(self.cond(fr, e))      # a comparison of lengths is a condition (possibly returned by a helper)
            except (Unsupported, RecursionError):
                return Opaque("binary %s" % op)
            finally:
                self._in_cmp = False
        self.eval_quiet(fr, e["l"])
        self.eval_quiet(fr, e["r"])
        return Opaque("binary %s" % op)

    def e_Cast(self, fr, e):
        v = self.eval(fr, e["e"])
        if isinstance(v, PathVal) and e["ty"] in ("usize", "u32", "u16", "u8", "u64"):
            return g_val(v.path)
        if isinstance(v, Poly) and e["ty"] in ("u16", "u8", "i16", "i8") and \
                any(g is not None and g[0] == "val" and g[1][-1:] == ("remaining_len",) for (_a, g) in v.m):
            # what is left of the frame (up to 268,435,455) does not fit: the value read on is the length modulo 2^16 / 2^8
            raise Unsupported("a quantity derived from the remaining length is narrowed with `as %s` at %s" % (e["ty"], loc(e)))
        return v

    def project(self, val, name, idx=None):
        if isinstance(val, tuple) and val and val[0] == "struct":
            return val[3].get(str(name), Opaque("field"))
        if isinstance(val, (BufVal, Poly)):
            return val
        return super().project(val, name, idx)

    def e_Index(self, fr, e):
        self.eval_quiet(fr, e["lhs"])
        self.eval_quiet(fr, e["index"])
        return Opaque("index")

    def e_Repeat(self, fr, e):
        return Opaque("array")

    def e_Loop(self, fr, e):
        """A bottom-tested counter loop: `loop { reads; let rest = counter - n (checked); if rest == 0 { break } counter = rest }`.
        Entered with counter >= 1 (an earlier `Some(0) => return` / `== 0 -> error` establishes it), it is the loop
        `while counter > 0 { reads; counter -= n }`: same bytes per iteration, same exit."""
        c0 = self.consumed
        r0 = len(self.reads)
        env0 = dict(fr.env)
        known0 = dict(self.known)
        saved_breaks, self._breaks = self._breaks, []
        try:
            try:
                self.eval(fr, e["body"])
            except LoopBreak:
                raise Unsupported("loop that always breaks at %s" % loc(e))
            except Diverge:
                raise Unsupported("loop body never completes an iteration at %s" % loc(e))
            breaks = self._breaks
        finally:
            self._breaks = saved_breaks
        if len(breaks) != 1:
            raise Unsupported("loop with %d conditional breaks at %s" % (len(breaks), loc(e)))
        in_then, ind = breaks[0]
        atoms = ind.atoms() if isinstance(ind, Poly) else ()
        info = self.cmp_atoms.get(next(iter(atoms))) if len(atoms) == 1 else None
        if not info:
            raise Unsupported("loop exit condition at %s" % loc(e))
        op, a, b = info
        positive = (ind - Poly.atom(next(iter(atoms)))).is_zero()
        exits_on_equal = (op == "Eq") == (in_then == positive)
        if not exits_on_equal:
            raise Unsupported("loop exit condition is not `next counter value == bound` at %s" % loc(e))
        nxt = a - b
        counter = None
        for vid, val in fr.env.items():
            if isinstance(val, Poly) and isinstance(env0.get(vid), Poly) and (val - nxt).is_zero() and not (val - env0[vid]).is_zero():
                counter = vid
        if counter is None:
            raise Unsupported("loop counter at %s" % loc(e))
        v0 = env0[counter]
        dc = self.resolve(self.consumed - c0)
        dd = self.resolve(v0 - nxt)
        rd = self.reads[r0:]
        del self.reads[r0:]
        rec = {"fn_loc": loc(e), "cond": "loop until the rest is 0", "consumed": dc, "decrease": dd, "dist0": v0, "reads": rd, "node": e,
               "exit_var": "counter"}
        self.loops.append(rec)
        self.reads.append(("loop", "until the rest is 0", rd))
        self.consumed = c0 + v0
        self.known = known0
        fr.env = env0
        fr.env[counter] = Poly()
        return UNIT

    def e_For(self, fr, e):
        """`for _ in 0..n { reads }`: n iterations of a body that reads a fixed number of bytes."""
        it = unblock(e["iter"])
        if it.get("k") == "Adt" and it.get("adt", "").endswith("ops::range::Range"):
            fl = {f["name"]: f["e"] for f in it["fields"]}
            lo = lit_value(fl.get("start"))
            n = as_poly(self.eval(fr, fl["end"]), "range end") - (lo if isinstance(lo, int) else 0)
            c0 = self.consumed
            r0 = len(self.reads)
            self.eval(fr, e["body"])
            per = self.consumed - c0
            rd = self.reads[r0:]
            del self.reads[r0:]
            k = per.const_value()
            if k is None:
                raise Unsupported("counted loop whose iterations read a variable number of bytes")
            self.consumed = c0 + n * k
            self.loops.append({"fn_loc": loc(e), "cond": "for _ in %s" % pp(it)[:40], "consumed": Poly.const(k), "decrease": Poly.const(k),
                               "dist0": n, "reads": rd, "node": e})
            self.reads.append(("loop", pp(it)[:40], rd))
            return UNIT
        # `for slot in arr.iter_mut()` over a local fixed-size array `[T; N]`: N iterations, slot = &mut arr[i]
        import re
        src = strip(it)
        while src.get("k") == "Call" and src["fn"].get("name") in ("iter_mut", "iter", "into_iter", "as_mut", "as_mut_slice") and len(src["args"]) == 1:
            src = strip(src["args"][0])
        m = re.fullmatch(r"(?:&mut |&)?\[.*; (\d+)\]", (src.get("ty") or "")) if src.get("k") == "Var" else None
        if m and int(m.group(1)) <= 8 and e["pat"].get("k") == "Binding":
            n = int(m.group(1))
            vid = src["var"]["id"]
            cur = fr.env.get(vid)
            if not isinstance(cur, TupleVal) or len(cur.items) != n:
                cur = TupleVal([Opaque("array element")] * n)
                fr.env[vid] = cur
            for i in range(n):
                fr.env[e["pat"]["var"]["id"]] = ("elemref", vid, i)
                self.eval(fr, e["body"])
            return UNIT
        raise Unsupported("for loop in decoder at %s" % loc(e))

    def e_Match(self, fr, e):
        if e.get("src") != "Normal":
            raise Unsupported("match source %s" % e.get("src"))
        scrut = self.eval_quiet(fr, e["scrut"])
        arms = e["arms"]

        def rec(i):
            if i == len(arms):
                raise Diverge()
            arm = arms[i]
            ind, binder = self.match_ind(fr, scrut, arm["pat"])
            if arm.get("guard"):
                g = self.cond(fr, arm["guard"])
                ind = ind * g
            cst = ind.const_value()
            if cst == 1 and not arm.get("guard"):
                binder()
                return self.eval(fr, arm["body"])
            if cst == 0:
                return rec(i + 1)
            return self.fork(fr, ind, lambda: (binder(), self.eval(fr, arm["body"]))[1], lambda: rec(i + 1))
        return rec(0)

    # -- while loops: one symbolic iteration
    def e_While(self, fr, e):
        c = unblock(e["cond"])
        if c.get("k") != "Binary" or c["op"] not in ("Gt", "Lt", "Ne"):
            return self._while_by_condition(fr, e, c)
        big, small = (c["l"], c["r"]) if c["op"] in ("Gt", "Ne") else (c["r"], c["l"])
        if c["op"] == "Ne" and lit_value(small) != 0 and lit_value(big) == 0:
            big, small = small, big

        def dist():
            return as_poly(self.eval(fr, big), "loop bound") - as_poly(self.eval(fr, small), "loop bound")
        d0 = dist()
        c0 = self.consumed
        env0 = dict(fr.env)
        r0 = len(self.reads)
        known0 = dict(self.known)
        # the iteration that is evaluated stands for every iteration: a local the body assigns and that holds a constant at
        # the loop's entry (a counter starting at 0) holds an unknown value at the head of a later iteration
        d0h = d0
        for n in walk_all(e["body"]):
            if n.get("k") in ("Assign", "AssignOp") and strip(n["l"]).get("k") == "Var":
                vid = strip(n["l"])["var"]["id"]
                cur = fr.env.get(vid)
                if isinstance(cur, Poly) and cur.is_const() and isinstance(env0.get(vid), Poly) and env0[vid] is cur:
                    fr.env[vid] = g_val(self.fresh("h"))
        if any(fr.env.get(k) is not v for k, v in env0.items()):
            d0h = dist()
        try:
            self.eval(fr, e["body"])
            diverged = False
        except Diverge:
            diverged = True
        if diverged:
            raise Unsupported("loop body never completes an iteration at %s" % loc(e))
        d1 = dist()
        dc = self.resolve(self.consumed - c0)
        dd = self.resolve(d0h - d1)
        rd = self.reads[r0:]
        del self.reads[r0:]
        rec = {"fn_loc": loc(e), "cond": pp(c), "consumed": dc, "decrease": dd, "dist0": d0, "reads": rd,
               "node": e}
        self.loops.append(rec)
        self.reads.append(("loop", pp(c), rd))
        # post-state: exact exit (distance 0) is assumed; the structural rule must discharge it
        self.consumed = c0 + d0
        self.known = known0
        fr.env = env0
        sv = strip(small)
        bv = strip(big)
        while bv.get("k") == "Cast":
            bv = strip(bv["e"])
        if lit_value(small) == 0 and bv.get("k") == "Var" and bv["var"]["id"] in fr.env:
            # `while x > 0` on an unsigned counter: the loop leaves with x == 0
            fr.env[bv["var"]["id"]] = Poly()
            rec["exit_var"] = bv["var"]["name"]
        elif sv.get("k") == "Var" and sv["var"]["id"] in fr.env and self._no_overshoot_guard(e["body"], big, small, sv["var"]["id"]):
            # `while accounted < declared { ..; if n > declared - accounted { return Err }; accounted += n }`: the guard keeps
            # accounted <= declared, so the loop leaves with accounted == declared (a count-down in disguise)
            fr.env[sv["var"]["id"]] = as_poly(self.eval(fr, big), "loop bound")
            rec["exit_var"] = sv["var"]["name"]
        elif sv.get("k") == "Var" and sv["var"]["id"] in fr.env:
            # `while declared > accounted`: the loop leaves with accounted >= declared; whether they are equal is
            # what a following `declared != accounted -> error` test establishes (learned in fork())
            fs = self.fresh("x")
            self.free_syms.add(fs)
            start = as_poly(env0.get(sv["var"]["id"], Poly()), "loop start")
            fr.env[sv["var"]["id"]] = g_val(fs)
            self.consumed = c0 + g_val(fs) - start
            rec["exit_var"] = sv["var"]["name"]
            rec["exit_sym"] = fs
        else:
            raise Unsupported("loop bound %s" % pp(c)[:80])
        # anything else assigned in the loop is unknown afterwards
        assigned = set()
        for n in walk_all(e["body"]):
            if n.get("k") in ("Assign", "AssignOp"):
                l = strip(n["l"])
                if l.get("k") == "Var":
                    assigned.add(l["var"]["id"])
        keep = {sv.get("var", {}).get("id"), bv.get("var", {}).get("id")}
        for vid in assigned - keep:
            if vid in fr.env:
                fr.env[vid] = Opaque("loop-carried")
        return UNIT

    def _no_overshoot_guard(self, body, big, small, small_id):
        """the loop body refuses (returns / errors) when the next increment exceeds `big - small`, and `small` is only ever
        increased by that increment"""
        bt, st = pp(strip(big)), pp(strip(small))
        incs = []
        for n in walk_all(body):
            if n.get("k") == "AssignOp" and n.get("op") == "AddAssign" and strip(n["l"]).get("k") == "Var" and strip(n["l"])["var"]["id"] == small_id:
                incs.append(pp(strip(n["r"])))
            elif n.get("k") in ("Assign", "AssignOp") and strip(n["l"]).get("k") == "Var" and strip(n["l"])["var"]["id"] == small_id:
                return False
        if len(incs) != 1:
            return False
        inc = incs[0]
        for n in walk_all(body):
            if n.get("k") != "If":
                continue
            c = unblock(n["cond"])
            leaves = unblock(n["then"]).get("ty") == "!" or any(z.get("k") == "Return" for z in walk_all(n["then"]))
            if c.get("k") != "Binary" or not leaves:
                continue
            l, r, op = unblock(c["l"]), unblock(c["r"]), c["op"]
            if op in ("Lt", "Le"):
                l, r, op = r, l, {"Lt": "Gt", "Le": "Ge"}[op]
            if op != "Gt":
                continue
            # inc > big - small
            if pp(strip(l)) == inc and r.get("k") == "Binary" and r["op"] == "Sub" and pp(strip(r["l"])) == bt and pp(strip(r["r"])) == st:
                return True
            # small + inc > big
            if pp(strip(r)) == bt and l.get("k") == "Binary" and l["op"] == "Add" and {pp(strip(l["l"])), pp(strip(l["r"]))} == {st, inc}:
                return True
        return False

    def _cmp_of(self, ind):
        """(big, small) polynomials such that the condition is `big > small` / `big != small`, for a condition that evaluated
        (through any helper methods) to one comparison of two lengths; None otherwise."""
        if not isinstance(ind, Poly):
            return None
        atoms = ind.atoms()
        if len(atoms) != 1:
            return None
        (atom,) = atoms
        info = self.cmp_atoms.get(atom)
        if not info:
            return None
        op, a, b = info
        positive = (ind - Poly.atom(atom)).is_zero()
        negated = (ind - ind_not(Poly.atom(atom))).is_zero()
        if not positive and not negated:
            return None
        if negated:
            op = {"Eq": "Ne", "Ne": "Eq", "Gt": "Le", "Lt": "Ge", "Ge": "Lt", "Le": "Gt"}[op]
        if op in ("Gt", "Ne"):
            return (a, b) if not (op == "Ne" and a.is_zero()) else (b, a)
        if op == "Lt":
            return (b, a)
        return None

    def _while_by_condition(self, fr, e, c):
        """`while <cond>` where the condition is not a plain comparison of two places but evaluates to one (e.g.
        `while !budget.is_exhausted()` with `is_exhausted(&self) -> bool { self.0 == 0 }`)."""
        def dist():
            cmp_ = self._cmp_of(self.cond(fr, c))
            if cmp_ is None:
                raise Unsupported("loop condition %s" % pp(c)[:80])
            return cmp_
        b0, s0 = dist()
        d0 = b0 - s0
        c0 = self.consumed
        r0 = len(self.reads)
        known0 = dict(self.known)
        try:
            self.eval(fr, e["body"])
        except Diverge:
            raise Unsupported("loop body never completes an iteration at %s" % loc(e))
        b1, s1 = dist()
        d1 = b1 - s1
        dc = self.resolve(self.consumed - c0)
        dd = self.resolve(d0 - d1)
        rd = self.reads[r0:]
        del self.reads[r0:]
        rec = {"fn_loc": loc(e), "cond": pp(c), "consumed": dc, "decrease": dd, "dist0": d0, "reads": rd, "node": e}
        self.loops.append(rec)
        self.reads.append(("loop", pp(c), rd))
        self.consumed = c0 + d0
        self.known = known0
        if not s1.is_zero() and not s1.is_const():
            raise Unsupported("loop bound %s" % pp(c)[:80])
        # the loop leaves when the counter reaches the bound: every place that holds the counter now holds the bound
        def fix(v):
            if isinstance(v, Poly) and (v - b1).is_zero():
                return s1
            return v
        for vid, val in list(fr.env.items()):
            if isinstance(val, tuple) and val and val[0] == "struct":
                for k2, v2 in list(val[3].items()):
                    val[3][k2] = fix(v2)
            else:
                fr.env[vid] = fix(val)
        rec["exit_var"] = pp(c)[:40]
        return UNIT

    # -- calls
    def e_Call(self, fr, e):
        fn = e["fn"]
        d = fn.get("def", "")
        res = fn.get("res") or d
        name = fn.get("name")
        args = e["args"]
        if not d and e.get("fun") is not None:
            return self.call_value(fr, e)
        if name in _MUTATORS and (d.startswith("alloc::vec") or d.startswith("core::slice") or d.startswith("alloc::string") or
                                  d.startswith("core::str") or d.startswith("alloc::str") or d.startswith("alloc::slice")):
            # decoded data (a list of entries, a string, a payload) rearranged or cut after it was read: what the packet then
            # carries is not what the bytes said
            raise Unsupported("decoded data is modified in place by `%s` at %s" % (name, loc(e)))
        if d == "tokio::io::util::async_read_ext::AsyncReadExt::read_exact":
            n = self.buf_len(fr, args[1])
            self.consumed = self.consumed + n
            self.reads.append(("read_exact", repr(n)))
            return UNIT
        if name in ("read", "read_to_end", "read_buf", "take", "read_to_string", "poll_read") and "io" in d:
            raise Unsupported("reader call %s" % d)
        if d == "common::utils::decode_var_int":
            s = self.fresh("v")
            v = g_val(s)
            self.consumed = self.consumed + g_varint(v)
            self.reads.append(("varint", s[0]))
            self.assumptions.add("variable byte integers are minimally encoded (property quantifier); "
                                 "decode_var_int consumes var_int_len(value) bytes")
            return TupleVal([v, g_varint(v)])
        if name == "from_be_bytes":
            s = self.fresh("n")
            for a in args:
                self.eval_quiet(fr, a)
            return g_val(s)
        if d == "alloc::vec::from_elem" and len(args) == 2:
            return BufVal(as_poly(self.eval(fr, args[1]), "vec! length"))
        if d in ("alloc::vec::Vec::<T>::new",):
            return BufVal(Poly())
        if name == "checked_sub" and len(args) == 2:
            a = as_poly(self.eval(fr, args[0]), "checked_sub")
            b = as_poly(self.eval(fr, args[1]), "checked_sub")
            return ("checked", a - b)
        if name in ("ok_or", "ok_or_else") and len(args) == 2:
            return self.eval(fr, args[0])
        tr = fn.get("trait") or ""
        if tr.endswith("types::Encodable") and name == "encode_len":
            recv = self.eval(fr, args[0])
            if isinstance(recv, PathVal):
                return g_enc(fn.get("self_ty") or "?", recv.path)
            raise Unsupported("encode_len of %r" % (recv,))
        if name == "len" and len(args) == 1:
            v = self.eval(fr, args[0])
            if isinstance(v, BufVal):
                return v.n
            if isinstance(v, PathVal):
                ty = strip(args[0]).get("ty") or args[0].get("ty") or ""
                if any(t in ty for t in ("str", "String", "Bytes", "[u8]", "Vec<u8", "TopicName", "TopicFilter")):
                    return g_len(v.path)
                return g_sum(v.path, Poly.const(1))
            raise Unsupported("len of %r" % (v,))
        if name in ("as_bytes", "as_ref", "as_str", "deref", "deref_mut", "borrow", "as_slice", "as_mut", "last",
                    "as_deref") and len(args) == 1:
            return self.eval(fr, args[0])
        if name == "value" and d == "v5::types::VarByteInt::value":
            v = self.eval(fr, args[0])
            if isinstance(v, PathVal):
                return g_val(v.path)
            return v
        if name == "default" and not args:
            return PathVal(self.fresh("d"))
        if name in ("is_some", "is_none", "is_empty", "is_err", "is_ok"):
            for a in args:
                self.eval_quiet(fr, a)
            return Opaque("bool")
        if name == "push" and len(args) == 2:
            dst = self.eval_quiet(fr, args[0])
            v = self.eval_quiet(fr, args[1])
            if isinstance(dst, PathVal) and isinstance(v, tuple) and v and v[0] == "struct":
                for fname, fv in v[3].items():
                    self.store(dst.path + (fname,), fv, None)
            return UNIT
        if d == "common::utils::var_int_len":
            return ("varlen", as_poly(self.eval(fr, args[0]), "var_int_len argument"))
        if name in ("expect", "unwrap") and args:
            v = self.eval_quiet(fr, args[0])
            if isinstance(v, tuple) and v and v[0] == "varlen":
                return g_varint(v[1])
        # the read primitives: the facts established by T-prims (evaluated), not re-derived from their bodies
        prim = {"common::utils::read_u8": 1, "common::utils::read_u16": 2, "common::utils::read_u32": 4}.get(res)
        if prim is not None:
            for a in args:
                self.eval_quiet(fr, a)
            sym = self.fresh("n")
            self.charges.append((res, prim, self._charge_status(fr, prim)))
            self.consumed = self.consumed + Poly.const(prim)
            self.reads.append(("call", res, [("read_exact", str(prim))], sym[0]))
            return g_val(sym)
        if res in ("common::utils::read_bytes", "common::utils::read_string"):       # read_string = read_bytes + validation (H-utf8 / T-prims)
            for a in args:
                self.eval_quiet(fr, a)
            sym = self.fresh("n")
            self.consumed = self.consumed + Poly.const(2) + g_val(sym)
            self.reads.append(("call", res, [("call", "common::utils::read_u16", [("read_exact", "2")], sym[0]), ("read_exact", "val(%s)" % sym[0])], sym[0]))
            return BufVal(g_val(sym))
        if d.startswith("core::option::Option") and name == "map_or" and len(args) == 3:
            optv = self.eval(fr, args[0])
            dflt = self.eval(fr, args[1])
            f = self.eval_quiet(fr, args[2])
            if isinstance(optv, PathVal) and isinstance(f, tuple) and f and f[0] in ("closure", "fnitem"):
                a_ = ("some", optv.path)
                if a_ in self.known:
                    return self.apply_fn(fr, f, [PathVal(optv.path)], args[2]) if self.known[a_] else dflt
                ind = Poly.atom(a_)
                try:
                    return ind * as_poly(self.apply_fn(fr, f, [PathVal(optv.path)], args[2]), "map_or closure") + \
                        (Poly.const(1) - ind) * as_poly(dflt, "map_or default")
                except Unsupported:
                    return Opaque("map_or")
        if name in ("map", "and_then") and len(args) == 2 and (d.startswith("core::result::Result") or d.startswith("core::option::Option")):
            # `read(..).await.map(Arc::new)?` / `.map(|s| Arc::new(s))`: the mapped value of the success case
            v = self.eval(fr, args[0])
            f = self.eval_quiet(fr, args[1])
            if isinstance(f, tuple) and f and f[0] in ("closure", "fnitem"):
                return self.apply_fn(fr, f, [v], args[1])
            return Opaque("mapped")
        callee = self.F.fns.get(res)
        local = callee is not None and fn.get("krate") == self.F.data["crate"]
        if local and callee.get("is_async"):
            # property-set decoders are summarised as "consumes enc<T>(result)" at body level
            if self.summarise_props and name == "decode_async" and (fn.get("impl_self") or "").endswith("Properties"):
                for a in args:
                    self.eval_quiet(fr, a)
                p = self.fresh("p")
                self.consumed = self.consumed + g_enc(fn["impl_self"], p)
                self.reads.append(("props", fn["impl_self"].split("::")[-1], p[0]))
                return PathVal(p)
            vals = [self.eval_quiet(fr, a) for a in args]
            r0 = len(self.reads)
            # const generic arguments of this instantiation (`read_array::<T, 2>`): visible to buf_len in the callee
            consts = [int(a) for a in (fn.get("args") or []) if isinstance(a, str) and a.isdigit()]
            stack = getattr(self, "const_args", [])
            self.const_args = stack + [consts]
            try:
                v = self._call_local(fr, res, args, vals)
            finally:
                self.const_args = stack
            sub = self.reads[r0:]
            del self.reads[r0:]
            self.reads.append(("call", res, sub, _symname(v)))
            return v
        out_adt = self.F.adts.get((fn.get("sig_out") or "").strip())
        builds_struct = out_adt is not None and out_adt["kind"] == "struct" and name in ("new", "new_normal", "new_success", "default") \
            and (fn.get("sig_out") or "").split("::")[0] in ("v3", "v5") and not (fn.get("sig_out") or "").endswith("Properties")
        if local and not callee.get("is_async") and callee.get("thir") and (name not in _WRAPPERS or builds_struct) and \
                name not in ("from_u8", "is_invalid", "value", "new_with") and self.depth < 10:
            vals = [self.eval_quiet(fr, a) for a in args]
            if builds_struct:
                # a body type's own constructor (`Self::new(reason_code)`): the struct it builds, fields and all
                try:
                    r_ = self._call_local(fr, res, args, vals)
                    if isinstance(r_, tuple) and r_ and r_[0] == "struct":
                        return r_
                except Unsupported:
                    pass
            if any((isinstance(v, Poly) and not v.is_const()) or (isinstance(v, tuple) and v and v[0] == "struct") for v in vals):
                try:
                    return self._call_local(fr, res, args, vals)
                except Unsupported:
                    pass
            # arguments were evaluated (and their reads counted) exactly once
            out_ty = fn.get("sig_out") or ""
            if any(("::%s" % a["name"]) in out_ty and a["kind"] == "enum" for a in self.F.data["adts"]):
                return PathVal(self.fresh("e"))
            return Opaque("call %s" % res)
        # wrappers around one value (Arc::new, Bytes::from, TopicName::try_from, expect, map_err ...)
        if name in _WRAPPERS and args:
            v = self.eval_quiet(fr, args[0])
            for a in args[1:]:
                self.eval_quiet(fr, a)
            if isinstance(v, (BufVal, Poly, PathVal, ErrVal)) or (isinstance(v, tuple) and v and v[0] == "checked"):
                if isinstance(v, tuple):
                    return v
                return v
            return Opaque("wrapped")
        for a in args:
            self.eval_quiet(fr, a)
        out_ty = fn.get("sig_out") or ""
        if local and any(("::%s" % a["name"]) in out_ty and a["kind"] == "enum" for a in self.F.data["adts"]):
            return PathVal(self.fresh("e"))
        return Opaque("call %s" % res)

    def _charge_status(self, fr, size):
        """"pre": on this path it is already established (by a successful checked_sub or a comparison that refused the other case)
        that header.remaining_len covers the bytes consumed so far plus the `size` about to be read -- a frame too short for them
        is refused before the transport is touched; "post": it is not."""
        try:
            target = self.resolve(g_val(("header", "remaining_len")) - self.consumed - Poly.const(size))
        except Unsupported:
            return "post"
        for q in self.ge:
            try:
                d = self.resolve(target - q)
            except Unsupported:
                continue
            for atom, truth in self.path_atoms:
                d = d.subst_atom(atom, truth)
                if truth and atom[0] == "is":
                    for other in list(d.atoms()):
                        if other[0] == "is" and other[1] == atom[1] and other != atom:
                            d = d.subst_atom(other, False)       # the same place cannot be another variant
            c = d.const_value()
            if c is not None and c >= 0:
                return "pre"
        return "post"

    def buf_len(self, fr, e):
        import re
        inner = strip(e)
        while inner.get("k") == "Call" and inner["fn"].get("name") in ("deref_mut", "deref", "as_mut", "as_mut_slice") \
                and len(inner["args"]) == 1:
            inner = strip(inner["args"][0])
        if inner.get("k") == "Call" and inner["fn"].get("def") in ("core::slice::raw::from_mut", "core::slice::from_mut"):
            return Poly.const(1)
        m = re.fullmatch(r"\[u8; (\d+)\]", inner.get("ty") or "")
        if m:
            return Poly.const(int(m.group(1)))
        m = re.fullmatch(r"\[u8; ([A-Za-z_]\w*)\]", inner.get("ty") or "")
        if m and getattr(self, "const_args", None) and len(self.const_args[-1]) == 1:
            return Poly.const(self.const_args[-1][0])     # `[u8; N]` with N the single const generic of this instantiation
        v = self.eval(fr, inner)
        if isinstance(v, BufVal):
            return v.n
        raise Unsupported("read_exact target %s" % pp(e)[:80])


def _single_symbol(p):
    if isinstance(p, Poly) and len(p.m) == 1:
        ((atoms, g), c), = p.m.items()
        if not atoms and c == 1 and g is not None and g[0] == "val" and g[1] and g[1][0].startswith("$"):
            return g[1]
    return None


def _symname(v):
    if isinstance(v, BufVal):
        s = _single_symbol(v.n)
        return s[0] if s else None
    if isinstance(v, Poly):
        s = _single_symbol(v)
        return s[0] if s else None
    if isinstance(v, PathVal):
        return v.path[0]
    return None


def summarise_decoder(F, fid, args, summarise_props=True):
    it = ReadInterp(F, summarise_props)
    try:
        v = it.run_fn(fid, args)
    except Diverge:
        raise Unsupported("%s never returns a value" % fid)
    it.result = v
    return it
