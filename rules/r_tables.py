"""T rules: wire-code tables, header table, control bytes, width tables, protocol table, topic-name rule."""
import spec_mqtt as S
from facts import strip, lit_value, pp, loc, path_of, peel_calls
from norm import nbody, walk_all, unblock
from report import AnchorLost
from tables import (const_eval, from_u8_table, enum_discriminants, threshold_chain, chain_eval,
                    pat_values, constructed_variant)


def code_enums(F):
    """All crate enums that have an inherent `from_u8` (the wire-code enums)."""
    out = []
    for imp in F.impls:
        if imp.get("trait") is None and imp.get("self_adt"):
            a = F.adts.get(imp["self_adt"])
            if a and a["kind"] == "enum":
                for it in imp["items"]:
                    if it["name"] == "from_u8":
                        out.append((imp["self_adt"], it["def"]))
    return sorted(set(out))


# ---- T-bij -------------------------------------------------------------------------------------

def t_bij(F, R):
    """variant -> discriminant (rustc-evaluated) composed with from_u8 (byte -> variant) is the identity
    on variants, and no byte outside the discriminant set maps to a variant."""
    enums = code_enums(F)
    R.floor("T-bij", "code enums with from_u8", len(enums), 14)
    nvars = 0
    for enum_path, fid in enums:
        table, rejects, m = from_u8_table(F, fid, enum_path)
        discr = enum_discriminants(F, enum_path)
        name = enum_path.split("::")[-1]
        for variant, d in sorted(discr.items()):
            nvars += 1
            back = table.get(d)
            R.check(back == variant, "T-bij", "%s/%s" % (enum_path, variant),
                    "%s::%s is written as byte %#04x (its discriminant) but %s maps %#04x to %s" % (
                        name, variant, d, fid, d, back if back else "a rejection"),
                    where=loc(m))
        for byte, variant in sorted(table.items()):
            if discr.get(variant) != byte:
                R.fail("T-bij", "%s/byte-%#04x" % (enum_path, byte),
                       "%s accepts byte %#04x as %s::%s whose discriminant is %#04x" % (
                           fid, byte, name, variant, discr.get(variant, -1)), where=loc(m))
        R.check(rejects, "T-bij", "%s/default-rejects" % enum_path,
                "%s maps unknown bytes to a variant instead of rejecting" % fid, where=loc(m))
        R.sample({"rule": "T-bij", "enum": enum_path,
                  "table": {("%#04x" % b): v for b, v in sorted(table.items())}})
    R.floor("T-bij", "code enum variants", nvars, 138)
    R.analysed["code_enums"] = len(enums)
    R.analysed["code_enum_variants"] = nvars


# ---- T-rc / T-codes ----------------------------------------------------------------------------

def _spec_set_for(enum_name):
    if enum_name in S.REASON_ENUMS:
        return S.REASON_CODES[S.REASON_ENUMS[enum_name]]
    return {
        "QoS": set(S.QOS), "ConnectReturnCode": S.V3_CONNECT_RETURN,
        "SubscribeReturnCode": S.V3_SUBACK_RETURN, "RetainHandling": S.RETAIN_HANDLING,
        "PropertyId": set(S.PROPERTIES),
    }.get(enum_name)


def t_rc(F, R):
    """Every wire-code enum's discriminant set equals the OASIS table for that packet (what the
    encoder writes with `as u8`)."""
    n = 0
    for enum_path, _fid in code_enums(F):
        name = enum_path.split("::")[-1]
        spec = _spec_set_for(name)
        if spec is None:
            R.fail("T-rc", "%s/no-spec" % enum_path, "no specification table for wire-code enum %s" % name)
            continue
        discr = enum_discriminants(F, enum_path)
        got = set(discr.values())
        n += len(discr)
        for variant, d in sorted(discr.items()):
            R.check(d in spec, "T-rc", "%s/%s" % (enum_path, variant),
                    "%s::%s has wire value %#04x which is not in the specification's table for this field" % (name, variant, d),
                    where=F.adts[enum_path]["sp"])
        for d in sorted(spec - got):
            R.fail("T-rc", "%s/missing-%#04x" % (enum_path, d),
                   "%s has no variant for specified code %#04x" % (name, d), where=F.adts[enum_path]["sp"])
        R.check(len(got) == len(discr), "T-rc", "%s/distinct" % enum_path,
                "%s has two variants with the same wire value" % name)
    R.floor("T-rc", "code values", n, 138)
    # the bool<->byte convention of the encoder: u8::from(bool) is 0/1 (std); nothing to extract
    R.trust("u8::from(bool) is 0 or 1 (core)")


def t_codes(F, R):
    """The *accepted domain* of each from_u8 table equals the specification's set for that field,
    and the failure arm rejects."""
    for enum_path, fid in code_enums(F):
        name = enum_path.split("::")[-1]
        spec = _spec_set_for(name)
        if spec is None:
            R.fail("T-codes", "%s/no-spec" % enum_path, "no specification table for %s" % name)
            continue
        table, rejects, m = from_u8_table(F, fid, enum_path)
        dom = set(table)
        for b in sorted(dom - spec):
            R.fail("T-codes", "%s/extra-%#04x" % (enum_path, b),
                   "%s accepts byte %#04x, which the specification does not allow for this field" % (fid, b), where=loc(m))
        for b in sorted(spec - dom):
            R.fail("T-codes", "%s/missing-%#04x" % (enum_path, b),
                   "%s rejects byte %#04x, which the specification allows for this field" % (fid, b), where=loc(m))
        R.check(rejects, "T-codes", "%s/default-rejects" % enum_path,
                "%s does not reject bytes outside its table" % fid, where=loc(m))
        if dom == spec:
            R.ok("T-codes", "%s/domain" % enum_path, "%d codes" % len(dom))


# ---- T-width -----------------------------------------------------------------------------------

def t_width(F, R):
    """var_int_len / total_len / header_len tables obey the variable-byte-integer laws; the width
    helpers touch their argument only through comparisons with constants, so the laws are decided
    on the finite set of boundary points for all 2^28 values."""
    T = S.VARINT_THRESHOLDS
    # var_int_len
    var, rows, els, node = threshold_chain(F, "common::utils::var_int_len")
    want = [("Lt", T[0], 1), ("Lt", T[1], 2), ("Lt", T[2], 3), ("Lt", T[3], 4)]
    _chain_equiv(R, "var_int_len", rows, els, lambda x: (1 if x < T[0] else 2 if x < T[1] else 3 if x < T[2] else 4 if x < T[3] else ("err", "InvalidVarByteInt")), node)
    # total_len: header_len chain + remaining_len
    var2, rows2, els2, node2 = threshold_chain(F, "common::utils::total_len")
    _chain_equiv(R, "total_len.header", rows2, els2, lambda x: (2 if x < T[0] else 3 if x < T[1] else 4 if x < T[2] else 5 if x < T[3] else ("err", "InvalidVarByteInt")), node2)
    # total_len returns Ok(header_len + remaining_len)
    b = nbody(F, "common::utils::total_len")
    ok_adds = False
    tail = b.get("expr") if b.get("k") == "Block" else b
    for n in walk_all(tail):
        if n.get("k") == "Binary" and n["op"] == "Add":
            names = {pp(strip(n["l"])), pp(strip(n["r"]))}
            if var2 in names and len(names) == 2:
                ok_adds = True
    R.check(ok_adds, "T-width", "total_len/sum", "total_len does not return header width + remaining length", where=loc(node2))
    # header_len
    var3, rows3, els3, node3 = threshold_chain(F, "common::utils::header_len")
    _chain_equiv(R, "header_len", rows3, els3, lambda t: (2 if t < T[0] + 2 else 3 if t < T[1] + 3 else 4 if t < T[2] + 4 else 5), node3)
    # remaining_len = total - header_len(total)
    b = nbody(F, "common::utils::remaining_len")
    e = b.get("expr") if b.get("k") == "Block" and not b.get("stmts") else b
    good = False
    if e and e.get("k") == "Binary" and e["op"] == "Sub":
        r = strip(e["r"])
        if r.get("k") == "Call" and r["fn"].get("def") == "common::utils::header_len" and pp(strip(r["args"][0])) == pp(strip(e["l"])):
            good = True
    R.check(good, "T-width", "remaining_len/shape", "remaining_len is not `total - header_len(total)`", where=loc(b))
    # VarByteInt::try_from bound
    fid = F.impl_method("TryFrom", "v5::types::VarByteInt", "try_from")
    if fid is None:
        raise AnchorLost("TryFrom<u32> for VarByteInt")
    b = nbody(F, fid)
    bound_ok = False
    for n in walk_all(b):
        if n.get("k") == "If":
            c = n["cond"]
            if c.get("k") == "Binary":
                cv = const_eval(c["r"])
                thn_ok = any(m.get("k") == "Adt" and m.get("variant") == "Ok" for m in walk_all(n["then"]))
                els_err = n.get("else") is not None and any(m.get("k") == "Adt" and m.get("variant") == "Err" for m in walk_all(n["else"]))
                if (c["op"], cv) in (("Lt", T[3]), ("Le", T[3] - 1)) and thn_ok and els_err:
                    bound_ok = True
                thn_err = any(m.get("k") == "Adt" and m.get("variant") == "Err" for m in walk_all(n["then"]))
                if (c["op"], cv) in (("Ge", T[3]), ("Gt", T[3] - 1)) and thn_err:
                    bound_ok = True
    R.check(bound_ok, "T-width", "VarByteInt::try_from/bound",
            "VarByteInt::try_from does not accept exactly the values below 268435456", where=loc(b))
    # cross law: header_len(total_len(n)) == 1 + var_int_len(n) at every boundary of either table
    pts = set()
    for t in T:
        for d in (-2, -1, 0, 1, 2, 3, 4, 5, 6):
            if 0 <= t + d < T[3]:
                pts.add(t + d)
    pts |= {0, 1, 2, T[3] - 1}
    bad = []
    for nval in sorted(pts):
        w = chain_eval(rows, els, nval)
        h = chain_eval(rows2, els2, nval)
        if not isinstance(w, int) or not isinstance(h, int):
            bad.append(nval)
            continue
        tot = nval + h
        if h != 1 + w or chain_eval(rows3, els3, tot) != h:
            bad.append(nval)
    R.check(not bad, "T-width", "cross-law",
            "total_len(n) = n + 1 + var_int_len(n) and header_len(total_len(n)) = 1 + var_int_len(n) fail at n in %s" % bad[:6])
    R.sample({"rule": "T-width", "var_int_len": rows, "total_len": rows2, "header_len": rows3})
    R.note("T-width: the three helpers are piecewise-constant in their argument with breakpoints only at the "
           "extracted constants; agreement at every breakpoint +-6 implies agreement on all of 0..2^28")


def _chain_equiv(R, name, rows, els, oracle, node):
    """Compare an extracted threshold chain with the oracle function at every breakpoint neighbourhood."""
    pts = {0, 1}
    for _op, c, _r in rows:
        pts |= {c - 1, c, c + 1}
    for t in S.VARINT_THRESHOLDS:
        pts |= {t - 1, t, t + 1, t + 2, t + 3, t + 4, t + 5}
    bad = []
    for x in sorted(p for p in pts if p >= 0):
        got = chain_eval(rows, els, x)
        if got != oracle(x):
            bad.append((x, got, oracle(x)))
    R.check(not bad, "T-width", name,
            "%s disagrees with the variable-byte-integer width table at %s" % (
                name, ", ".join("x=%d: code %r, spec %r" % b for b in bad[:4])),
            where=loc(node), detail={"rows": rows, "else": els})


# ---- T-varint (writer constants) and T-varint2 (two readers agree) -----------------------------

def t_varint_writer(F, R):
    """write_var_int: groups of 7 bits, low group first, continuation bit 0x80 iff more remains."""
    b = nbody(F, "common::utils::write_var_int")
    facts = {"rem": None, "div": None, "cont": None, "cont_cond": None, "stop": None}
    for n in walk_all(b):
        if n.get("k") == "Binary" and n["op"] == "Rem":
            facts["rem"] = const_eval(n["r"])
        if n.get("k") == "AssignOp" and n["op"] == "DivAssign":
            facts["div"] = const_eval(n["r"])
        if n.get("k") == "Assign" and n["r"].get("k") == "Binary" and n["r"]["op"] == "Div":
            facts["div"] = const_eval(n["r"]["r"])
        if n.get("k") == "If":
            c = n["cond"]
            if c.get("k") == "Binary":
                for m in walk_all(n["then"]):
                    if m.get("k") == "AssignOp" and m["op"] == "BitOrAssign":
                        facts["cont"] = const_eval(m["r"])
                        facts["cont_cond"] = (c["op"], const_eval(c["r"]))
                    if m.get("k") == "Break":
                        facts["stop"] = (c["op"], const_eval(c["r"]))
    R.check(facts["rem"] == 128 and facts["div"] == 128, "T-varint", "base",
            "write_var_int does not split the value into base-128 groups (rem %r, div %r)" % (facts["rem"], facts["div"]), where=loc(b))
    R.check(facts["cont"] == 128 and facts["cont_cond"] in (("Gt", 0), ("Ne", 0), ("Ge", 1)), "T-varint", "continuation",
            "write_var_int sets the continuation bit %r under %r (expected 0x80 iff quotient > 0)" % (facts["cont"], facts["cont_cond"]), where=loc(b))
    R.check(facts["stop"] in (("Eq", 0), ("Lt", 1), ("Le", 0)), "T-varint", "stop",
            "write_var_int does not stop exactly when the quotient reaches 0 (%r)" % (facts["stop"],), where=loc(b))
    # each group written with write_u8 exactly once per iteration
    nwrites = sum(1 for n in walk_all(b) if n.get("k") == "Call" and n["fn"].get("def") == "common::utils::write_u8")
    R.check(nwrites == 1, "T-varint", "one-byte-per-group", "write_var_int writes %d bytes per group" % nwrites, where=loc(b))
    R.sample({"rule": "T-varint", "facts": {k: list(v) if isinstance(v, tuple) else v for k, v in facts.items()}})


def _reader_tuple(body, what):
    """(payload mask, shift step, continuation mask, index cap op/const, overflow error, accumulate op)
    of a var-int reader loop."""
    t = {"mask": None, "step": None, "cont": None, "cap": None, "err": None, "acc": None, "idx": None, "shift_var": None}
    for n in walk_all(body):
        if n.get("k") == "AssignOp" and n["op"] in ("BitOrAssign", "AddAssign", "BitXorAssign"):
            r = n["r"]
            if r.get("k") == "Binary" and r["op"] == "Shl":
                t["acc"] = n["op"]
                l = r["l"]
                if l.get("k") == "Binary" and l["op"] == "BitAnd":
                    t["mask"] = const_eval(l["r"])
                sh = r["r"]
                if sh.get("k") == "Binary" and sh["op"] == "Mul":
                    a, b2 = const_eval(sh["l"]), const_eval(sh["r"])
                    t["step"] = a if a is not None else b2
                    other = sh["r"] if a is not None else sh["l"]
                    t["shift_var"] = pp(peel_calls(other, ("from",)))
                else:
                    t["step"] = ("non-multiplicative", pp(sh))
        if n.get("k") == "If":
            c = n["cond"]
            if c.get("k") == "Binary" and c["l"].get("k") == "Binary" and c["l"]["op"] == "BitAnd":
                t["cont"] = (const_eval(c["l"]["r"]), c["op"], const_eval(c["r"]))
                els = n.get("else")
                if els is not None:
                    els = unblock(els)
                    if els.get("k") == "If" and els["cond"].get("k") == "Binary":
                        c2 = els["cond"]
                        t["cap"] = (c2["op"], const_eval(c2["r"]))
                        t["idx"] = pp(strip(c2["l"]))
                        for m in walk_all(els.get("else") or {}):
                            if m.get("k") == "Adt" and m.get("adt", "").endswith("error::Error"):
                                t["err"] = m["variant"]
    return t


def t_varint_readers(F, R):
    """The standalone reader and the poll header state machine decode the same encoding, equal to the spec."""
    a = _reader_tuple(nbody(F, "common::utils::decode_var_int"), "decode_var_int")
    poll_id = poll_fn_id(F)
    b = _reader_tuple(nbody(F, poll_id), "poll")
    want = {"mask": 0x7F, "step": 7, "cont": (0x80, "Eq", 0), "cap": ("Lt", 3), "err": "InvalidVarByteInt"}
    for name, t, where in (("decode_var_int", a, "common::utils::decode_var_int"), ("poll", b, poll_id)):
        for k, v in want.items():
            R.check(t[k] == v, "T-varint2", "%s/%s" % (name, k),
                    "%s: variable-byte-integer reader has %s = %r, specification requires %r" % (where, k, t[k], v),
                    where=where)
        R.check(t["acc"] in ("BitOrAssign", "AddAssign"), "T-varint2", "%s/acc" % name,
                "%s accumulates groups with %r" % (where, t["acc"]), where=where)
        # the shift is derived from the same counter that is capped
        R.check(t["shift_var"] is not None and t["idx"] is not None and t["shift_var"].lstrip("*") == t["idx"].lstrip("*"),
                "T-varint2", "%s/shift-from-index" % name,
                "%s: the group shift is computed from %r but the 4-byte cap counts %r" % (where, t["shift_var"], t["idx"]), where=where)
    for k in ("mask", "step", "cont", "cap", "err"):
        R.check(a[k] == b[k], "T-varint2", "siblings/%s" % k,
                "decode_var_int and the poll header state machine disagree on %s: %r vs %r" % (k, a[k], b[k]))
    R.sample({"rule": "T-varint2", "decode_var_int": {k: str(v) for k, v in a.items()}, "poll": {k: str(v) for k, v in b.items()}})


def poll_fn_id(F):
    for fid, f in F.fns.items():
        if f.get("impl_trait", "").endswith("future::Future") and f.get("name") == "poll" \
                and "GenericPollPacket" in (f.get("impl_self") or "") and f["kind"] == "AssocFn":
            return fid
    raise AnchorLost("impl Future for GenericPollPacket::poll")


# ---- T-proto -------------------------------------------------------------------------------------

def t_proto(F, R):
    """Protocol::new accepts exactly (MQIsdp,3) (MQTT,4) (MQTT,5); to_pair is its inverse; discriminants 3/4/5."""
    enum_path = "common::types::Protocol"
    discr = enum_discriminants(F, enum_path)
    for v, (name, level) in S.PROTOCOLS.items():
        R.check(discr.get(v) == level, "T-proto", "discr/%s" % v,
                "Protocol::%s has discriminant %r, level is %d" % (v, discr.get(v), level))
    R.check(set(discr) == set(S.PROTOCOLS), "T-proto", "variants", "Protocol variants are %s" % sorted(discr))
    b = nbody(F, "common::types::Protocol::new")
    m = None
    for n in walk_all(b):
        if n.get("k") == "Match" and n.get("src") == "Normal" and n["scrut"].get("k") == "Tuple":
            m = n
            break
    if m is None:
        raise AnchorLost("Protocol::new: match on (name, level)")
    accept = {}
    default_seen = False
    for arm in m["arms"]:
        p = arm["pat"]
        if p["k"] in ("Wild", "Binding"):
            default_seen = True
            # every exit of the default arm is an Err
            oks = [n for n in walk_all(arm["body"]) if n.get("k") == "Adt" and n.get("adt") == "core::result::Result" and n["variant"] == "Ok"]
            R.check(not oks, "T-proto", "default-rejects", "Protocol::new default arm can return Ok", where=loc(arm))
            errs = [n for n in walk_all(arm["body"]) if n.get("k") == "Adt" and n.get("adt") == "common::error::Error"]
            names = sorted({e["variant"] for e in errs})
            R.check("InvalidProtocol" in names and set(names) <= {"InvalidProtocol", "InvalidString"}, "T-proto", "default-error",
                    "Protocol::new default arm raises %s (expected InvalidProtocol, and InvalidString only for a non-UTF-8 name)" % names, where=loc(arm))
            for e in errs:
                if e["variant"] == "InvalidProtocol":
                    # payload: (name as string derived from the `name` parameter, level parameter)
                    lvl = pp(strip(e["fields"][1]["e"]))
                    R.check(lvl == "level", "T-proto", "payload/level", "InvalidProtocol carries %s, not the level found" % lvl, where=loc(e))
                    nm_src = {pp(x) for x in walk_all(e["fields"][0]["e"]) if x.get("k") == "Var"}
                    R.check(nm_src == {"name"}, "T-proto", "payload/name", "InvalidProtocol name payload is derived from %s" % sorted(nm_src), where=loc(e))
            break
        if arm.get("guard"):
            raise AnchorLost("Protocol::new: guarded arm")
        if p["k"] != "Leaf" or len(p["subs"]) != 2:
            raise AnchorLost("Protocol::new: arm pattern shape")
        name_pat, level_pat = p["subs"][0]["pat"], p["subs"][1]["pat"]
        name_bytes = _slice_pat_bytes(name_pat)
        levels = pat_values(level_pat)
        variant = constructed_variant(arm["body"], enum_path)
        if variant is None or levels == "any" or name_bytes is None:
            raise AnchorLost("Protocol::new: accepting arm is not (const name, const level) => Ok(Variant)")
        for lv in levels:
            accept.setdefault((bytes(name_bytes), lv), variant)
    R.check(default_seen, "T-proto", "has-default", "Protocol::new has no rejecting default arm", where=loc(m))
    want = {(n, l): v for v, (n, l) in S.PROTOCOLS.items()}
    for key in sorted(set(accept) | set(want)):
        R.check(accept.get(key) == want.get(key), "T-proto", "pair/%s-%d" % (key[0].decode("latin1"), key[1]),
                "Protocol::new maps (%r, %d) to %s; specification: %s" % (key[0], key[1], accept.get(key), want.get(key)), where=loc(m))
    # to_pair inverse
    b = nbody(F, "common::types::Protocol::to_pair")
    m2 = next((n for n in walk_all(b) if n.get("k") == "Match" and n.get("src") == "Normal"), None)
    if m2 is None:
        raise AnchorLost("Protocol::to_pair: match self")
    pairs = {}
    for arm in m2["arms"]:
        p = arm["pat"]
        while p["k"] == "Deref":
            p = p["sub"]
        if p["k"] != "Variant":
            raise AnchorLost("Protocol::to_pair arm pattern")
        body = unblock(arm["body"])
        if body.get("k") != "Tuple":
            raise AnchorLost("Protocol::to_pair arm body")
        nm = lit_value(body["items"][0])
        lv = const_eval(body["items"][1])
        pairs[p["variant"]] = (bytes(nm[1]) if nm and nm[0] == "bytes" else None, lv)
    for v, (n, l) in S.PROTOCOLS.items():
        R.check(pairs.get(v) == (n, l), "T-proto", "to_pair/%s" % v,
                "Protocol::%s.to_pair() is %r, specification (%r, %d)" % (v, pairs.get(v), n, l), where=loc(m2))
    R.sample({"rule": "T-proto", "new": {"%s/%d" % (k[0].decode(), k[1]): v for k, v in accept.items()},
              "to_pair": {k: [v[0].decode() if v[0] else None, v[1]] for k, v in pairs.items()}})


def _slice_pat_bytes(p):
    while p.get("k") == "Deref":
        p = p["sub"]
    if p.get("k") in ("Slice", "Array"):
        if p.get("slice") is not None or p.get("suffix"):
            return None
        out = []
        for q in p["prefix"]:
            vs = pat_values(q)
            if vs == "any" or len(vs) != 1:
                return None
            out.append(next(iter(vs)))
        return out
    if p.get("k") == "Const":
        v = p.get("val")
        if isinstance(v, dict) and "bytes" in v:
            return list(v["bytes"])
    return None


# ---- T-tname -------------------------------------------------------------------------------------

def t_tname(F, R):
    """TopicName::is_invalid(value) == len(value) > 65535 || value.contains(c in {'+','#','\\0'})."""
    fid = "common::types::TopicName::is_invalid"
    b = nbody(F, fid)
    if b is None:
        raise AnchorLost(fid)
    # length clause: a comparison between value.len() and a constant, on a path returning true
    len_clause = None
    contains = None
    for n in walk_all(b):
        if n.get("k") == "Binary" and n["op"] in ("Gt", "Ge", "Lt", "Le"):
            l, r = strip(n["l"]), strip(n["r"])
            if l.get("k") == "Call" and l["fn"].get("def") == "core::str::<impl str>::len":
                len_clause = (n["op"], const_eval(r), pp(strip(l["args"][0])))
            elif r.get("k") == "Call" and r["fn"].get("def") == "core::str::<impl str>::len":
                flip = {"Gt": "Lt", "Ge": "Le", "Lt": "Gt", "Le": "Ge"}[n["op"]]
                len_clause = (flip, const_eval(l), pp(strip(r["args"][0])))
        if n.get("k") == "Call" and n["fn"].get("def") == "core::str::<impl str>::contains":
            contains = n
    R.check(len_clause is not None and len_clause[0] == "Gt" and len_clause[1] == S.TOPIC_MAX_BYTES and len_clause[2] == "value"
            or (len_clause is not None and len_clause[0] == "Ge" and len_clause[1] == S.TOPIC_MAX_BYTES + 1 and len_clause[2] == "value"),
            "T-tname", "length-bound",
            "TopicName::is_invalid length clause is %r; the rule is byte length > 65535" % (len_clause,), where=loc(b))
    if contains is None:
        raise AnchorLost("TopicName::is_invalid: value.contains(..)")
    R.check(pp(strip(contains["args"][0])) == "value", "T-tname", "contains-subject",
            "contains() is applied to %s" % pp(strip(contains["args"][0])), where=loc(contains))
    pred = contains["args"][1]
    chars = None
    if pred.get("k") == "Closure":
        cb = nbody(F, pred["def"])
        chars = _char_set_of_predicate(cb)
    else:
        v = lit_value(pred)
        if isinstance(v, tuple) and v[0] == "char":
            chars = {chr(v[1])}
    R.check(chars == S.TOPIC_NAME_FORBIDDEN, "T-tname", "forbidden-set",
            "TopicName::is_invalid rejects characters %s; the rule forbids exactly %s" % (
                sorted(map(repr, chars)) if chars is not None else "?", sorted(map(repr, S.TOPIC_NAME_FORBIDDEN))), where=loc(contains))
    # the function returns true iff one of the two clauses: every `return`/tail is either literal true under
    # the length test, or the contains() call
    rets = []
    for n in walk_all(b):
        if n.get("k") == "Return":
            rets.append(n["e"])
    tail = b.get("expr") if b.get("k") == "Block" else b
    shape_ok = True
    for r in rets:
        if lit_value(r) is not True:
            shape_ok = False
    if tail is not None:
        t = unblock(tail)
        if not (t is contains or (t.get("k") == "Logical" and t["op"] == "Or") or t.get("k") == "Call"):
            shape_ok = False
    R.check(shape_ok and len(rets) <= 1, "T-tname", "disjunction-shape",
            "TopicName::is_invalid is not `length clause || contains clause`", where=loc(b))
    R.sample({"rule": "T-tname", "length": list(len_clause) if len_clause else None, "forbidden": sorted(chars) if chars else None})


def _char_set_of_predicate(e):
    """Set of chars for which a closure body `c == A || c == B ...` / `matches!(c, A | B)` is true."""
    e = unblock(e)
    if e.get("k") == "Logical" and e["op"] == "Or":
        a, b = _char_set_of_predicate(e["l"]), _char_set_of_predicate(e["r"])
        if a is None or b is None:
            return None
        return a | b
    if e.get("k") == "Binary" and e["op"] == "Eq":
        for side in (e["l"], e["r"]):
            v = lit_value(side)
            if isinstance(v, tuple) and v[0] == "char":
                return {chr(v[1])}
        return None
    if e.get("k") == "Match":
        out = set()
        for arm in e["arms"]:
            val = lit_value(unblock(arm["body"]))
            if val is True:
                vs = pat_values(arm["pat"], domain=range(0x110000))
                if vs == "any":
                    return None
                out |= {chr(v) for v in vs}
        return out
    return None


# ---- T-hdr ---------------------------------------------------------------------------------------------

def t_hdr(F, R):
    """Header::new_with of each family: (type nibble -> packet type, required flag nibble) equals the OASIS
    table; PUBLISH decodes dup/qos/retain from bits 3, 2..1, 0 with QoS through from_u8; everything else
    (unknown nibble, wrong flags) returns InvalidHeader."""
    n = 0
    for fam, spec in (("v3", S.PACKET_TYPES_V3), ("v5", S.PACKET_TYPES_V5)):
        fid = "%s::packet::Header::new_with" % fam
        b = nbody(F, fid)
        if b is None:
            raise AnchorLost(fid)
        m = None
        for x in walk_all(b):
            if x.get("k") == "Match" and x.get("src") == "Normal":
                sc = strip(x["scrut"])
                if sc.get("k") == "Binary" and sc["op"] == "Shr" and pp(strip(sc["l"])) == "hd" and const_eval(sc["r"]) == 4:
                    m = x
                    break
        if m is None:
            raise AnchorLost("%s: match hd >> 4" % fid)
        got = {}
        default_err = False
        for arm in m["arms"]:
            vals = pat_values(arm["pat"], domain=range(16))
            body = unblock(arm["body"])
            if vals == "any":
                errs = [y["variant"] for y in walk_all(body) if y.get("k") == "Adt" and y.get("adt") == "common::error::Error"]
                default_err = errs == ["InvalidHeader"] and (body.get("k") == "Return" or body.get("ty") == "!")
                continue
            for v in vals:
                typ = None
                for y in walk_all(body):
                    if y.get("k") == "Adt" and y.get("adt") == "%s::packet::PacketType" % fam:
                        typ = y["variant"]
                if body.get("k") == "Tuple" and len(body["items"]) == 2:
                    flags = _flag_pred(body["items"][1])
                    got[v] = (typ, flags)
                else:
                    got[v] = (typ, _publish_fields(body))
        R.check(default_err, "T-hdr", "%s/default" % fam, "%s: unknown type nibbles are not rejected with InvalidHeader" % fid, where=loc(m))
        for nib in range(16):
            want = spec.get(nib)
            g = got.get(nib)
            n += 1
            if want is None:
                R.check(g is None, "T-hdr", "%s/nibble-%d" % (fam, nib), "%s accepts reserved packet type %d as %s" % (fid, nib, g), where=loc(m))
                continue
            name, fl = want
            if g is None:
                R.fail("T-hdr", "%s/nibble-%d" % (fam, nib), "%s rejects packet type %d (%s)" % (fid, nib, name), where=loc(m))
                continue
            if fl == "publish":
                R.check(g[0] == name and g[1] == {"dup": 0b1000, "qos": (0b0110, 1), "retain": 0b0001}, "T-hdr", "%s/nibble-%d" % (fam, nib),
                        "%s decodes PUBLISH flags as %s" % (fid, g[1]), where=loc(m))
            else:
                ok = g[0] == name and g[1] is not None and all(g[1](f) == (f == fl) for f in range(16))
                R.check(ok, "T-hdr", "%s/nibble-%d" % (fam, nib),
                        "%s: type %d maps to %s with flag test accepting %s; specification: %s with flags %s" % (
                            fid, nib, g[0], [f for f in range(16) if g[1] and g[1](f)], name, bin(fl)), where=loc(m))
        # flags_ok == false -> InvalidHeader, then Ok(Header{typ, dup:false, qos:Level0, retain:false, remaining_len})
        txt = pp(b)
        R.check("if Not(flags_ok) { { return Result::Err{0: " in txt and "InvalidHeader" in txt.split("if Not(flags_ok)")[1][:120], "T-hdr", "%s/flags-rejected" % fam,
                "%s does not return InvalidHeader when the flag nibble is wrong" % fid, where=fid)
        tail = [x for x in walk_all(b) if x.get("k") == "Adt" and x.get("adt") == "%s::packet::Header" % fam]
        ok = any({f["name"]: pp(strip(f["e"])) for f in t["fields"]} == {"typ": "typ", "dup": "false", "qos": "QoS::Level0{}", "retain": "false", "remaining_len": "remaining_len"} for t in tail)
        R.check(ok, "T-hdr", "%s/plain-header" % fam, "%s does not build Header{typ, dup:false, qos:Level0, retain:false, remaining_len}" % fid, where=fid)
    R.floor("T-hdr", "nibbles", n, 32)


def _flag_pred(e):
    """Predicate over the low nibble f for `hd & MASK == K`."""
    e = unblock(e)
    if e.get("k") == "Binary" and e["op"] == "Eq":
        l = unblock(strip(e["l"]))
        k = const_eval(e["r"])
        if l.get("k") == "Binary" and l["op"] == "BitAnd" and pp(strip(l["l"])) == "hd" and k is not None:
            mask = const_eval(l["r"])
            if mask is not None:
                return lambda f, mask=mask, k=k: (f & mask) == k and (mask & 0xF) == 0xF or ((f & mask) == k and mask == 0xF)
    return None


def _publish_fields(body):
    """{"dup": mask, "qos": (mask, shift), "retain": mask} from the PUBLISH arm's Header{..} construction."""
    out = {}
    for y in walk_all(body):
        if y.get("k") == "Adt" and y.get("adt", "").endswith("packet::Header"):
            for f in y["fields"]:
                e = unblock(strip(f["e"]))
                if f["name"] in ("dup", "retain") and e.get("k") == "Binary":
                    l = unblock(strip(e["l"]))
                    if l.get("k") == "Binary" and l["op"] == "BitAnd" and pp(strip(l["l"])) == "hd":
                        mask = const_eval(l["r"])
                        k = const_eval(e["r"])
                        if (e["op"] == "Ne" and k == 0) or (e["op"] == "Eq" and k == mask):
                            out[f["name"]] = mask
                if f["name"] == "qos":
                    while e.get("k") == "Try":
                        e = unblock(strip(e["e"]))
                    if e.get("k") == "Call" and e["fn"].get("def") == "common::types::QoS::from_u8":
                        a = unblock(strip(e["args"][0]))
                        if a.get("k") == "Binary" and a["op"] == "Shr":
                            l = unblock(strip(a["l"]))
                            if l.get("k") == "Binary" and l["op"] == "BitAnd" and pp(strip(l["l"])) == "hd":
                                out["qos"] = (const_eval(l["r"]), const_eval(a["r"]))
    return out
