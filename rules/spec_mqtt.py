"""Independent MQTT tables, typed in from the OASIS MQTT 3.1.1 and 5.0 specifications
(NOT copied from the crate under analysis). These are the oracle for rules T-hdr, T-codes,
T-props, T-ctl, T-propid, T-rc, T-bits, T-proto, T-width.
"""

# ---- fixed header: packet type nibble -> (name, required low nibble or 'publish') ----
# MQTT 3.1.1 table 2.1 / 2.2; MQTT 5.0 table 2-1 / 2-2.
PACKET_TYPES_V3 = {
    1: ("Connect", 0b0000),
    2: ("Connack", 0b0000),
    3: ("Publish", "publish"),      # DUP(bit3) QoS(bits 2..1) RETAIN(bit0)
    4: ("Puback", 0b0000),
    5: ("Pubrec", 0b0000),
    6: ("Pubrel", 0b0010),
    7: ("Pubcomp", 0b0000),
    8: ("Subscribe", 0b0010),
    9: ("Suback", 0b0000),
    10: ("Unsubscribe", 0b0010),
    11: ("Unsuback", 0b0000),
    12: ("Pingreq", 0b0000),
    13: ("Pingresp", 0b0000),
    14: ("Disconnect", 0b0000),
}
PACKET_TYPES_V5 = dict(PACKET_TYPES_V3)
PACKET_TYPES_V5[15] = ("Auth", 0b0000)

PUBLISH_FLAGS = {"dup_mask": 0b1000, "qos_mask": 0b0110, "qos_shift": 1, "retain_mask": 0b0001}

QOS = {0: "Level0", 1: "Level1", 2: "Level2"}

# ---- protocol name / level (3.1: "MQIsdp",3; 3.1.1: "MQTT",4; 5.0: "MQTT",5) ----
PROTOCOLS = {"V310": (b"MQIsdp", 3), "V311": (b"MQTT", 4), "V500": (b"MQTT", 5)}

# ---- v3 CONNACK return codes (3.1.1 table 3.1) and SUBACK return codes (3.9.3) ----
V3_CONNECT_RETURN = {0, 1, 2, 3, 4, 5}
V3_SUBACK_RETURN = {0x00, 0x01, 0x02, 0x80}

# ---- CONNECT flags (3.1.2.3) ----
CONNECT_FLAGS = {
    "reserved": 0x01, "clean": 0x02, "will": 0x04, "will_qos_mask": 0x18, "will_qos_shift": 3,
    "will_retain": 0x20, "password": 0x40, "username": 0x80,
}

# ---- v5 subscription options (3.8.3.1) ----
SUB_OPTIONS = {
    "qos_mask": 0x03, "no_local": 0x04, "retain_as_published": 0x08,
    "retain_handling_mask": 0x30, "retain_handling_shift": 4, "reserved": 0xC0,
}
RETAIN_HANDLING = {0, 1, 2}

# ---- variable byte integer (1.5.5 / 2.2.3) ----
VARINT_THRESHOLDS = [128, 128 ** 2, 128 ** 3, 128 ** 4]   # value < t[k]  <=> encodes in k+1 bytes
VARINT_MAX = 268435455

# ---- v5 reason codes per packet type (MQTT 5.0 section 2.4 table 2-6 and the per-packet tables) ----
REASON_CODES = {
    "Connack": {0x00, 0x80, 0x81, 0x82, 0x83, 0x84, 0x85, 0x86, 0x87, 0x88, 0x89, 0x8A, 0x8C,
                0x90, 0x95, 0x97, 0x99, 0x9A, 0x9B, 0x9C, 0x9D, 0x9F},
    "Puback": {0x00, 0x10, 0x80, 0x83, 0x87, 0x90, 0x91, 0x97, 0x99},
    "Pubrec": {0x00, 0x10, 0x80, 0x83, 0x87, 0x90, 0x91, 0x97, 0x99},
    "Pubrel": {0x00, 0x92},
    "Pubcomp": {0x00, 0x92},
    "Suback": {0x00, 0x01, 0x02, 0x80, 0x83, 0x87, 0x8F, 0x91, 0x97, 0x9E, 0xA1, 0xA2},
    "Unsuback": {0x00, 0x11, 0x80, 0x83, 0x87, 0x8F, 0x91},
    "Disconnect": {0x00, 0x04, 0x80, 0x81, 0x82, 0x83, 0x87, 0x89, 0x8B, 0x8D, 0x8E, 0x8F, 0x90,
                   0x93, 0x94, 0x95, 0x96, 0x97, 0x98, 0x99, 0x9A, 0x9B, 0x9C, 0x9D, 0x9E, 0x9F,
                   0xA0, 0xA1, 0xA2},
    "Auth": {0x00, 0x18, 0x19},
}
# crate enum name -> spec packet
REASON_ENUMS = {
    "ConnectReasonCode": "Connack",
    "PubackReasonCode": "Puback",
    "PubrecReasonCode": "Pubrec",
    "PubrelReasonCode": "Pubrel",
    "PubcompReasonCode": "Pubcomp",
    "SubscribeReasonCode": "Suback",
    "UnsubscribeReasonCode": "Unsuback",
    "DisconnectReasonCode": "Disconnect",
    "AuthReasonCode": "Auth",
}

# ---- v5 properties (2.2.2.2 table 2-4): id -> (wire type, packets) ----
BYTE, U16, U32, VARINT, UTF8, BINARY, PAIR = "byte", "u16", "u32", "varint", "utf8", "binary", "pair"
ALL_PROP_PACKETS = ("Connect", "Connack", "Publish", "Will", "Puback", "Pubrec", "Pubrel", "Pubcomp",
                    "Subscribe", "Suback", "Unsubscribe", "Unsuback", "Disconnect", "Auth")
PROPERTIES = {
    0x01: (BYTE, ("Publish", "Will")),
    0x02: (U32, ("Publish", "Will")),
    0x03: (UTF8, ("Publish", "Will")),
    0x08: (UTF8, ("Publish", "Will")),
    0x09: (BINARY, ("Publish", "Will")),
    0x0B: (VARINT, ("Publish", "Subscribe")),
    0x11: (U32, ("Connect", "Connack", "Disconnect")),
    0x12: (UTF8, ("Connack",)),
    0x13: (U16, ("Connack",)),
    0x15: (UTF8, ("Connect", "Connack", "Auth")),
    0x16: (BINARY, ("Connect", "Connack", "Auth")),
    0x17: (BYTE, ("Connect",)),
    0x18: (U32, ("Will",)),
    0x19: (BYTE, ("Connect",)),
    0x1A: (UTF8, ("Connack",)),
    0x1C: (UTF8, ("Connack", "Disconnect")),
    0x1F: (UTF8, ("Connack", "Puback", "Pubrec", "Pubrel", "Pubcomp", "Suback", "Unsuback",
                  "Disconnect", "Auth")),
    0x21: (U16, ("Connect", "Connack")),
    0x22: (U16, ("Connect", "Connack")),
    0x23: (U16, ("Publish",)),
    0x24: (BYTE, ("Connack",)),
    0x25: (BYTE, ("Connack",)),
    0x26: (PAIR, ALL_PROP_PACKETS),
    0x27: (U32, ("Connect", "Connack")),
    0x28: (BYTE, ("Connack",)),
    0x29: (BYTE, ("Connack",)),
    0x2A: (BYTE, ("Connack",)),
}
# byte-typed properties whose legal values are restricted to {0,1}
BOOL_PROPERTIES = {0x01, 0x17, 0x19, 0x24, 0x25, 0x28, 0x29, 0x2A}


def props_of(packet):
    return {pid for pid, (_t, pk) in PROPERTIES.items() if packet in pk}


# crate `*Properties` struct -> spec packet
PROP_STRUCTS = {
    "ConnectProperties": "Connect",
    "ConnackProperties": "Connack",
    "PublishProperties": "Publish",
    "WillProperties": "Will",
    "PubackProperties": "Puback",
    "PubrecProperties": "Pubrec",
    "PubrelProperties": "Pubrel",
    "PubcompProperties": "Pubcomp",
    "SubscribeProperties": "Subscribe",
    "SubackProperties": "Suback",
    "UnsubscribeProperties": "Unsubscribe",
    "UnsubackProperties": "Unsuback",
    "DisconnectProperties": "Disconnect",
    "AuthProperties": "Auth",
}

# ---- control bytes the encoder must emit (type nibble << 4 | flags) ----
CONTROL_BYTES = {name: (nib << 4) | (fl if fl != "publish" else 0) for nib, (name, fl) in PACKET_TYPES_V5.items()}

# ---- topic name rule (4.7.1 / 4.7.3 / 1.5.4): no wildcard characters, no U+0000, <= 65535 bytes ----
TOPIC_NAME_FORBIDDEN = {"+", "#", "\x00"}
TOPIC_MAX_BYTES = 65535
