#!/usr/bin/env python3
"""seedrun.py [seed names...] : run every registered property check against each seeded change
(applied to a scratch worktree of /repo HEAD, never to /repo itself) and print which checks fire."""
import json, os, subprocess, sys, tempfile, shutil
from concurrent.futures import ThreadPoolExecutor
HERE = os.path.dirname(os.path.abspath(__file__))
VERIF = os.path.dirname(HERE)
sys.path.insert(0, HERE)
import props

def run_seed(name):
    d = os.path.join(VERIF, SET, name)
    w = tempfile.mkdtemp(prefix="seedrun.")
    wt = os.path.join(w, "wt")
    try:
        subprocess.run(["git", "-C", "/repo", "worktree", "add", "-q", "--detach", wt, "HEAD"], check=True)
        r = subprocess.run(["git", "-C", wt, "apply", os.path.join(d, "patch.diff")])
        if r.returncode != 0:
            return name, None, "apply failed"
        facts = os.path.join(w, "facts.json")
        r = subprocess.run([os.path.join(HERE, "mkfacts.sh"), wt, facts], capture_output=True, text=True)
        if r.returncode != 0:
            return name, None, "facts failed: " + r.stderr[-300:]
        fired = {}
        env = dict(os.environ, VERIF_EVIDENCE_DIR=os.path.join(w, "ev"))
        for pid in sorted(props.PROPS):
            r = subprocess.run([sys.executable, os.path.join(HERE, "check.py"), pid, "--facts", facts],
                               capture_output=True, text=True, env=env)
            keys = [l.split("key=")[1].strip() for l in r.stdout.splitlines() if l.strip().startswith("rule=")]
            if r.returncode == 1:
                fired[pid] = keys
            elif r.returncode != 0:
                fired[pid] = ["<checker error %d> %s" % (r.returncode, r.stderr[-200:])]
        return name, fired, None
    finally:
        subprocess.run(["git", "-C", "/repo", "worktree", "remove", "--force", wt], capture_output=True)
        shutil.rmtree(w, ignore_errors=True)

SET = "seeded"


def main():
    global SET
    args = sys.argv[1:]
    if args and args[0] == "--benign":
        SET = "benign"
        args = args[1:]
    names = args or sorted(n for n in os.listdir(os.path.join(VERIF, SET)) if os.path.isdir(os.path.join(VERIF, SET, n)))
    res = {}
    with ThreadPoolExecutor(max_workers=6) as ex:
        for name, fired, err in ex.map(run_seed, names):
            res[name] = fired if err is None else {"error": err}
            own = name.split("-")[0]
            if err:
                print("%-7s ERROR %s" % (name, err))
                continue
            tag = "CAUGHT" if own in fired else ("caught-by-other" if fired else "MISSED")
            if SET == "benign":
                tag = "FALSE-ALARM" if fired else "silent"
            print("%-7s %-15s %s" % (name, tag, {k: v[:3] for k, v in fired.items()}))
    json.dump(res, open(os.path.join(VERIF, SET, "RESULTS.json"), "w"), indent=1, sort_keys=True)
    n = sum(1 for k, v in res.items() if k.split("-")[0] in v)
    print("caught by own property's check: %d / %d; by any: %d" % (n, len(res), sum(1 for v in res.values() if v and "error" not in v)))

if __name__ == "__main__":
    main()
