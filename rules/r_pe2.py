"""More rules on the partial evaluator: shared-subscription accessors, CONNECT flags, subscription options,
short-form values, dispatch descriptors."""
import itertools

import spec_mqtt as S
from facts import strip, lit_value, pp, loc
from norm import nbody, walk_all, unblock
from report import AnchorLost
from peval import PE, Sym, Adt, Tup, Lin, Undecided, some, NONE, ok, err, UNIT, vkey, _Ret
from r_pe import result_kind, unwrap_common, pw_table
from tables import enum_discriminants


# ---- H-accessors -----------------------------------------------------------------------------------------------------

def h_accessors(F, R):
    """TopicFilter accessors, evaluated on abstract filters (cached index 0 / non-zero): is_shared <=> index > 0;
    not shared -> None; shared -> group = text[7..index], filter = text[index+1..], info = (group, filter);
    7 = len("$share/"). The validator's prefix matcher compares 7 characters and advances by len_utf8."""
    adt = "common::types::TopicFilter"
    pre = F.const_value("common::SHARED_PREFIX")
    R.check(pre == {"str": "$share/"}, "H-accessors", "SHARED_PREFIX", "SHARED_PREFIX is %r" % (pre,))
    slices = []

    def hook(d, res, args, node, env):
        if node["fn"].get("name") == "index" and len(args) == 2 and isinstance(args[1], Adt):
            rng = args[1]
            base = args[0]
            slices.append((base, rng))
            return Sym(("slice", vkey(base), rng.variant, tuple(sorted((k, vkey(v)) for k, v in rng.fields.items()))))
        if node["fn"].get("name") in ("deref", "as_str", "as_ref", "borrow") and len(args) == 1:
            return args[0]
        return None

    def filt(sep):
        return Adt(adt, "TopicFilter", {"inner": Sym("TEXT"), "shared_filter_sep": sep})

    def run(m, sep):
        del slices[:]
        try:
            return PE(F, call_hook=hook).call_fn(adt + "::" + m, [filt(sep)])
        except Undecided as e:
            raise AnchorLost("TopicFilter::%s cannot be evaluated: %s" % (m, e))
    for sep, want in ((0, False), (1, True), (9, True), (65535, True)):
        r = run("is_shared", sep)
        R.check(r is want, "H-accessors", "is_shared/%d" % sep, "is_shared() with cached index %d is %r" % (sep, r), where=adt + "::is_shared")

    def sl(kind, **kw):
        return Sym(("slice", vkey(Sym("TEXT")), kind, tuple(sorted((k, v) for k, v in kw.items()))))
    for sep in (8, 9, 300):
        g = sl("Range", start=7, end=sep)
        f = sl("RangeFrom", start=sep + 1)
        for m, want in (("shared_group_name", some(g)), ("shared_filter", some(f)), ("shared_info", some(Tup([g, f])))):
            r = run(m, sep)
            R.check(r == want, "H-accessors", "%s/%d" % (m, sep),
                    "%s() of a shared filter with index %d is %r (expected text[7..%d] / text[%d..])" % (m, sep, r, sep, sep + 1), where=adt + "::" + m)
    for m in ("shared_group_name", "shared_filter", "shared_info"):
        r = run(m, 0)
        R.check(r == NONE and not slices, "H-accessors", "%s/not-shared" % m, "%s() of a non-shared filter is %r" % (m, r), where=adt + "::" + m)
    # validator facts that are necessary for the cached index to be a byte offset of the right '/'
    vb = nbody(F, adt + "::is_invalid")
    chars = F.const_value(adt + "::is_invalid::SHARED_PREFIX_CHARS")
    bound = None
    adv = None
    from tables import const_eval
    # the two running indices, identified by what is done to them (not by their names): the character counter is the variable
    # incremented by the literal 1, the byte index is the other variable advanced once per character
    counters = {}
    for x in walk_all(vb):
        if x.get("k") == "AssignOp" and x["op"] == "AddAssign" and strip(x["l"]).get("k") == "Var":
            counters.setdefault(strip(x["l"])["var"]["id"], []).append(strip(x["r"]))
    char_ids = {vid for vid, rs in counters.items() if all(const_eval(r) == 1 for r in rs)}
    for x in walk_all(vb):
        if x.get("k") == "For" and any(y.get("k") == "Call" and y["fn"].get("name") == "enumerate" for y in walk_all(x["iter"])):
            pt = x["pat"]
            if pt.get("k") == "Leaf" and pt.get("subs") and pt["subs"][0]["pat"].get("k") == "Binding":
                char_ids.add(pt["subs"][0]["pat"]["var"]["id"])      # `for (char_idx, c) in value.chars().enumerate()`
    byte_ids = {vid for vid, rs in counters.items() if vid not in char_ids}
    for x in walk_all(vb):
        # `for (.., (byte_idx, c)) in value.char_indices()..`: the byte offset comes from the iterator itself
        if x.get("k") == "For" and any(y.get("k") == "Call" and y["fn"].get("name") == "char_indices" for y in walk_all(x["iter"])):
            def first_of_pairs(pt, out):
                if pt.get("k") == "Leaf" and pt.get("subs"):
                    subs = [q["pat"] for q in pt["subs"]]
                    if len(subs) == 2 and subs[0].get("k") == "Binding" and subs[1].get("k") == "Binding" and "char" in (subs[1].get("ty") or ""):
                        out.add(subs[0]["var"]["id"])
                    for q in subs:
                        first_of_pairs(q, out)
            first_of_pairs(x["pat"], byte_ids)
    for x in walk_all(vb):
        if x.get("k") == "Binary" and x["op"] in ("Lt", "Le") and strip(x["l"]).get("k") == "Var" and strip(x["l"])["var"]["id"] in char_ids:
            c = const_eval(x["r"])
            if c is not None:
                bound = c if x["op"] == "Lt" else c + 1
        if x.get("k") == "AssignOp" and x["op"] == "AddAssign" and strip(x["l"]).get("k") == "Var" and strip(x["l"])["var"]["id"] in byte_ids:
            r = strip(x["r"])
            adv = r["fn"].get("def") if r.get("k") == "Call" else pp(r)
    if chars is not None:
        R.check(chars == [{"char": ord(c)} for c in "$share/"], "H-accessors", "validator/prefix-chars", "SHARED_PREFIX_CHARS is %r" % (chars,))
    if bound is not None:
        R.check(bound == 7, "H-accessors", "validator/prefix-bound",
                "the validator compares the first %r characters with \"$share/\" (7 characters): the cached separator index is then wrong for some filters" % bound,
                where=adt + "::is_invalid")
    if adv is not None:
        R.check(adv == "core::char::methods::<impl char>::len_utf8", "H-accessors", "validator/byte-index-advance",
                "the validator advances its byte index by %s instead of c.len_utf8(): the cached index is not a byte offset for multi-byte names" % adv,
                where=adt + "::is_invalid")
    # where the cached index comes from: every value is_invalid returns as the index is the literal 0 or a variable that is
    # only ever assigned 0 or the running byte index (so a non-zero index is the byte offset of a character the validator
    # looked at, beyond the 7-byte prefix: the accessors' text[7..index] cannot be an inverted range)
    rets = []
    for x in walk_all(vb):
        if x.get("k") == "Return" and x.get("e") is not None:
            rets.append(strip(x["e"]))
    tail = unblock(vb)
    if tail.get("k") == "Tuple":
        rets.append(tail)
    elif tail.get("k") == "Block" and tail.get("expr") is not None:
        rets.append(strip(tail["expr"]))
    idx_vars = set()
    n_ret = 0
    for r in rets:
        r = unblock(r)
        if r.get("k") != "Tuple" or len(r["items"]) != 2:
            continue
        n_ret += 1
        v = strip(r["items"][1])
        cv = const_eval(v)
        if cv is not None:
            R.check(cv == 0, "H-accessors", "validator/index-source/const-%d" % cv,
                    "is_invalid returns the constant %d as the cached separator index: the accessors slice text[7..%d]" % (cv, cv), where=loc(r))
        elif v.get("k") == "Var":
            idx_vars.add(v["var"]["id"])
        else:
            R.fail("H-accessors", "validator/index-source/expr", "is_invalid returns `%s` as the cached separator index (neither 0 nor the tracked index variable)" % pp(v)[:60], where=loc(r))
    for x in walk_all(vb):
        if x.get("k") in ("Assign", "AssignOp") and strip(x["l"]).get("k") == "Var" and strip(x["l"])["var"]["id"] in idx_vars:
            rhs = strip(x["r"])
            while rhs.get("k") == "Cast":
                rhs = strip(rhs["e"])
            okk = x["k"] == "Assign" and (const_eval(rhs) == 0 or (rhs.get("k") == "Var" and rhs["var"]["id"] in byte_ids))
            R.check(okk, "H-accessors", "validator/index-source/assign", "the cached separator index is assigned `%s` (expected 0 or the running byte index)" % pp(x["r"])[:60], where=loc(x))
    # the validator compares characters with characters: a `char as u8` (or u16) truncates and lets other code points pass for
    # the ASCII prefix / separator, after which the cached index is no longer where the accessors expect it
    for x in walk_all(vb):
        if x.get("k") == "Cast" and (x.get("from_ty") or "") == "char" and x.get("ty") in ("u8", "u16"):
            R.fail("H-accessors", "validator/char-truncation", "is_invalid casts a character to %s (`%s`): characters whose low bits equal an ASCII "
                   "character are then taken for it" % (x.get("ty"), pp(x)[:60]), where=loc(x))
    # unit consistency: positions counted in characters and positions counted in bytes are never compared, added or stored into
    # the same variable (a filter with a multi-byte character before a separator would otherwise be judged at the wrong place)
    kind = {}
    for vid in char_ids:
        kind[vid] = "char"
    for vid in byte_ids:
        kind[vid] = "byte"

    def kind_of(ex):
        ex = strip(ex)
        k_ = ex.get("k")
        if k_ == "Var":
            return kind.get(ex["var"]["id"])
        if k_ == "Cast":
            return kind_of(ex["e"])
        if k_ == "Call" and ex["fn"].get("name") == "len" and ex["args"] and "str" in ((ex["args"][0].get("ty") or "") + (strip(ex["args"][0]).get("ty") or "")):
            return "byte"
        if k_ == "Call" and ex["fn"].get("name") in ("len_utf8",):
            return "byte"
        if k_ == "Binary" and ex["op"] in ("Add", "Sub"):
            a_, b_ = kind_of(ex["l"]), kind_of(ex["r"])
            return a_ or b_
        if k_ == "Adt" and ex.get("variant") == "Some" and ex.get("fields"):
            return kind_of(ex["fields"][0]["e"])
        if k_ in ("Block",) and ex.get("expr") is not None:
            return kind_of(ex["expr"])
        if k_ == "Call" and ex["fn"].get("name") in ("map", "unwrap_or", "unwrap_or_default", "copied", "cloned", "as_ref", "unwrap", "expect") and ex["args"]:
            return kind_of(ex["args"][0])          # `last_sep.map(|v| v + 2)`: the position kept in the Option, shifted by a constant
        return None
    for _round in range(4):
        for x in walk_all(vb):
            if x.get("k") in ("Assign", "AssignOp") and strip(x["l"]).get("k") == "Var":
                kk = kind_of(x["r"])
                vid = strip(x["l"])["var"]["id"]
                if kk and vid not in kind:
                    kind[vid] = kk
            if x.get("k") == "Block":
                for st in x.get("stmts", []):
                    if st.get("k") == "Let" and st.get("init") is not None and st["pat"].get("k") == "Binding":
                        kk = kind_of(st["init"])
                        if kk and st["pat"]["var"]["id"] not in kind:
                            kind[st["pat"]["var"]["id"]] = kk
            if x.get("k") in ("Match", "If"):
                # `if let Some(pos) = last_sep` / `match last_sep { Some(pos) => .. }`
                pairs = []
                if x.get("k") == "If" and unblock(x["cond"]).get("k") == "Let":
                    pairs.append((unblock(x["cond"])["pat"], unblock(x["cond"])["e"]))
                if x.get("k") == "Match":
                    pairs += [(a["pat"], x["scrut"]) for a in x["arms"]]
                for pat_, scr in pairs:
                    kk = kind_of(scr)
                    q_ = pat_
                    while q_.get("k") in ("Deref",):
                        q_ = q_["sub"]
                    if kk and q_.get("k") == "Variant" and q_.get("subs") and q_["subs"][0]["pat"].get("k") == "Binding":
                        kind.setdefault(q_["subs"][0]["pat"]["var"]["id"], kk)
    mixed = []
    for x in walk_all(vb):
        if x.get("k") == "Binary" and x["op"] in ("Eq", "Ne", "Lt", "Le", "Gt", "Ge", "Add", "Sub"):
            a_, b_ = kind_of(x["l"]), kind_of(x["r"])
            if a_ and b_ and a_ != b_:
                mixed.append((pp(x)[:70], loc(x)))
        if x.get("k") in ("Assign", "AssignOp") and strip(x["l"]).get("k") == "Var":
            kk = kind_of(x["r"])
            have = kind.get(strip(x["l"])["var"]["id"])
            if kk and have and kk != have:
                mixed.append((pp(x)[:70], loc(x)))
    R.check(not mixed, "H-accessors", "validator/unit-consistency",
            "is_invalid mixes positions counted in characters with positions counted in bytes: %s" % "; ".join(m_[0] for m_ in mixed[:3]),
            where=mixed[0][1] if mixed else adt + "::is_invalid")
    R.check(n_ret >= 1, "H-accessors", "validator/index-source/returns", "is_invalid has no (bool, index) return value the rule recognises", where=adt + "::is_invalid")
    R.note("H-accessors does not decide that the index returned by is_invalid is the '/' that ends the share name (C16 territory); "
           "the two validator facts are checked only when the validator still has a `char_idx` bound / `byte_idx` advance")


# ---- T-bits: subscription options (complete over their finite domains) ------------------------------------------------

def _sub_options_values(F):
    qos = ["Level0", "Level1", "Level2"]
    rh = [v["name"] for v in F.adts["v5::subscribe::RetainHandling"]["variants"]]
    out = []
    for q, nl, rap, r in itertools.product(qos, (False, True), (False, True), rh):
        out.append(Adt("v5::subscribe::SubscriptionOptions", "SubscriptionOptions", {
            "max_qos": Adt("common::types::QoS", q), "no_local": nl, "retain_as_published": rap,
            "retain_handling": Adt("v5::subscribe::RetainHandling", r)}))
    return out


def _spec_sub_byte(o):
    O = S.SUB_OPTIONS
    b = {"Level0": 0, "Level1": 1, "Level2": 2}[o.fields["max_qos"].variant]
    if o.fields["no_local"]:
        b |= O["no_local"]
    if o.fields["retain_as_published"]:
        b |= O["retain_as_published"]
    rh = {"SendAtSubscribe": 0, "SendAtSubscribeIfNotExist": 1, "DoNotSend": 2}[o.fields["retain_handling"].variant]
    return b | (rh << O["retain_handling_shift"])


def _decode_sub_byte(F, fid, byte):
    """Evaluate the SUBSCRIBE decoder as a whole on a frame holding exactly one topic (3-byte filter) whose options /
    requested-QoS byte is `byte`: independent of how the topic loop and the remaining-length bookkeeping are spelled."""
    pushed = []
    fam = fid.split("::")[0]

    def hook(d, res, args, node, env):
        r = res or d
        name = node["fn"].get("name")
        if r == "common::utils::read_u8":
            return ok(byte)
        if r == "common::utils::read_u16":
            return ok(7)
        if r == "common::utils::read_string":
            return ok(Sym("topic"))
        if r.endswith("Properties::decode_async"):
            return ok(Sym("PROPS"))
        if name == "encode_len" and len(args) == 1:
            return 1
        if r.endswith("TryFrom<alloc::string::String>>::try_from"):
            return ok(Sym("filter"))
        if r.endswith("TryFrom<u16>>::try_from"):
            return ok(Sym("PID"))
        if name == "push":
            pushed.append(args[1])
            return UNIT
        if name == "len" and len(args) == 1 and isinstance(args[0], Sym):
            return 3
        if name in ("new", "with_capacity") and "vec" in d.lower():
            return Sym("VEC")
        if name in ("deref", "as_ref", "as_str") and len(args) == 1 and (res or d) not in F.fns:
            return args[0]
        return None

    def cond(what, node):
        if what[0] == "try-ok":
            return True
        return None
    # pid (2) [+ empty property block (1)] + filter (2 + 3) + the byte under test (1)
    rl = 2 + (1 if fam == "v5" else 0) + 5 + 1
    arg = Adt("v5::packet::Header", "Header", {"typ": Adt("v5::packet::PacketType", "Subscribe"), "remaining_len": rl, "dup": False,
                                               "retain": False, "qos": Adt("common::types::QoS", "Level1")}) if fam == "v5" else rl
    pe = PE(F, call_hook=hook, cond_hook=cond, fuel=400)
    try:
        r = pe.call_fn(fid, [Sym("READER"), arg])
    except Undecided as e:
        raise AnchorLost("%s cannot be evaluated for the options byte %#04x: %s" % (fid, byte, e))
    k = result_kind(r)
    if k[0] == "err" and isinstance(k[1], Adt):
        return ("err", k[1].variant, [k[1].fields[x] for x in sorted(k[1].fields)])
    if k[0] == "ok" and len(pushed) == 1 and isinstance(pushed[0], Tup) and len(pushed[0].items) == 2:
        return ("ok", pushed[0].items[1])
    return ("other", repr(r)[:120] + " pushed " + repr(pushed)[:120])


def t_bits_subopts(F, R):
    """SubscriptionOptions::to_u8 for all 36 option values equals the specification's layout; the v5
    SUBSCRIBE decoder, for all 256 option bytes, accepts exactly the bytes with reserved bits 6-7 clear,
    QoS < 3 and retain handling < 3, yields the options whose to_u8 is that byte, and rejects the rest with
    InvalidSubscriptionOption(byte)."""
    fid = "v5::subscribe::SubscriptionOptions::to_u8"
    enc = {}
    for o in _sub_options_values(F):
        try:
            b = PE(F).call_fn(fid, [o])
        except Undecided as e:
            raise AnchorLost("SubscriptionOptions::to_u8 cannot be evaluated: %s" % e)
        enc[vkey(o)] = (b, o)
        R.check(b == _spec_sub_byte(o), "T-bits", "subscription-options/encode/%s" % _spec_sub_byte(o),
                "SubscriptionOptions %r is written as %r; specification layout gives %#04x" % (o, b, _spec_sub_byte(o)), where=fid)
    loop = "v5::subscribe::Subscribe::decode_async"
    by_byte = {b: o for b, o in enc.values() if isinstance(b, int)}
    bad = []
    O = S.SUB_OPTIONS
    for byte in range(256):
        r = _decode_sub_byte(F, loop, byte)
        legal = (byte & O["reserved"]) == 0 and (byte & O["qos_mask"]) < 3 and ((byte & O["retain_handling_mask"]) >> O["retain_handling_shift"]) < 3
        if legal:
            want = by_byte.get(byte)
            if not (r[0] == "ok" and want is not None and r[1] == want):
                bad.append((byte, r, "options %r" % (want,)))
        else:
            if not (r[0] == "err" and r[1] == "InvalidSubscriptionOption" and r[2] == [byte]):
                bad.append((byte, r, "InvalidSubscriptionOption(%d)" % byte))
    R.check(not bad, "T-bits", "subscription-options/decode",
            "v5 SUBSCRIBE option byte decoding disagrees with the specification for %d bytes, e.g. %s" % (
                len(bad), "; ".join("%#04x -> %s (expected %s)" % b for b in bad[:3])), where="v5::subscribe::Subscribe::decode_async")
    R.sample({"rule": "T-bits", "subscription_options_values": len(enc), "option_bytes_evaluated": 256, "mismatches": len(bad)})
    # v3 SUBSCRIBE: requested-QoS byte
    loop3 = "v3::subscribe::Subscribe::decode_async"
    bad = []
    for byte in range(256):
        r = _decode_sub_byte(F, loop3, byte)
        if byte < 3:
            okk = r[0] == "ok" and isinstance(r[1], Adt) and r[1].variant == "Level%d" % byte
        else:
            okk = r[0] == "err" and r[1] == "InvalidQos" and r[2] == [byte]
        if not okk:
            bad.append((byte, r))
    R.check(not bad, "H-valid", "v3/subscribe-qos-byte",
            "v3 SUBSCRIBE requested-QoS byte decoding: %s (bytes 0..2 are QoS, every other byte must be InvalidQos(byte))" % (
                "; ".join("%#04x -> %s" % b for b in bad[:3])), where="v3::subscribe::Subscribe::decode_async")


def _encode_sub_byte(F, fam, opt, sep):
    """Evaluate <Subscribe as Encodable>::encode as a whole on a SUBSCRIBE with exactly one entry (filter with the cached share
    separator `sep`, options / requested QoS `opt`): the bytes written after the filter's bytes."""
    fid = F.impl_method("Encodable", "%s::subscribe::Subscribe" % fam, "encode")
    if fid is None:
        raise AnchorLost("Encodable for %s::subscribe::Subscribe" % fam)
    trace = []

    def hook(d, res, args, node, env):
        r = res or d
        name = node["fn"].get("name")
        if r in ("common::utils::write_u8", "common::utils::write_u16", "common::utils::write_u32"):
            trace.append((r.rsplit("_", 1)[1], args[1]))
            return ok(UNIT)
        if r == "common::utils::write_bytes":
            trace.append(("bytes", args[1]))
            return ok(UNIT)
        if name == "encode" and len(args) == 2 and isinstance(args[0], Sym):
            trace.append(("encode", args[0]))
            return ok(UNIT)
        if name in ("as_bytes", "as_str", "deref", "as_ref") and len(args) == 1 and r not in F.fns:
            return args[0]
        return None
    filt = Adt("common::types::TopicFilter", "TopicFilter", {"inner": Sym("FILTER"), "shared_filter_sep": sep})
    fields = {"pid": Adt("common::types::Pid", "Pid", {"0": 7}), "topics": Tup([Tup([filt, opt])])}
    if fam == "v5":
        fields["properties"] = Sym("PROPS")
    sub = Adt("%s::subscribe::Subscribe" % fam, "Subscribe", fields)
    try:
        r = PE(F, call_hook=hook, cond_hook=lambda what, node: True if what[0] == "try-ok" else None, fuel=400).call_fn(fid, [sub, Sym("WRITER")])
    except Undecided as e:
        raise AnchorLost("%s cannot be evaluated for the entry (%s, %r): %s" % (fid, "shared filter" if sep else "plain filter", opt, e))
    if result_kind(r)[0] != "ok":
        return ("other", repr(r)[:100])
    idx = [i for i, t in enumerate(trace) if t[0] == "bytes"]
    if len(idx) != 1:
        return ("other", "filter written %d times" % len(idx))
    return ("ok", trace[idx[0] + 1:])


def t_bits_subenc(F, R):
    """The byte that follows each topic filter in an encoded SUBSCRIBE is the specification's option byte of that entry's
    options (v5: all 36 option values; v3: the requested QoS), whatever the filter -- shared or not."""
    n = 0
    for o in _sub_options_values(F):
        for sep in (0, 6):
            got = _encode_sub_byte(F, "v5", o, sep)
            n += 1
            R.check(got == ("ok", [("u8", _spec_sub_byte(o))]), "T-bits", "subscription-options/encode-entry/%s%s" % (_spec_sub_byte(o), "-shared" if sep else ""),
                    "v5 Subscribe::encode writes %r after a %s filter with options %r; the specification's option byte is %#04x" % (
                        got[1], "shared" if sep else "plain", o, _spec_sub_byte(o)), where="v5::subscribe::Subscribe::encode")
    for q in (0, 1, 2):
        for sep in (0, 6):
            got = _encode_sub_byte(F, "v3", Adt("common::types::QoS", "Level%d" % q), sep)
            n += 1
            R.check(got == ("ok", [("u8", q)]), "T-bits", "v3/subscribe-qos-byte/encode/%d%s" % (q, "-shared" if sep else ""),
                    "v3 Subscribe::encode writes %r after a %s filter with requested QoS %d" % (got[1], "shared" if sep else "plain", q),
                    where="v3::subscribe::Subscribe::encode")
    R.floor("T-bits", "subscribe entries encoded", n, 78)


# ---- T-bits: CONNECT flags ---------------------------------------------------------------------------------------------

def _connect_decode(F, fam, flags):
    """Evaluate decode_with_protocol for a flags byte; every other read is opaque. Returns the error or a
    summary of the constructed Connect."""
    fid = "%s::connect::Connect::decode_with_protocol" % fam
    reads = []
    state = {"n_u8": 0}

    def hook(d, res, args, node, env):
        r = res or d
        if r == "common::utils::read_u8":
            state["n_u8"] += 1
            if state["n_u8"] == 1:
                return ok(flags)
            reads.append("u8")
            return ok(Sym("byte%d" % state["n_u8"]))
        if r in ("common::utils::read_u16", "common::utils::read_string", "common::utils::read_bytes"):
            reads.append(r.rsplit("::", 1)[1])
            return ok(Sym(("read", len(reads))))
        if r.endswith("Properties::decode_async"):
            reads.append("props")
            return ok(Sym("props"))
        if r == "v5::connect::LastWill::decode_async":
            reads.append("will")
            return ok(Adt("v5::connect::LastWill", "LastWill", {"qos": args[1], "retain": args[2], "rest": Sym("will")}))
        if r.endswith("TryFrom<alloc::string::String>>::try_from"):
            return ok(Sym("topic"))
        if node["fn"].get("name") in ("new", "from") and len(args) == 1 and isinstance(args[0], Sym):
            return args[0]
        return None

    def cond(what, node):
        if what[0] == "try-ok":
            return True
        return None
    proto = Adt("common::types::Protocol", "V311" if fam == "v3" else "V500")
    args = [Sym("reader"), proto] if fam == "v3" else [Sym("reader"), Adt("v5::packet::Header", "Header", {"typ": Adt("v5::packet::PacketType", "Connect")}), proto]
    try:
        r = PE(F, call_hook=hook, cond_hook=cond).call_fn(fid, args)
    except Undecided as e:
        raise AnchorLost("%s cannot be evaluated for flags %#04x: %s" % (fid, flags, e))
    k = result_kind(r)
    if k[0] == "err":
        e = k[1]
        return ("err", e.variant, [e.fields[x] for x in sorted(e.fields)])
    c = k[1]
    if not isinstance(c, Adt):
        return ("other", repr(r))
    f = c.fields
    clean = f.get("clean_session", f.get("clean_start"))
    will = f.get("last_will")
    w = None
    if isinstance(will, Adt) and will.variant == "Some":
        lw = will.fields["0"]
        w = (getattr(lw.fields.get("qos"), "variant", None), lw.fields.get("retain"))

    def present(x):
        return isinstance(x, Adt) and x.variant == "Some"
    return ("ok", clean, w, present(f.get("username")), present(f.get("password")), tuple(reads))


def t_bits_connect(F, R):
    """CONNECT flags: decode_with_protocol evaluated for all 256 flag bytes and Connect::encode evaluated
    for every flag-relevant field combination agree with the specification's bit layout (bit 0 reserved,
    1 clean, 2 will, 3-4 will QoS, 5 will retain, 6 password, 7 user name)."""
    C = S.CONNECT_FLAGS
    for fam in ("v3", "v5"):
        bad = []
        for flags in range(256):
            r = _connect_decode(F, fam, flags)
            will = bool(flags & C["will"])
            wq = (flags & C["will_qos_mask"]) >> C["will_qos_shift"]
            if flags & C["reserved"]:
                want = ("err", "InvalidConnectFlags", [flags])
            elif will and wq == 3:
                want = ("err", "InvalidQos", [3])
            elif not will and wq != 0:
                want = ("err", "InvalidConnectFlags", [flags])
            else:
                want = ("ok", bool(flags & C["clean"]), ("Level%d" % wq, bool(flags & C["will_retain"])) if will else None,
                        bool(flags & C["username"]), bool(flags & C["password"]))
            if r[:len(want)] != want:
                bad.append((flags, r[:5], want))
        R.check(not bad, "T-bits", "%s/connect-flags-decode" % fam,
                "%s CONNECT flags decoding disagrees with the specification (and the pinned leniencies L1/L2) for %d flag bytes, e.g. %s" % (
                    fam, len(bad), "; ".join("%#04x -> %s (expected %s)" % b for b in bad[:2])), where="%s::connect::Connect::decode_with_protocol" % fam)
        # encode: the flags byte written for each combination
        enc_fid = F.impl_method("Encodable", "%s::connect::Connect" % fam, "encode")
        clean_name = "clean_session" if fam == "v3" else "clean_start"
        ebad = []
        n = 0
        for clean, user, pw, will in itertools.product((False, True), (False, True), (False, True),
                                                       [None] + [(q, r) for q in ("Level0", "Level1", "Level2") for r in (False, True)]):
            n += 1
            lw = NONE
            if will:
                lw = some(Adt("%s::connect::LastWill" % fam, "LastWill", {"qos": Adt("common::types::QoS", will[0]), "retain": will[1],
                                                                       "topic_name": Sym("wt"), "message": Sym("wm"), "payload": Sym("wm"), "properties": Sym("wp")}))
            conn = Adt("%s::connect::Connect" % fam, "Connect", {
                "protocol": Sym("proto"), clean_name: clean, "keep_alive": Sym("ka"), "client_id": Sym("cid"), "properties": Sym("props"),
                "last_will": lw, "username": some(Sym("u")) if user else NONE, "password": some(Sym("p")) if pw else NONE})
            written = []

            def hook(d, res, args, node, env):
                r = res or d
                if r == "common::utils::write_u8":
                    written.append(args[1])
                    return ok(UNIT)
                if r.startswith("common::utils::write_") or node["fn"].get("name") in ("encode", "write_all"):
                    return ok(UNIT)
                return None
            try:
                PE(F, call_hook=hook, cond_hook=lambda w, n_: True if w[0] == "try-ok" else None).call_fn(enc_fid, [conn, Sym("writer")])
            except Undecided as e:
                raise AnchorLost("%s cannot be evaluated: %s" % (enc_fid, e))
            want = (C["clean"] if clean else 0) | (C["username"] if user else 0) | (C["password"] if pw else 0)
            if will:
                want |= C["will"] | ({"Level0": 0, "Level1": 1, "Level2": 2}[will[0]] << C["will_qos_shift"]) | (C["will_retain"] if will[1] else 0)
            ints = [w for w in written if isinstance(w, int)]
            if ints[:1] != [want]:
                ebad.append(((clean, user, pw, will), written[:2], want))
        R.check(not ebad, "T-bits", "%s/connect-flags-encode" % fam,
                "%s CONNECT flags byte written disagrees with the specification for %d of %d field combinations, e.g. %s" % (
                    fam, len(ebad), n, "; ".join("%s -> %s (expected %#04x)" % b for b in ebad[:2])), where=enc_fid)
    R.sample({"rule": "T-bits", "flag_bytes_evaluated": 512, "field_combinations_encoded": 112})


def h_connack_flags(F, R):
    """CONNACK flags byte: 0 -> session_present false, 1 -> true, anything else InvalidConnackFlags(byte)."""
    for fam in ("v3", "v5"):
        fid = "%s::connect::Connack::decode_async" % fam
        bad = []
        cases = [(b, 0) for b in range(256)] + [(b, c) for b in (0, 1) for c in range(1, 256)]
        for b, code in cases:
            def hook(d, res, args, node, env, b=b, code=code):
                r = res or d
                if node["fn"].get("name") == "read_exact":
                    # the two-byte payload buffer
                    tgt = strip(node["args"][1])
                    while tgt.get("k") == "Call":
                        tgt = strip(tgt["args"][0])
                    if tgt.get("k") == "Var":
                        env[tgt["var"]["id"]] = Tup([b, code])
                    return ok(UNIT)
                if r == "common::utils::read_u8":
                    st = env.setdefault("__connack_reads", [])
                    st.append(1)
                    return ok(b if len(st) == 1 else code)
                if r.endswith("Properties::decode_async"):
                    return ok(Sym("props"))
                return None
            hdr = Adt("v5::packet::Header", "Header", {"typ": Adt("v5::packet::PacketType", "Connack")})
            try:
                r = PE(F, call_hook=hook, cond_hook=lambda w, n_: True if w[0] == "try-ok" else None).call_fn(
                    fid, [Sym("reader")] + ([hdr] if fam == "v5" else []))
            except Undecided as e:
                raise AnchorLost("%s cannot be evaluated: %s" % (fid, e))
            k = result_kind(r)
            if b < 2 and k[0] == "ok":
                # the packet carries the flag bit and the code byte exactly as they are on the wire
                cv = k[1].fields.get("code", k[1].fields.get("reason_code")) if isinstance(k[1], Adt) else None
                disc = enum_discriminants(F, cv.adt).get(cv.variant) if isinstance(cv, Adt) else None
                okk = isinstance(k[1], Adt) and k[1].fields.get("session_present") is bool(b) and disc == code
            elif b < 2:
                okk = code != 0 and k[0] == "err"      # which variant: T-codes / H-raise
            else:
                okk = k[0] == "err" and k[1].variant == "InvalidConnackFlags" and k[1].fields.get("0") == b
            if not okk:
                bad.append(((b, code), r))
        R.check(not bad, "H-valid", "%s/connack-flags" % fam,
                "%s CONNACK (flags byte, code byte): %s (specified: flags 0/1 -> session_present false/true whatever the code, "
                "the code as on the wire; other flag bytes InvalidConnackFlags(byte))" % (fam, "; ".join("%r -> %r" % x for x in bad[:3])), where=fid)
