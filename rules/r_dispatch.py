"""Rules on the three decoder front-ends (C06) and the thin wrappers around them."""
from facts import strip, lit_value, pp, loc, path_of
from norm import nbody, walk_all, unblock
from report import AnchorLost
from tables import const_eval
from r_poll import empty_packet_table, _pat_variants

FAMS = ("v3", "v5")


def _typ_match(F, fid):
    b = nbody(F, fid)
    if b is None:
        raise AnchorLost(fid)
    for x in walk_all(b):
        if x.get("k") == "Match" and x.get("src") == "Normal" and pp(strip(x["scrut"])).endswith(".typ"):
            return b, x
    raise AnchorLost("%s: match <header>.typ" % fid)


def _norm_arg(a, fam):
    """Canonical role of a decoder argument: the header itself, its remaining length, or a literal."""
    s = pp(strip(a))
    if s in ("header", "self", "*self"):
        return "HEADER"
    if s in ("(header.remaining_len as usize)", "(self.remaining_len as usize)") or \
            s.endswith("PollHeader>::remaining_len(&self)") or s.endswith("::remaining_len(&self)") or s.endswith("::remaining_len(&*self)"):
        return "REMAINING_LEN"
    if s in ("reader", "*reader"):
        return "READER"
    return s


def _collect(F, node, fam, depth, acc):
    """Decoder-level facts of a dispatch arm, looking through private helper functions."""
    for x in walk_all(node):
        k = x.get("k")
        if k == "Adt" and x.get("adt") == "%s::packet::Packet" % fam:
            acc["variants"].append(x["variant"])
            acc["unit"] = acc["unit"] or not x["fields"]
        elif k == "Zst" and x.get("fn"):
            d = x["fn"].get("res") or x["fn"].get("def") or ""
            if d.startswith("%s::packet::Packet::" % fam) and d.rsplit("::", 1)[1] in {v["name"] for v in F.adts["%s::packet::Packet" % fam]["variants"]}:
                acc["variants"].append(d.rsplit("::", 1)[1])
        elif k == "Call":
            fn = x["fn"]
            d = fn.get("res") or fn.get("def") or ""
            name = fn.get("name")
            if d.startswith(fam + "::") and name in ("decode_async", "decode_with_protocol"):
                acc["decoders"].append((d, tuple(_norm_arg(a, fam) for a in x["args"])))
            elif d == "common::utils::read_u16":
                acc["read_u16"] += 1
            elif name == "try_from" and "Pid" in (fn.get("self_ty") or d):
                acc["pid"] += 1
            elif d.startswith("core::panicking"):
                acc["panic"] += 1
            elif d.startswith("%s::packet::Packet::" % fam) and d.rsplit("::", 1)[1][:1].isupper():
                acc["variants"].append(d.rsplit("::", 1)[1])
            elif d.startswith(fam + "::") and name.startswith("new") and fn.get("krate") == "mqtt_proto":
                acc["ctors"].append(d)
            elif fn.get("krate") == "mqtt_proto" and d in F.fns and depth < 3 and not d.startswith("common::utils::read_"):
                b = nbody(F, d)
                if b is not None:
                    _collect(F, b, fam, depth + 1, acc)


def _arm_descriptor(F, body, fam):
    """What a dispatch arm does, independent of the front-end idiom (await? / block_on / map(Into::into) /
    private helper functions)."""
    acc = {"variants": [], "unit": False, "decoders": [], "read_u16": 0, "pid": 0, "panic": 0, "ctors": []}
    _collect(F, body, fam, 0, acc)
    if len(acc["decoders"]) == 1 and not acc["read_u16"]:
        return ("decoder",) + acc["decoders"][0]
    if acc["read_u16"] == 1 and acc["pid"] == 1 and len(set(acc["variants"])) == 1 and not acc["decoders"]:
        return ("pid-packet", acc["variants"][0])
    if acc["panic"] and not acc["decoders"] and not acc["variants"]:
        return ("unreachable",)
    if len(acc["ctors"]) == 1 and not acc["decoders"]:
        return ("ctor", acc["ctors"][0])
    if len(set(acc["variants"])) == 1 and acc["unit"] and not acc["decoders"] and not acc["read_u16"]:
        return ("unit", acc["variants"][0])
    return ("other", pp(unblock(body))[:100])


def _table(F, fid, fam):
    b, m = _typ_match(F, fid)
    t = {}
    for arm in m["arms"]:
        d = _arm_descriptor(F, arm["body"], fam)
        for v in _pat_variants(arm["pat"]):
            t[v] = (d, arm)
    return b, m, t


def _ctor_value(F, fid, depth=0):
    """The value a constructor function returns, by partial evaluation."""
    from peval import PE, Undecided
    try:
        return PE(F).call_fn(fid, [])
    except Undecided:
        return None


def h_dispatch3(F, R):
    """Packet::decode_async, PollHeader::block_decode and build_empty_packet dispatch every packet type to
    the same body decoder with the same arguments (or construct the same value)."""
    n = 0
    for fam in FAMS:
        hdr = "%s::packet::Header" % fam
        a_fid = "%s::packet::Packet::decode_async" % fam
        b_fid = F.impl_method("PollHeader", hdr, "block_decode")
        e_fid = F.impl_method("PollHeader", hdr, "build_empty_packet")
        if b_fid is None or e_fid is None:
            raise AnchorLost("impl PollHeader for %s" % hdr)
        _, am, at = _table(F, a_fid, fam)
        _, bm, bt = _table(F, b_fid, fam)
        _, em, et = _table(F, e_fid, fam)
        uncond, cond = empty_packet_table(F, e_fid)
        variants = [v["name"] for v in F.adts["%s::packet::PacketType" % fam]["variants"]]
        for v in variants:
            n += 1
            a = at.get(v, at.get("*"))
            b = bt.get(v, bt.get("*"))
            if a is None or b is None:
                R.fail("H-dispatch3", "%s/%s/missing" % (fam, v), "packet type %s has no arm in %s" % (v, a_fid if a is None else b_fid))
                continue
            ad, bd = a[0], b[0]
            if v in uncond:
                ed = et[v][0]
                R.check(ad == ed and bd == ("unreachable",), "H-dispatch3", "%s/%s" % (fam, v),
                        "%s: async decoder does %s, poll decoder's empty-packet table does %s and block_decode %s" % (v, ad, ed, bd), where=loc(a[1]))
            else:
                R.check(ad == bd and ad[0] in ("decoder", "pid-packet"), "H-dispatch3", "%s/%s" % (fam, v),
                        "%s: the async decoder dispatches to %s but the poll decoder's block_decode to %s" % (v, ad, bd), where=loc(b[1]))
            if v in cond:
                # conditional short form must construct what the body decoder constructs for remaining_len == 0
                arm = et[v][1]
                g = pp(unblock(arm["guard"])) if arm.get("guard") else ""
                R.check(g in ("(self.remaining_len Eq 0)", "(*self.remaining_len Eq 0)"), "H-dispatch3", "%s/%s/empty-guard" % (fam, v),
                        "build_empty_packet returns %s under guard %s (expected remaining_len == 0)" % (v, g), where=loc(arm))
                ed = et[v][0]
                ok = False
                if ed[0] == "ctor" and ad[0] == "decoder":
                    want = _ctor_value(F, ed[1])
                    got = _zero_len_value(F, ad[1])
                    ok = want is not None and got is not None and _same_value(want, got)
                    if not ok:
                        R.fail("H-dispatch3", "%s/%s/empty-value" % (fam, v),
                               "for an empty %s the poll decoder builds %s but the body decoder builds %s" % (v, want, got), where=loc(arm))
                if ok:
                    R.ok("H-dispatch3", "%s/%s/empty-value" % (fam, v))
        R.sample({"rule": "H-dispatch3", "family": fam, "table": {v: list(map(str, (at.get(v) or at.get("*"))[0])) for v in variants}})
        # PollHeader::remaining_len is the header's field
        rl = F.impl_method("PollHeader", hdr, "remaining_len")
        R.check(pp(unblock(nbody(F, rl))) in ("(*self.remaining_len as usize)", "(self.remaining_len as usize)"), "H-dispatch3", "%s/remaining_len" % fam,
                "PollHeader::remaining_len for %s is %s" % (hdr, pp(nbody(F, rl))), where=rl)
    R.floor("H-dispatch3", "packet types", n, 29)


def _same_value(a, b):
    return a is not None and a == b


def _zero_len_value(F, fid):
    """The value the body decoder returns for a header with remaining length 0 (no read may happen)."""
    from peval import PE, Sym, Adt, Undecided
    from r_pe import result_kind
    touched = []

    def hook(d, res, args, node, env):
        r = res or d
        if r.startswith("common::utils::read_") or r == "common::utils::decode_var_int" or r.endswith("decode_async") and r != fid:
            touched.append(r)
            return Sym("read")
        return None
    fam = fid.split("::")[0]
    typ = fid.split("::")[2]
    hdr = Adt("%s::packet::Header" % fam, "Header", {"typ": Adt("%s::packet::PacketType" % fam, typ), "remaining_len": 0,
                                                    "dup": False, "retain": False, "qos": Adt("common::types::QoS", "Level0")})
    try:
        r = PE(F, call_hook=hook).call_fn(fid, [Sym("reader"), hdr])
    except Undecided:
        return None
    k = result_kind(r)
    if k[0] != "ok" or touched:
        return None
    return k[1]


def h_hdr1(F, R):
    """All front-ends obtain the header through the same Header::new_with; decode_raw_header only reads the
    control byte and the remaining length and raises nothing of its own."""
    fid = "common::utils::decode_raw_header"
    b = nbody(F, fid)
    if b is None:
        raise AnchorLost(fid)
    calls = [(x["fn"].get("res") or x["fn"].get("def")) for x in walk_all(b) if x.get("k") == "Call" and (x["fn"].get("krate") == "mqtt_proto")]
    R.check(calls == ["common::utils::read_u8", "common::utils::decode_var_int"], "H-hdr1", "decode_raw_header/reads",
            "decode_raw_header performs %s (expected read_u8 then decode_var_int)" % calls, where=fid)
    errs = [x for x in walk_all(b) if x.get("k") == "Adt" and x.get("adt", "").endswith("error::Error")]
    rets = [x for x in walk_all(b) if x.get("k") == "Return"]
    R.check(not errs and not rets, "H-hdr1", "decode_raw_header/no-own-errors",
            "decode_raw_header raises %s itself: the async/blocking decoders would then classify a header differently from the poll decoder" % [e["variant"] for e in errs],
            where=loc(errs[0]) if errs else fid)
    tail = unblock(b)
    for fam in FAMS:
        hdr = "%s::packet::Header" % fam
        da = "%s::packet::Header::decode_async" % fam
        bb = nbody(F, da)
        cs = [(x["fn"].get("res") or x["fn"].get("def")) for x in walk_all(bb) if x.get("k") == "Call" and x["fn"].get("krate") == "mqtt_proto"]
        R.check(cs == ["common::utils::decode_raw_header", "%s::new_with" % hdr], "H-hdr1", "%s/decode_async" % fam,
                "%s performs %s" % (da, cs), where=da)
        nw = [x for x in walk_all(bb) if x.get("k") == "Call" and x["fn"].get("def") == "%s::new_with" % hdr]
        if nw:
            R.check([pp(strip(a)) for a in nw[0]["args"]] == ["typ", "remaining_len"], "H-hdr1", "%s/decode_async-args" % fam,
                    "%s passes %s to new_with" % (da, [pp(strip(a)) for a in nw[0]["args"]]), where=loc(nw[0]))
        pn = F.impl_method("PollHeader", hdr, "new_with")
        pb = unblock(nbody(F, pn))
        ok = pb.get("k") == "Call" and pb["fn"].get("def") == "%s::new_with" % hdr and [pp(strip(a)) for a in pb["args"]] == ["hd", "remaining_len"]
        R.check(ok, "H-hdr1", "%s/poll-new_with" % fam, "PollHeader::new_with for %s is %s" % (hdr, pp(pb)[:100]), where=pn)
        # Header::decode: block_on(decode_async(&mut reader)) unchanged
        hd = "%s::packet::Header::decode" % fam
        hb = unblock(nbody(F, hd))
        ok = hb.get("k") == "Call" and hb["fn"].get("name") == "block_on" and strip(hb["args"][0]).get("k") == "Call" and \
            strip(hb["args"][0])["fn"].get("def") == da
        R.check(ok, "H-hdr1", "%s/Header::decode" % fam, "%s is %s" % (hd, pp(hb)[:100]), where=hd)


def h_block(F, R):
    """Packet::decode = block_on(decode_async) with Ok(p) -> Ok(Some(p)), the EOF class -> Ok(None) and
    every other error returned unchanged."""
    for fam in FAMS:
        fid = "%s::packet::Packet::decode" % fam
        b = unblock(nbody(F, fid))
        if b.get("k") != "Match":
            R.fail("H-block", "%s/shape" % fam, "%s is not a match on block_on(decode_async(..))" % fid, where=fid)
            continue
        sc = strip(b["scrut"])
        ok = sc.get("k") == "Call" and sc["fn"].get("name") == "block_on" and strip(sc["args"][0]).get("k") == "Call" and \
            strip(sc["args"][0])["fn"].get("def") == "%s::packet::Packet::decode_async" % fam
        R.check(ok, "H-block", "%s/scrutinee" % fam, "%s matches on %s" % (fid, pp(sc)[:100]), where=fid)
        seen_ok = seen_eof = seen_pass = False
        for arm in b["arms"]:
            p = arm["pat"]
            body = unblock(arm["body"])
            if p.get("k") == "Variant" and p["variant"] == "Ok":
                v = p["subs"][0]["pat"].get("name")
                seen_ok = pp(body) == "Result::Ok{0: Option::Some{0: %s}}" % v
                R.check(seen_ok, "H-block", "%s/ok-arm" % fam, "Ok arm of %s yields %s" % (fid, pp(body)[:80]), where=loc(arm))
            elif p.get("k") == "Variant" and p["variant"] == "Err":
                sub = p["subs"][0]["pat"]
                if sub.get("k") == "Binding":
                    ev = sub["name"]
                    if body.get("k") == "If":
                        c = unblock(body["cond"])
                        is_eof = c.get("k") == "Call" and c["fn"].get("name") == "is_eof" and pp(strip(c["args"][0])) == ev
                        thn = pp(unblock(body["then"]))
                        els = pp(unblock(body["else"])) if body.get("else") else ""
                        seen_eof = is_eof and thn == "Result::Ok{0: Option::None{}}"
                        seen_pass = els == "Result::Err{0: %s}" % ev
                    else:
                        seen_pass = pp(body) == "Result::Err{0: %s}" % ev
                else:
                    # v5: Err(Common(IoError(kind, info))) => if kind == UnexpectedEof {Ok(None)} else {Err(IoError(kind, info).into())}
                    names = []
                    _leaf_bindings(sub, names)
                    chain = _variant_chain(sub)
                    if chain == ["Common", "IoError"] and body.get("k") == "If":
                        c = unblock(body["cond"])
                        kind_var = names[0] if names else None
                        seen_eof = c.get("k") == "Binary" and c["op"] == "Eq" and pp(strip(c["l"])) == kind_var and \
                            pp(strip(c["r"])).startswith("ErrorKind::UnexpectedEof") and pp(unblock(body["then"])) == "Result::Ok{0: Option::None{}}"
                        els = unblock(body["else"]) if body.get("else") else {}
                        rebuilt = [x for x in walk_all(els) if x.get("k") == "Adt" and x.get("adt") == "common::error::Error"]
                        same = len(rebuilt) == 1 and rebuilt[0]["variant"] == "IoError" and [pp(strip(f["e"])) for f in rebuilt[0]["fields"]] == names
                        R.check(same, "H-block", "%s/io-error-rebuilt-unchanged" % fam,
                                "%s rebuilds a non-EOF I/O error as %s from bindings %s" % (fid, pp(els)[:100], names), where=loc(arm))
                    else:
                        R.fail("H-block", "%s/err-arm-shape" % fam, "unrecognised error arm %s in %s" % (pp(arm)[:100], fid), where=loc(arm))
        R.check(seen_ok and seen_eof and seen_pass, "H-block", "%s/arms" % fam,
                "%s: Ok->Some %s, EOF->None %s, other errors unchanged %s" % (fid, seen_ok, seen_eof, seen_pass), where=fid)


def _leaf_bindings(p, out):
    k = p.get("k")
    if k == "Binding":
        out.append(p["name"])
    elif k in ("Variant", "Leaf"):
        for s in p["subs"]:
            _leaf_bindings(s["pat"], out)
    elif k == "Deref":
        _leaf_bindings(p["sub"], out)


def _variant_chain(p):
    out = []
    while p.get("k") == "Variant":
        out.append(p["variant"])
        if len(p["subs"]) >= 1 and p["subs"][0]["pat"].get("k") == "Variant":
            p = p["subs"][0]["pat"]
        else:
            break
    return out
