"""Property -> rules registry. Each entry names the deciding rules, the claimed level, and states in words
which clauses of the property are decided and which are not (copied into every evidence file)."""
import r_tables as T
import r_len as L
import r_props as P
import r_poll as PL
import r_dispatch as D
import r_io as IO
import r_ctor as C
import r_panic as PN
import r_body as B
import r_raise as RA

import r_pe as PEV

# rules re-based on the partial evaluator replace their first, shape-matching versions
T.t_hdr = PEV.t_hdr
T.t_width = PEV.t_width
T.t_tname = PEV.t_tname
T.t_flen = PEV.t_flen
T.t_fsplit = PEV.t_fsplit
IO.t_eof = PEV.t_eof
IO.h_toio = PEV.h_toio
IO.h_fromio = PEV.h_fromio
D.h_block = PEV.h_block
import r_pe2 as PE2
C.h_accessors = PE2.h_accessors


def _t_bits(F, R):
    """CONNECT flags, v5 subscription options, v3 requested-QoS byte and CONNACK flags: encoder and decoder
    evaluated over their complete finite domains against the specification's bit layouts."""
    PE2.t_bits_connect(F, R)
    PE2.t_bits_subopts(F, R)
    PE2.t_bits_subenc(F, R)
    PE2.h_connack_flags(F, R)


_t_bits.__name__ = "t_bits"
B.t_bits = _t_bits

import r_pollpe as PP


def _varint_readers(F, R):
    """Both variable-byte-integer readers (standalone and poll header state machine) have the specified
    transfer function (so they agree with each other)."""
    PP.poll_header_rules(F, R)
    PP.varint_reader_rules(F, R)


_varint_readers.__name__ = "t_varint_readers"
T.t_varint_readers = _varint_readers
T.t_varint_writer = PP.varint_writer_rules


def _poll_complete(F, R):
    PP.poll_complete_rules(F, R)
    PP.poll_body_rules(F, R)


_poll_complete.__name__ = "poll_rules"
# the shape-matching poll rules are superseded by the evaluated transfer-function rules
PL.h_total = _poll_complete
PL.h_exactfill = _poll_complete
PL.h_cap = _poll_complete
PL.h_pending = PP.poll_header_rules

import r_pe3 as P3
import r_trace as TR
D.h_dispatch3 = P3.h_dispatch3
PL.g_dispatch = P3.h_dispatch3
L.l_fixed = P3.l_fixed_values
L.t_ctl = P3.l_fixed_values
T.t_proto = P3.t_proto_values
C.s_gate = P3.s_gate_values
IO.h_async1 = P3.h_async1_values
D.h_hdr1 = P3.h_hdr1_values
IO.h_asref = P3.h_asref_values
C.h_protoread = P3.h_protoread_values

PROPS = {}

RULE_TEXT = ("Obligations are rule instances evaluated on facts exported from the type-checked program "
             "(THIR trees with resolved callees and evaluated constants, ADT discriminants, impl table) of /repo's "
             "current working tree. An instance is non-trivial when the rule extracted a non-empty object (table, "
             "summary polynomial, site) from the code; distinct instances have distinct (rule, construct) keys. "
             "Nothing under test is executed.")


def reg(pid, level, rules, explanation):
    PROPS[pid] = {"level": level, "rules": rules, "explanation": explanation, "rule_text": RULE_TEXT}


reg("C01", "other",
    [T.t_bij, P.t_prop3, L.l_eq, B.l_cover, P.l_propdec, D.h_dispatch3, T.t_varint_readers, PL.s_persist, PL.h_total,
     B.t_bits, C.h_payfmt, L.t_ctl, P3.h_shortform, TR.l_trace, P3.t_prims, T.t_proto, P.h_bytevals, T.t_varint_writer, P.t_props_whole, P.t_props_encvalues, IO.s_collect, P3.l_entries, P3.h_reason_bytes, P.t_props, RA.h_raise],
    "NOT decided: equality of the decoded value with the original over the unbounded value space (a runtime quantity). Decided: structural necessary conditions of a round trip, each exact for what it compares: "
    "T-bij (every wire-code enum's `as u8` discriminant table and its from_u8 table, evaluated for all 256 bytes, are inverse "
    "bijections), T-prop3 (decode / encode / encode_len of every v5 property set handle the same ids wired to the same field), L-eq "
    "(encode writes what encode_len declares, for every field combination), L-cover (every length-bearing field is written, "
    "conditional only on itself), L-propdec (bytes read per property == accounted == encode_len term), H-dispatch3 (the three "
    "front-ends run the same body decoders), V-writer (the length writer emits the variable byte integer the readers invert, for every value below 2^28), V-reader/P-header/S-persist/P-complete/P-body (the poll front-end decodes the same header, "
    "hands over the raw body and reports 1+len-of-len+remaining), T-bits / T-ctl (flag bytes and control bytes written by the encoders "
    "are the ones the decoders read back, over their complete domains), H-payfmt (the payload check rejects only flag=Some(true) with "
    "invalid UTF-8), H-shortform (the v5 short forms the encoder emits are the ones the decoders accept), L-trace (encoder and decoder of "
    "every body put the same kinds of wire items in the same order and a field is read at the position at which it is written; every "
    "integer wider than a byte, string, binary field and nested block outside list loops is written from a field as it is and stored as "
    "it was read -- not clamped, defaulted, normalised or derived; decoded lists and strings are not rearranged in place), T-props whole / "
    "T-propid values (each property decoder stores, and each property encoder writes, the value as it is), L-entries (list entries: every "
    "SUBACK / UNSUBACK code byte decodes to the variant its table names and every variant is written as its code; filters are stored and "
    "written as they are), H-raise reason bytes (every accepted reason byte of every v5 decoder yields the variant its table names), H-raise placement / payload (a decoder refuses only at the catalogued sites under the catalogued guards -- each of which refuses bytes no encoder writes; a refusal anywhere else is a packet that encodes but does not decode).")

reg("C02", "other",
    [L.l_eq, L.l_hdr, L.l_fixed, L.s_dbg, PN.s_panic_encode, T.t_width, T.t_varint_writer, P3.t_prims, IO.h_async1, IO.s_writers],
    "Decided exactly (all inputs of the valid domain): L-eq for each of the 35 `impl Encodable` (bytes written by encode == "
    "encode_len as multilinear polynomials over field-presence/variant atoms, i.e. for every subset of optional fields and "
    "properties, every reason code, any number of list elements); L-hdr (encode_packet = control byte, var-int of exactly "
    "body.encode_len(), body; total_len()? refusal dominates every write); L-fixed/T-ctl (Packet::encode and Packet::encode_len "
    "evaluated per variant: fixed-array fast paths and dynamic variants agree); S-dbg (debug-assertion-only code has no effects; the "
    "thorough tier repeats everything with debug assertions off); T-width (width tables); V-writer. One known finding (F5): an "
    "oversize property block panics in encode_len instead of being refused. Assumed: 64-bit usize sums do not overflow.")

reg("C03", "other",
    [PN.s_panic_decode, PN.s_loop, PN.s_alloc, C.s_unsafe, C.h_utf8, PL.g_dispatch, PL.h_cap, PL.h_pending, T.t_varint_readers,
     B.l_consume, P.l_propdec, PL.s_persist, P3.t_prims, T.t_width],
    "Site audit over the call-graph closure of all decoder entry points: every panic-capable site (arithmetic on unsigned "
    "integers, indexing incl. Index-trait calls, unwrap/expect, explicit panics) is discharged by a dominating-guard rule or a named "
    "table entry with a reason (the table entries are reviewed, not proved); every loop matches a progress pattern (counter loops are "
    "accounted by L-consume/L-propdec with decrease >= 1; raw loops read the transport each iteration; zero-length read is EOF); every "
    "unsafe block is one of three audited shapes (from_utf8_unchecked after validation of the same buffer - H-utf8; set_len equal to "
    "the requested capacity - P-complete; MaybeUninit buffer assumed init only on exact fill - P-body); allocation sizes have the "
    "provenance 'widened u8/u16' or 'remaining length < 2^28, decreased only' (S-alloc); the one unreachable! is unreachable "
    "(G-dispatch); no recursion; the poll decoder keeps no progress or budget in locals that could make it return Pending without the "
    "transport having registered a wake-up (S-persist, P-body: a Pending nobody wakes is non-termination). Not decided: stack/heap "
    "exhaustion inside std/tokio.")

reg("C04", "other",
    [T.t_codes, T.t_hdr, P.t_props, P.t_props_whole, P.h_proplen, P.h_dup, P.h_bytevals, P.l_propdec, PL.h_exactfill, B.t_bits, B.h_checked_sub,
     B.l_consume, C.h_ctor, C.h_utf8, T.t_varint_readers, P3.h_shortform, P3.t_prims, C.h_accessors, T.t_width, TR.l_trace, IO.s_collect, T.t_proto, P3.l_entries, P3.h_reason_bytes, D.h_dispatch3, T.t_tname, T.t_flen, RA.h_raise],
    "NOT decided: language equality between the strict decoder's accepted set and the MQTT grammar, nor the conjunction of the "
    "clauses below into it. Decided exactly against independent OASIS tables (spec_mqtt.py): header nibble/flag table for all 256 "
    "control bytes (T-hdr), accepted domain of every code table (T-codes), permitted property set per packet and its rejecting default "
    "arm (T-props; also each property-set decoder evaluated as a whole function on one-property blocks, the empty block and a block one byte short), duplicate rejection before every store (H-dup), 0/1 byte properties (H-bytevals), exact property length test "
    "(H-proplen), exact fill of the frame and zero remaining length for body-less packets in the poll decoder (P-complete/P-body), "
    "CONNECT flag / subscription-option / CONNACK-flag masks and validators over all 256 bytes (T-bits), checked_sub on every decrement, "
    "protocol name / level pairs accepted exactly as (MQIsdp,3) (MQTT,4) (MQTT,5) (T-proto), validated constructors for pid/topic/filter/var-int (H-ctor) with the variable byte integer's bound at exactly 2^28 (T-width), UTF-8 validation before string construction (H-utf8), the three v5 "
    "short forms and no others (H-shortform); what an accepting decoder puts into the packet is what it read -- every integer wider than a "
    "byte, string, binary field and property value is stored as it is, and decoded lists and strings are not rearranged afterwards "
    "(L-trace value clauses, T-props whole), and every entry read in a loop is stored unconditionally (S-collect); the decoders refuse only at the catalogued sites, under the guard and with the payload the catalogue names (H-raise: a refusal anywhere else rejects frames the tables above call well-formed). The library's deliberate leniencies are listed in DESIGN.md section 5.")

reg("C05", "other",
    [PL.h_borrow, PL.h_stateclone, PL.s_persist, PL.h_pending, PL.h_cap, PL.h_total, T.t_varint_readers],
    "NOT decided: equality of outcomes over all delivery schedules (a runtime quantity). Decided: the structural discipline that "
    "makes the outcome a function of (caller-held state, bytes delivered): the future holds only two &mut borrows, has no Drop "
    "and its constructor only stores them, and a copy of the caller-held state is the same state (H-borrow); inside poll no local declared outside a loop is assigned inside it and every "
    "place updated from the reader is a projection of the state (S-persist); the evaluated transfer functions of the header and body "
    "states (P-header, P-complete, P-body): Pending is returned exactly for the transport's Pending with the state unchanged, header "
    "bytes are read one at a time, the shift derives from the persisted index, body reads target buf[idx..] and advance idx by the "
    "bytes filled, success reports 1 + 1 + var_idx (+ remaining length).")

reg("C06", "other",
    [D.h_dispatch3, D.h_hdr1, D.h_block, PL.h_exactfill, T.t_varint_readers, IO.h_noswallow, IO.s_readers, PL.h_stateclone, PL.h_borrow],
    "Decided exactly for the dispatch layer, the only place the three front-ends differ: per packet type the async decoder, "
    "block_decode and build_empty_packet, evaluated on an abstract header, run the same body decoder with the same arguments or build "
    "the same value (H-dispatch3); all obtain the header through the same Header::new_with and decode_raw_header raises nothing of its "
    "own (H-hdr1); the two var-int readers have the same transfer function (V-reader, P-header); Packet::decode is "
    "block_on(decode_async) with Ok->Some, EOF->None, other errors unchanged (H-block, every error variant); poll substitutes only "
    "InvalidRemainingLength (P-body); no body decoder turns an end of input it caught into a different error or a value, which the poll "
    "front-end (bounded body) and the stream front-ends (which read on) would then report differently (H-noswallow), and the transport "
    "is only read with read_exact / poll_read, so that the async front-end does not depend on how the bytes are chunked (S-readers). Not decided: determinism of the shared decoder code itself (it has no state; S-pure covers the "
    "encode side only).")

reg("C07", "other",
    [IO.s_readers, IO.s_ioerr, IO.t_eof, IO.h_noswallow, D.h_block, B.l_consume, PL.h_pending, PL.h_total, P3.t_prims, P.l_propdec, P3.h_shortform, IO.s_collect, PL.h_borrow],
    "Decided per site: every transport call is read_exact (operand read completely before use) or poll_read in poll "
    "(S-readers); every io::Result is propagated by `?` or a kind-preserving map_err (S-ioerr); is_eof <=> IoError(UnexpectedEof) "
    "for both error types and zero-length reads produce exactly that (T-eof, P-header/P-body); no map_err closure relabels an I/O "
    "error, no .ok()/unwrap_or on a read result, and every match / if-let / let-else on a Result that can carry an I/O error "
    "propagates it in every arm that can see an Err (H-noswallow); Packet::decode maps exactly the EOF class to Ok(None) (H-block); "
    "decoders consume exactly the frame's remaining length, so trailing bytes are never touched (L-consume), the v5 acknowledgement "
    "family included: each of its forms reads every byte of the declared length, so the encoding minus its last byte is not a packet "
    "(H-shortform); an arm that catches an end of input never replaces it by another error (H-noswallow); every entry read in a loop is stored, so that "
    "accounting the bytes through the stored entries does not miscount (S-collect). Not decided: that no "
    "validation fires early on a strict prefix of a valid encoding (follows from read-before-use but is not derived).")

reg("C08", "other",
    [PL.h_total, PL.h_cap, B.l_consume, P.l_propdec, P.h_proplen, T.t_width, T.t_varint_readers, PL.s_persist, P3.h_shortform,
     C.h_utf8, IO.s_readers, P3.t_prims, T.t_varint_writer, T.t_bij, PL.h_stateclone, PL.h_borrow, D.h_hdr1, IO.h_noswallow],
    "NOT decided: equality of a decoded sequence with a generated one over all histories. Decided: the per-packet consumption "
    "invariant from which framing follows by induction: the poll decoder reads 1 + (1 + var_idx) header bytes and exactly "
    "remaining_len body bytes and reports their sum (P-header, P-complete, P-body, S-persist); every accounting body decoder consumes "
    "exactly header.remaining_len bytes on every accepting path and each loop reads what it subtracts (L-consume, L-propdec, "
    "H-proplen, under minimal var-ints); the v5 acknowledgement family reads exactly the declared length in its fixed-size forms and "
    "goes on to the property block otherwise (H-shortform); total_len / header_len / remaining_len are mutually consistent (T-width); on "
    "the encoding side of the sequence, every length is written as the variable byte integer the readers invert (V-writer) and every code "
    "byte a table writes is the one its from_u8 maps back to the same variant (T-bij); a front-end that is handed the stream piece by piece (the slice decoder on an accumulation buffer) relies on a cut inside a packet being reported as incomplete: no body decoder turns an end of input into a value or into another error (H-noswallow).")

reg("C09", "other",
    [IO.h_async1, IO.h_asref, IO.s_writers, IO.s_pure, L.l_hdr, L.l_fixed, L.l_eq, P3.t_prims, T.t_varint_writer],
    "Decided for the crate's own code (tokio's write_all semantics under partial writes / Pending are trusted): encode_async is "
    "encode()? followed by exactly one write_all(data.as_ref()) on the same bytes with no branching (H-async1); VarBytes::as_ref "
    "returns the whole container for every variant (H-asref); only write_all is ever called on a sink and no buffering adapter sits "
    "between an encoder and the sink unless its flush result is propagated (S-writers); packet bytes = control byte + "
    "var-int(encode_len) + what body.encode writes, fast paths only per the evaluated per-variant table (L-hdr, L-fixed/T-ctl), the var-int being "
    "the variable byte integer of that length for every value below 2^28 (V-writer, whole-function); the "
    "encode closure reads no static/thread-local/interior-mutable state and calls nothing environment dependent (S-pure).")

reg("C10", "other",
    [T.t_rc, L.t_ctl, P.t_propid, P.t_props_encvalues, P3.l_entries, B.t_bits, T.t_varint_writer, T.t_proto, L.l_hdr, L.l_eq, P.t_prop3, TR.l_trace, P3.t_prims, IO.h_async1, IO.s_writers],
    "Static analysis cannot run an independent decoder; decided instead: every constant the encoder puts on the wire equals the "
    "independently typed OASIS tables (spec_mqtt.py): control bytes incl. PUBLISH flag bits for all 12 flag combinations (T-ctl), all "
    "138 wire-code enum discriminants (T-rc), property ids, their wire types and the id-then-value order, length prefix = sum of "
    "written items (T-propid), CONNECT flag and subscription-option bit layouts (T-bits), the var-int writer evaluated as a whole function, piece by piece "
    "(V-writer), protocol name/level pairs (T-proto), header assembly (L-hdr). L-trace decides that the encoder's item order is the decoder's (not "
    "that either is the specification's); big-endian integers rest on to_be_bytes being the only integer serialiser reached (checked by L's "
    "primitive summaries).")

reg("C11", "other",
    [L.l_eq, B.l_cover, T.t_bij, PN.s_panic_encode, T.t_width, C.h_ctor, P.l_propdec, P.h_proplen, B.t_bits, L.t_ctl, P3.h_shortform,
     TR.l_trace, P3.t_prims, T.t_proto, P.t_prop3, P.h_bytevals, IO.h_async1, IO.s_writers, T.t_varint_writer, D.h_hdr1, D.h_dispatch3, P.t_props_whole, P.t_props_encvalues, IO.s_collect, P3.l_entries, P3.h_reason_bytes, T.t_varint_readers],
    "NOT decided: the runtime round trip over accepted byte strings. Decided (necessary): the encoder is length-exact on every "
    "value a decoder can construct, not only canonical ones (L-eq quantifies over all atom assignments); every length-bearing "
    "field is written whenever present, depending only on itself (L-cover); every enum value a from_u8 table returns is written "
    "back as the byte it came from (T-bij); every flag/bit a decoder accepts is written back (T-bits, T-ctl); every length is written as the variable byte integer the readers invert (V-writer); the short forms agree "
    "(H-shortform); no panic site in the encode closure other than the known oversize expect (S-panic-enc; F5 is unreachable for "
    "decoder-built packets); decoders build validated types only through their constructors (H-ctor); what one front-end accepts the others "
    "accept, since all obtain the header through the same Header::new_with and run the same body decoders (H-hdr1, H-dispatch3).")

reg("C12", "proof",
    [C.h_priv, C.h_ctor, C.h_utf8, C.h_payfmt, C.h_accessors, T.t_width, T.t_flen, PN.s_panic_validator],
    "All obligations exact: private fields and no way around the validating constructors (H-priv); Pid/TopicName/TopicFilter/"
    "VarByteInt are constructed only inside their constructors, which evaluated on abstract inputs reject exactly the invalid values "
    "and store their argument (H-ctor); read_string validates the very buffer it turns into a String and no other unchecked/lossy "
    "construction exists (H-utf8); a payload flagged UTF-8 is validated on the buffer that becomes the payload, over all flag/validity "
    "combinations (H-payfmt); VarByteInt bound is 2^28 (T-width). The clause 'shared-subscription accessors work' is decided only "
    "structurally (H-accessors: they use nothing but the validator's index, the prefix matcher compares 7 characters and advances by "
    "len_utf8; T-flen: no text longer than 65,535 bytes is accepted, so the cached u16 offset cannot wrap); that the index is the right "
    "'/' is C16 territory and not decided.")

reg("C13", "proof",
    [T.t_proto, C.s_gate, C.h_protoread, T.t_hdr, D.h_block, D.h_dispatch3, PL.h_exactfill, P3.h_erreq],
    "All obligations exact: Protocol::new matches its raw arguments against exactly (MQIsdp,3) (MQTT,4) (MQTT,5), the default arm "
    "only returns InvalidProtocol(name, level) / InvalidString, to_pair is the inverse (T-proto); Protocol::decode_async reads "
    "exactly name then level (H-protoread); both decode_with_protocol start with the version gate returning "
    "UnexpectedProtocol(protocol parameter) before any read, accepted sets {V310,V311} / {V500} (S-gate); Connect::decode_async is "
    "Protocol::decode_async then decode_with_protocol with nothing in between (H-compose); the packet front-ends hand the caller's reader "
    "to Connect::decode_async without reading any body byte first (H-dispatch3) and the blocking front-end is the async one with only end of "
    "input mapped to Ok(None), so the refusal is reported as soon as the level byte is there (H-block); the poll front-end returns the body "
    "decoder's error unchanged and leaves the refused frame in the caller-held state, where the other family's entry point can go on (P-body); "
    "error values compare by variant and payload, so UnexpectedProtocol(V310) is not UnexpectedProtocol(V500) (H-erreq).")

reg("C14", "other",
    [IO.s_ioerr, IO.s_readers, IO.s_writers, IO.h_fromio, IO.h_toio, IO.h_noswallow, IO.t_eof, IO.h_async1, PL.h_pending, PL.h_total, PL.h_borrow],
    "Decided per site over decode and encode closures (tokio/std adaptor semantics trusted): every io::Result from a transport or "
    "sink call is propagated through a kind-preserving conversion (S-ioerr); From<io::Error> keeps err.kind(), From<Error> for "
    "io::Error returns the carried kind and InvalidData otherwise, evaluated for every error variant (H-fromio, H-toio); no handler "
    "turns an I/O error into a packet, protocol error or Ok(None) except the documented EOF mapping (H-noswallow, T-eof); only "
    "read_exact/poll_read and write_all are used and no unflushed buffering adapter hides a write error (S-readers, S-writers); the "
    "async encoders compute the full encoding before touching the sink (H-async1); the poll decoder returns transport errors "
    "unchanged and EOF as UnexpectedEof (P-header/P-body).")

reg("C15", "other",
    [T.t_width, T.t_varint_writer, T.t_varint_readers, C.h_ctor, PL.h_total, D.h_block, D.h_hdr1, L.l_eq],
    "The width helpers touch their argument only through comparisons with constants, so T-width decides their laws for all 2^28 "
    "values from the reconstructed piecewise tables (var_int_len, total_len, header_len, remaining_len, VarByteInt bound, cross law). "
    "V-reader / P-header decide that the standalone reader and the poll header state machine have the same transfer function (mask, "
    "step, continuation, 4-byte cap, error) equal to the spec; V-writer the writer's; P-complete that the poll decoder's reported total "
    "uses the number of length bytes consumed; every front-end reaches the reader unconditionally: the blocking decoders are the async "
    "ones with only end of input mapped to Ok(None), and all obtain the header through decode_raw_header / Header::new_with (H-block, H-hdr1); "
    "every place that reports the size of an encoded variable byte integer (property lengths, subscription identifiers) reports what the "
    "writer emits there (L-eq). NOT decided: decode(write(n)) = n as an arithmetic identity (follows from the two "
    "transfer functions by the textbook argument; stated, not mechanised).")

reg("C17", "other",
    [C.h_fields, C.h_accessors, C.h_ctor, T.t_flen, T.t_fsplit, PN.s_panic_validator],
    "Sentence 2 decided exactly: eq / cmp / partial_cmp / hash of TopicFilter are hand-written and, evaluated on abstract filters with "
    "different cached indices, are exactly the text's own eq / cmp / hash; Display/Deref read only the text (H-fields); the constructor "
    "stores its argument unchanged (H-ctor). Sentence 1 partly decided (necessary): accessors slice inner[7..sep] / inner[sep+1..] only "
    "when sep > 0, 7 == len(\"$share/\"), sep is written only from is_invalid's result, the validator's prefix matcher compares all 7 "
    "characters and advances its byte index by len_utf8 (H-accessors); the validator refuses every text longer than 65,535 bytes, so the "
    "u16 byte offset it caches cannot wrap (T-flen, evaluated on a symbolic byte length), and no arithmetic site in it can overflow or "
    "panic (S-panic restricted to the validator). NOT decided: that the cached index is the '/' that ends the "
    "share name.")

reg("C18", "proof",
    [T.t_tname, C.h_tn, C.h_ctor, C.h_priv, C.h_utf8, RA.h_raise, P.h_topicvals],
    "All obligations exact: TopicName::is_invalid is `byte length > 65535 || contains one of {'+','#','\\0'}` (T-tname, evaluated); "
    "try_from returns InvalidTopicName(value) iff is_invalid(value) else stores the same string (H-ctor, evaluated); it is the only "
    "construction site, fields are private (H-priv); Deref/Display return the text, is_shared/is_sys are starts_with(\"$share/\") / "
    "starts_with(\"$SYS/\") (H-tn-read); five decode paths go through try_from (H-tn-paths); a Response Topic is accepted exactly when "
    "the constructor accepts the string read -- no further condition on the value -- and a refusal becomes InvalidResponseTopic (H-topicvals).")

reg("C20", "other",
    [RA.h_raise, RA.h_order, B.l_precharge, P3.h_erreq, C.h_protoread, T.t_tname, T.t_flen, P.t_props, P.t_props_whole, P.h_proplen, P.h_dup, P.h_bytevals, D.h_dispatch3, PL.h_exactfill, D.h_block,
     IO.h_noswallow, T.t_codes, B.h_checked_sub, B.t_bits, C.h_utf8, T.t_varint_readers],
    "NOT decided: that a given byte-level malformation of a given packet reaches the site the catalogue names (path feasibility "
    "over inputs). Decided: every raise site carries the value its guard tested (H-raise payload rule), each documented variant is "
    "raised only where the catalogue places it and the mandatory sites exist (placement, floors), unknown reason bytes become "
    "InvalidReasonCode(header.typ, byte) in every v5 decoder that reads one and an empty SUBSCRIBE/UNSUBSCRIBE is EmptySubscription "
    "(evaluated), from_u8 tables raise their documented variant, bad flag bytes get their documented variant (T-bits), the pinned "
    "evaluation order of checks (H-order), and the three front-ends run the same raise sites with only the documented re-labelling "
    "(H-dispatch3, P-body, H-block, H-noswallow).")
