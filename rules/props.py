"""Property -> rules registry (filled in as rules are built)."""
import r_tables as T

PROPS = {}


def reg(pid, level, rules, explanation, rule_text):
    PROPS[pid] = {"level": level, "rules": rules, "explanation": explanation, "rule_text": rule_text}


reg("C15", "other", [T.t_width, T.t_varint_writer, T.t_varint_readers],
    "dev", "dev")
reg("C13", "other", [T.t_proto], "dev", "dev")
reg("C18", "other", [T.t_tname], "dev", "dev")
reg("C10", "other", [T.t_rc], "dev", "dev")
reg("C01", "other", [T.t_bij], "dev", "dev")
reg("C04", "other", [T.t_codes], "dev", "dev")
import r_len as L
reg("C02", "other", [L.l_eq, L.l_hdr, L.l_fixed, L.s_dbg], "dev", "dev")
PROPS["C10"]["rules"].append(L.t_ctl)
import r_props as P
PROPS["C04"]["rules"] += [P.t_props, P.h_proplen, P.h_dup, P.h_bytevals, P.l_propdec]
PROPS["C01"]["rules"] += [P.t_prop3]
PROPS["C10"]["rules"] += [P.t_propid]
import r_poll as PL
reg("C05", "other", [PL.h_borrow, PL.s_persist, PL.h_pending, PL.h_cap, PL.h_total, T.t_varint_readers], "dev", "dev")
reg("C08", "other", [PL.h_total, PL.h_cap, T.t_width], "dev", "dev")
reg("C03", "other", [PL.g_dispatch], "dev", "dev")
PROPS["C04"]["rules"] += [PL.h_exactfill]
import r_dispatch as D
reg("C06", "other", [D.h_dispatch3, D.h_hdr1, D.h_block, PL.h_exactfill, T.t_varint_readers], "dev", "dev")
import r_io as IO
reg("C07", "other", [IO.s_readers, IO.s_ioerr, IO.t_eof, IO.h_noswallow, D.h_block], "dev", "dev")
reg("C14", "other", [IO.s_ioerr, IO.s_readers, IO.s_writers, IO.h_fromio, IO.h_toio, IO.h_noswallow, IO.t_eof, IO.h_async1], "dev", "dev")
reg("C09", "other", [IO.h_async1, IO.h_asref, IO.s_writers, IO.s_pure, L.l_hdr, L.l_fixed], "dev", "dev")
import r_ctor as C
reg("C12", "proof", [C.h_priv, C.h_ctor, C.h_utf8, C.h_payfmt, C.h_accessors, T.t_width], "dev", "dev")
PROPS["C18"]["rules"] += [C.h_tn, C.h_ctor]
reg("C17", "other", [C.h_fields, C.h_accessors, C.h_ctor], "dev", "dev")
PROPS["C13"]["rules"] += [C.s_gate, C.h_protoread]
PROPS["C03"]["rules"] += [C.s_unsafe, C.h_utf8]
import r_panic as PN
PROPS["C03"]["rules"] += [PN.s_panic_decode, PN.s_loop, PN.s_alloc, T.t_varint_readers, PL.h_cap, PL.h_pending]
import r_body as B
PROPS["C08"]["rules"] += [B.l_consume, P.l_propdec, P.h_proplen]
PROPS["C04"]["rules"] += [B.t_bits, B.h_checked_sub, B.l_consume]
PROPS["C10"]["rules"] += [B.t_bits]
reg("C11", "other", [L.l_eq, B.l_cover, T.t_bij, PN.s_panic_encode, T.t_width], "dev", "dev")
PROPS["C01"]["rules"] += [L.l_eq, B.l_cover, P.l_propdec]
PROPS["C07"]["rules"] += [B.l_consume]
PROPS["C02"]["rules"] += [PN.s_panic_encode, T.t_width]
import r_raise as RA
reg("C20", "other", [RA.h_raise, RA.h_order, P.t_props, P.h_proplen, P.h_dup, P.h_bytevals, D.h_dispatch3, PL.h_exactfill, D.h_block, IO.h_noswallow, T.t_codes], "dev", "dev")
PROPS["C01"]["rules"] += [T.t_varint_readers, PL.s_persist, D.h_dispatch3]
PROPS["C08"]["rules"] += [T.t_varint_readers, PL.s_persist]
