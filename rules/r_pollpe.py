"""Poll decoder and variable-byte-integer codec rules on the partial evaluator: the transfer function of the
state machine / loop body is computed for every abstract pre-state (control byte seen?, length index 0..3,
continuation bit, transport result class, header/decoder result class, left-over bytes?, inner EOF?) and
compared with the specification of the strict decoder. Independent of how the code is written."""
import spec_mqtt as S
from facts import strip, lit_value, pp, loc
from norm import nbody, walk_all, unblock
from report import AnchorLost
from peval import PE, Sym, Adt, Tup, Undecided, some, NONE, ok, err, UNIT, vkey, _Ret, _Brk, _Cont
from r_pe import result_kind, unwrap_common
from r_tables import poll_fn_id

POLL = "core::task::poll::Poll"
STATE = "common::poll::GenericPollPacketState"


def ready(v):
    return Adt(POLL, "Ready", {"0": v})


PENDING = Adt(POLL, "Pending")


def header_state(cb, idx, acc):
    return Adt(STATE, "Header", {"0": Adt("common::poll::PollHeaderState", "PollHeaderState",
                                          {"control_byte": cb, "var_idx": idx, "var_int": acc})})


def body_state(idx, total=Sym("TOTAL")):
    return Adt(STATE, "Body", {"0": Adt("common::poll::GenericPollBodyState", "GenericPollBodyState",
                                        {"header": Sym("HEADER"), "total": total, "idx": idx, "buf": Sym("BUF")})})


class PollRun:
    def __init__(self, F, state, script, **choices):
        self.F = F
        self.fid = poll_fn_id(F)
        self.state0 = state
        self.script = list(script)
        self.ch = choices
        self.calls = []
        self.filled = {}
        self.nread = 0
        self.pe = PE(F, call_hook=self.hook, cond_hook=self.cond, fuel=60)
        self.env_after = None
        self.outcome = None

    def header_fields(self):
        """(control_byte, var_idx, var_int) of the caller-owned state as the evaluation left it (None if it is not a Header state)."""
        pk = getattr(self, "packet", None)
        st = pk.fields.get("state") if pk is not None else None
        if isinstance(st, Adt) and st.variant == "Header" and isinstance(st.fields.get("0"), Adt):
            f = st.fields["0"].fields
            return f.get("control_byte"), f.get("var_idx"), f.get("var_int")
        return None, None, None

    def run(self):
        try:
            r = self.pe.call_fn(self.fid, [Sym("SELF"), Sym("CX")])
            self.outcome = ("returned", r)
        except Undecided as e:
            self.outcome = ("undecided", str(e))
        return self

    # -- hooks
    def hook(self, d, res, args, node, env):
        name = node["fn"].get("name")
        r = res or d
        self.last_env = env
        if name == "get_mut" and "Pin" in d:
            self.state_cell = {"v": self.state0}
            self.packet = Adt("common::poll::GenericPollPacket", "GenericPollPacket", {"state": self.state0, "reader": Sym("READER")})
            return self.packet
        if name == "new" and "Pin" in d:
            return Sym("PINNED")
        if "ReadBuf" in d and name in ("new", "uninit"):
            self.nread_buf = getattr(self, "nread_buf", 0) + 1
            self.calls.append(("readbuf", name, args[0] if args else None))
            return Sym(("readbuf", self.nread_buf))
        if name == "poll_read":
            self.nread += 1
            if not self.script:
                self.env_after = dict(env)
                raise Undecided("script exhausted")
            step = self.script.pop(0)
            rb = args[2]
            self.calls.append(("poll_read", step[0]))
            if step[0] == "pending":
                self.env_at_pending = dict(env)
                return PENDING
            if step[0] == "err":
                return ready(err(Sym("IOERR")))
            if step[0] == "eof":
                self.filled[vkey(rb)] = Tup([])
                return ready(ok(UNIT))
            if step[0] == "byte":
                self.filled[vkey(rb)] = Tup([step[1]])
                return ready(ok(UNIT))
            if step[0] == "chunk":
                self.filled[vkey(rb)] = Tup([Sym(("data", i)) for i in range(step[1])])
                return ready(ok(UNIT))
        if "ReadBuf" in d and name == "filled":
            return self.filled.get(vkey(args[0]), Tup([]))
        if name == "new_with" and "PollHeader" in d:
            self.calls.append(("new_with", args[0], args[1]))
            return self.ch.get("new_with", ok(Sym("HEADER")))
        if name == "build_empty_packet":
            self.calls.append(("build_empty_packet",))
            return self.ch.get("empty", NONE)
        if name == "remaining_len" and "PollHeader" in d:
            return self.ch.get("remaining_len", 5)
        if name == "block_decode":
            self.calls.append(("block_decode", args[0], args[1]))
            return self.ch.get("decoded", ok(Sym("PACKET")))
        if name == "is_eof_error":
            return self.ch.get("inner_eof", False)
        if name == "is_empty" and len(args) == 1:
            return not self.ch.get("leftover", False)
        if name == "len" and len(args) == 1 and args[0] == Sym("BUF"):
            return self.ch.get("buf_len", 5)
        if name == "len" and len(args) == 1 and isinstance(args[0], Sym) and isinstance(args[0].tag, tuple) and args[0].tag and args[0].tag[0] in ("view", "index") \
                and any(c[0] == "block_decode" for c in self.calls):
            return 1 if self.ch.get("leftover", False) else 0        # what the body decoder left unread of the slice it was given
        if name in ("with_capacity",):
            self.calls.append(("with_capacity", args[0]))
            return Sym("NEWBUF")
        if name == "set_len":
            self.calls.append(("set_len", args[1]))
            return UNIT
        if name == "from_elem" and d.startswith("alloc::vec") and len(args) == 2:
            # vec![MaybeUninit::uninit(); n] / vec![0; n]: a buffer of exactly n elements in one step
            self.calls.append(("with_capacity", args[1]))
            self.calls.append(("set_len", args[1]))
            return Sym("NEWBUF")
        if name in ("resize", "resize_with") and len(args) >= 2 and args[0] == Sym("NEWBUF"):
            self.calls.append(("set_len", args[1]))
            return UNIT
        if name == "take" and "mem" in d:
            # mem::take(place): the place is left empty -- visible in the caller-held state when the place is one of its fields
            tgt = node["args"][0] if node.get("args") else {}
            while isinstance(tgt, dict) and tgt.get("k") in ("Borrow", "Deref", "Scope", "Use", "PtrCoerce") and isinstance(tgt.get("e"), dict):
                tgt = tgt["e"]
            if isinstance(tgt, dict) and tgt.get("k") in ("Var", "Upvar"):
                from peval import Ref as _Ref
                ref = env.get(tgt["var"]["id"])
                if isinstance(ref, _Ref):
                    ref.set(Sym("EMPTYVEC"))
            return Sym(("taken", vkey(args[0])))
        if name == "transmute":
            return Sym(("view", vkey(args[0])))
        if name in ("as_ptr", "as_mut_ptr") and len(args) == 1:
            return Sym(("ptr", vkey(args[0])))
        if name == "cast" and len(args) == 1 and isinstance(args[0], Sym) and isinstance(args[0].tag, tuple) and args[0].tag[0] == "ptr":
            return args[0]
        if name == "from_raw_parts" and len(args) == 2 and isinstance(args[0], Sym) and isinstance(args[0].tag, tuple) and args[0].tag[0] == "ptr":
            whole = args[1] == self.ch.get("buf_len", 5) and args[0].tag[1] == vkey(Sym("BUF"))
            self.calls.append(("raw-view", args[0].tag[1], args[1], whole))
            return Sym(("view", ("whole", args[0].tag[1]) if whole else ("part", args[0].tag[1], vkey(args[1]))))
        if name in ("index", "index_mut") and len(args) == 2:
            self.calls.append((name, args[0], args[1]))
            return Sym((name, vkey(args[0]), vkey(args[1])))
        if name == "to_owned" or name == "to_string":
            return Sym("text")
        if name == "new" and d.startswith("alloc::vec::Vec"):
            return Sym("EMPTYVEC")
        if name in ("deref_mut", "as_mut_slice", "as_mut") and len(args) == 1 and args[0] == Sym("BUF"):
            return args[0]          # the buffer seen as a slice is the buffer
        if name in _BUF_MUTATORS and args and (res or d) not in self.F.fns:
            tgt = args[0]
            if tgt == Sym("BUF"):
                self.calls.append(("buf-mutated", name, "the whole buffer"))
                return UNIT
            if isinstance(tgt, Sym) and isinstance(tgt.tag, tuple) and len(tgt.tag) == 3 and tgt.tag[0] == "index_mut" and tgt.tag[1] == vkey(Sym("BUF")):
                self.calls.append(("buf-mutated", name, tgt.tag[2]))
                return UNIT
        return None

    def cond(self, what, node):
        return byte_cond(what, node)


_BUF_MUTATORS = {"fill", "fill_with", "copy_from_slice", "clone_from_slice", "clear", "truncate", "resize", "resize_with", "swap", "reverse",
                 "rotate_left", "rotate_right", "sort", "sort_unstable", "extend", "extend_from_slice", "push", "pop", "insert", "remove", "drain",
                 "retain", "dedup", "split_off", "append", "copy_within", "swap_with_slice"}


def _is_byte(x):
    return isinstance(x, tuple) and len(x) == 2 and x[0] == "sym" and isinstance(x[1], tuple) and len(x[1]) == 3 and x[1][0] == "byte"


def _unsym(x):
    return x[1] if isinstance(x, tuple) and len(x) == 2 and x[0] == "sym" else x


def byte_cond(what, node):
    """Decisions on an abstract byte byte(n, cont) whose continuation bit is known and whose low seven bits are
    symbolic: `b & 0x80` against 0/128, `b >> 7` (canonically b / 128) against 0/1, `b` itself against 127/128."""
    if what[0] == "cmp":
        op, a, b = what[1], what[2], what[3]
        flip = {"Lt": "Gt", "Gt": "Lt", "Le": "Ge", "Ge": "Le", "Eq": "Eq", "Ne": "Ne"}
        for x, y, o in ((a, b, op), (b, a, flip.get(op, op))):
            if not isinstance(y, int) or isinstance(y, bool):
                continue
            t = _unsym(x)
            while isinstance(t, tuple) and t and t[0] == "cast":
                t = _unsym(t[1])
            val = None
            if isinstance(t, tuple) and len(t) == 4 and t[0] == "bin":
                l = t[2]
                while isinstance(_unsym(l), tuple) and _unsym(l) and _unsym(l)[0] == "cast":
                    l = _unsym(l)[1]
                if _is_byte(l) and t[1] == "BitAnd" and t[3] == 128:
                    val = 128 if l[1][2] else 0
                elif _is_byte(l) and t[1] == "Div" and t[3] == 128:
                    val = 1 if l[1][2] else 0
            elif _is_byte(x) or (isinstance(t, tuple) and len(t) == 3 and t[0] == "byte"):
                bt = t if (isinstance(t, tuple) and t[0] == "byte") else x[1]
                # the byte itself: only thresholds that separate exactly on the continuation bit are decidable
                if (o in ("Ge", "Lt") and y == 128) or (o in ("Gt", "Le") and y == 127):
                    hi = bool(bt[2])
                    return {"Ge": hi, "Gt": hi, "Lt": not hi, "Le": not hi}[o]
            if val is not None:
                return {"Eq": val == y, "Ne": val != y, "Gt": val > y, "Lt": val < y, "Ge": val >= y, "Le": val <= y}[o]
    if what[0] == "try-ok":
        return True
    return None


def digit_form(term):
    """Canonical form of a var-int accumulator: {atom: multiplier}. `|` and `+` are both read as sums (the digits occupy
    disjoint bit ranges), `<< k` / `* 2^k` as multipliers, `b & 0x7F` / `b % 128` as the atom ('low7', b); widening casts vanish.
    Returns None when the term has another shape."""
    t = _unsym(vkey(term)) if not isinstance(term, tuple) else _unsym(term)
    if isinstance(t, int) and not isinstance(t, bool):
        return {1: t} if t else {}
    if isinstance(t, tuple) and t and t[0] == "cast":
        return digit_form(t[1])
    if isinstance(t, tuple) and len(t) == 4 and t[0] == "bin":
        op, a, b = t[1], t[2], t[3]
        if op in ("Add", "BitOr"):
            da, db = digit_form(a), digit_form(b)
            if da is None or db is None:
                return None
            out = dict(da)
            for k, v in db.items():
                out[k] = out.get(k, 0) + v
            return out
        if op in ("Mul", "Shl") and isinstance(b, int):
            da = digit_form(a)
            if da is None:
                return None
            m = b if op == "Mul" else (1 << b)
            return {k: v * m for k, v in da.items()}
        if (op == "Rem" and b == 128) or (op == "BitAnd" and b == 127):
            inner = _unsym(a)
            while isinstance(inner, tuple) and inner and inner[0] == "cast":
                inner = _unsym(inner[1])
            return {("low7", inner): 1}
        return None
    return {("atom", t): 1}


def byte(n, cont):
    return Sym(("byte", n, bool(cont)))


def _acc_ok(term, acc, b, k):
    """term == acc + ((b & 0x7F) << 7k) in any spelling (| or +, << or *, & 0x7F or % 128, either operand order)."""
    d = digit_form(term)
    want = {("atom", _unsym(vkey(acc))): 1, ("low7", _unsym(vkey(b))): 128 ** k}
    if isinstance(acc, int) and acc == 0:
        want = {("low7", _unsym(vkey(b))): 128 ** k}
    return d == want


def _env_vars(F, fid, names):
    """var ids bound by patterns with the given names anywhere in the function."""
    out = {}
    b = nbody(F, fid)

    def pat(p):
        k = p.get("k")
        if k == "Binding":
            if p["name"] in names:
                out.setdefault(p["name"], set()).add(p["var"]["id"])
            if p.get("sub"):
                pat(p["sub"])
        elif k in ("Deref", "DerefPattern"):
            pat(p["sub"])
        elif k in ("Leaf", "Variant"):
            for s in p["subs"]:
                pat(s["pat"])
        elif k == "Or":
            for q in p["pats"]:
                pat(q)
    for n in walk_all(b):
        if n.get("k") == "Match":
            for a in n["arms"]:
                pat(a["pat"])
        if n.get("k") == "Block":
            for s in n.get("stmts", []):
                if s["k"] == "Let":
                    pat(s["pat"])
    return out


def _get(env, ids):
    for i in ids or ():
        if i in env:
            return env[i]
    return None


def _ret_kind(r):
    """Classify a poll return value."""
    if not isinstance(r, Adt) or r.adt != POLL:
        return ("other", repr(r))
    if r.variant == "Pending":
        return ("pending",)
    inner = r.fields.get("0")
    k = result_kind(inner)
    if k[0] == "err":
        e = k[1]
        if isinstance(e, Adt):
            return ("err", e.variant, [e.fields[x] for x in sorted(e.fields)])
        # `err.into()` of an opaque error value (H::Error: From<io::Error>) is a kind-preserving conversion (H-fromio)
        if isinstance(e, Sym) and isinstance(e.tag, tuple) and e.tag[0] == "call" and e.tag[1].endswith("::into") and len(e.tag[2]) == 1 \
                and e.tag[2][0][0] == "sym":
            e = Sym(e.tag[2][0][1])
        return ("err-passthrough", e)
    return ("ok", k[1])


def poll_header_rules(F, R):
    """Header state of the poll decoder: the first byte becomes the control byte; each further byte b with
    length index k accumulates (b & 0x7F) << 7k into the remaining length; without continuation bit the header
    is complete and Header::new_with(control byte, remaining length) decides; with continuation bit the index
    advances while k < 3 and a fifth length byte is InvalidVarByteInt; transport Pending / error / zero-length
    read are returned as Pending / that error / IoError(UnexpectedEof)."""
    fid = poll_fn_id(F)
    ACC, CB = Sym("ACC"), Sym("CB")
    # first byte
    b0 = byte(0, False)
    pr = PollRun(F, header_state(NONE, 0, 0), [("byte", b0), ("pending",)]).run()
    ok1 = pr.outcome[0] == "returned" and _ret_kind(pr.outcome[1]) == ("pending",)
    cb, vi, acc = pr.header_fields()
    R.check(ok1 and cb == some(b0) and vi == 0 and acc == 0, "P-header", "first-byte",
            "after the first byte the header state is control_byte=%r var_idx=%r var_int=%r (expected Some(byte), 0, 0); outcome %s" % (cb, vi, acc, pr.outcome[:1]), where=fid)
    n = 0
    for k in range(4):
        for cont in (False, True):
            n += 1
            b = byte(1, cont)
            pr = PollRun(F, header_state(some(CB), k, ACC), [("byte", b), ("pending",)], new_with=err(Sym("HDRERR"))).run()
            out = _ret_kind(pr.outcome[1]) if pr.outcome[0] == "returned" else pr.outcome
            key = "k%d/%s" % (k, "cont" if cont else "last")
            if not cont:
                nw = [c for c in pr.calls if c[0] == "new_with"]
                good = len(nw) == 1 and nw[0][1] == CB and _acc_ok(nw[0][2], ACC, b, k) and out == ("err-passthrough", Sym("HDRERR"))
                R.check(good, "P-header", key,
                        "length byte %d without continuation bit: Header::new_with receives %s and poll returns %s (expected (control byte, acc | (b & 0x7F) << %d) and the header error unchanged)" % (
                            k + 1, [(repr(c[1]), repr(c[2])) for c in nw], out, 7 * k), where=fid)
            elif k < 3:
                _cb, vi, acc = pr.header_fields()
                good = out == ("pending",) and vi == k + 1 and acc is not None and _acc_ok(acc, ACC, b, k) and not [c for c in pr.calls if c[0] == "new_with"]
                R.check(good, "P-header", key,
                        "length byte %d with continuation bit: var_idx becomes %r, var_int %r, outcome %s (expected index %d, acc | (b & 0x7F) << %d, then the next read)" % (
                            k + 1, vi, acc, out, k + 1, 7 * k), where=fid)
            else:
                R.check(out[:2] == ("err", "InvalidVarByteInt"), "P-header", key,
                        "a fifth remaining-length byte gives %s (expected InvalidVarByteInt)" % (out,), where=fid)
    # transport outcomes in the header state, at the start and in the middle of the length
    for label, st in (("start", header_state(NONE, 0, 0)), ("mid", header_state(some(CB), 2, ACC))):
        for step, want in ((("pending",), ("pending",)), (("err",), ("err-passthrough", Sym("IOERR"))), (("eof",), ("err", "IoError"))):
            pr = PollRun(F, st, [step]).run()
            out = _ret_kind(pr.outcome[1]) if pr.outcome[0] == "returned" else pr.outcome
            good = out[:len(want)] == want
            if step[0] == "eof" and good:
                good = isinstance(out[2][0], Adt) and out[2][0].variant == "UnexpectedEof"
            R.check(good, "P-header", "transport/%s/%s" % (label, step[0]),
                    "transport %s in the header state (%s) gives %s" % (step[0], label, out), where=fid)
            rb = [c for c in pr.calls if c[0] == "readbuf"]
            one = len(rb) == 1 and isinstance(rb[0][2], Tup) and len(rb[0][2].items) == 1
            R.check(one, "P-header", "one-byte-reads/%s/%s" % (label, step[0]),
                    "header bytes are requested through %s (expected a ReadBuf over a 1-byte buffer: never more than the next header byte)" % (
                        [repr(c[2]) for c in rb],), where=fid)
    R.floor("P-header", "length-byte cases", n, 8)
    R.sample({"rule": "P-header", "cases": n + 7})


def poll_complete_rules(F, R):
    """After the header is complete: a header error is returned unchanged; a body-less packet is accepted only
    with remaining length 0 and reports 1 + 1 + var_idx bytes; a body packet with remaining length 0 is
    InvalidRemainingLength; otherwise the state becomes Body{total = 1 + 1 + var_idx + remaining, idx = 0,
    buffer of exactly remaining-length bytes}."""
    fid = poll_fn_id(F)
    CB, ACC = Sym("CB"), Sym("ACC")
    b = byte(1, False)
    n = 0
    for k in range(4):
        st = header_state(some(CB), k, ACC)
        # empty packet, remaining length 0
        pr = PollRun(F, st, [("byte", b)], empty=some(Sym("EMPTY")), remaining_len=0).run()
        out = _ret_kind(pr.outcome[1]) if pr.outcome[0] == "returned" else pr.outcome
        good = out[0] == "ok" and isinstance(out[1], Tup) and out[1].items[0] == 2 + k and out[1].items[2] == Sym("EMPTY")
        n += 1
        R.check(good, "P-complete", "empty/k%d" % k,
                "a body-less packet whose header used %d length byte(s) returns %s (expected Ok((%d, _, packet)): every byte read is reported)" % (k + 1, out, 2 + k), where=fid)
        # empty packet type but non-zero remaining length
        pr = PollRun(F, st, [("byte", b)], empty=some(Sym("EMPTY")), remaining_len=5).run()
        out = _ret_kind(pr.outcome[1]) if pr.outcome[0] == "returned" else pr.outcome
        R.check(out[:2] == ("err", "InvalidRemainingLength"), "P-complete", "empty-with-body/k%d" % k,
                "a body-less packet type with remaining length 5 returns %s (expected InvalidRemainingLength)" % (out,), where=fid)
        # body packet with remaining length 0
        pr = PollRun(F, st, [("byte", b)], empty=NONE, remaining_len=0).run()
        out = _ret_kind(pr.outcome[1]) if pr.outcome[0] == "returned" else pr.outcome
        R.check(out[:2] == ("err", "InvalidRemainingLength"), "P-complete", "body-zero-length/k%d" % k,
                "a packet that needs a body with remaining length 0 returns %s (expected InvalidRemainingLength)" % (out,), where=fid)
        # body packet: transition to Body
        pr = PollRun(F, st, [("byte", b), ("pending",)], empty=NONE, remaining_len=5).run()
        out = _ret_kind(pr.outcome[1]) if pr.outcome[0] == "returned" else pr.outcome
        caps = [c[1] for c in pr.calls if c[0] in ("with_capacity", "set_len")]
        rbs = [c for c in pr.calls if c[0] == "readbuf"]
        idxm = [c for c in pr.calls if c[0] == "index_mut"]
        pk = getattr(pr, "packet", None)
        stv = pk.fields.get("state") if pk is not None else None      # the caller-owned state as the evaluation left it
        good = out == ("pending",) and caps == [5, 5]
        body_ok = False
        if isinstance(stv, Adt) and stv.variant == "Body":
            f = stv.fields["0"].fields
            body_ok = f.get("total") == 2 + k + 5 and f.get("idx") == 0 and f.get("header") == Sym("HEADER") and f.get("buf") == Sym("NEWBUF")
        R.check(good and body_ok, "P-complete", "to-body/k%d" % k,
                "completing a header with %d length byte(s) and remaining length 5: buffer sizes %s, new state %r, outcome %s "
                "(expected a 5-byte buffer, Body{total: %d, idx: 0}, then a body read)" % (k + 1, caps, stv, out, 2 + k + 5), where=fid)
        # the body read targets buf[idx..] with idx = 0
        rng_ok = bool(idxm) and isinstance(idxm[-1][2], Adt) and idxm[-1][2].variant == "RangeFrom" and idxm[-1][2].fields.get("start") == 0
        R.check(rng_ok, "P-complete", "first-body-read/k%d" % k, "the first body read targets %s" % ([repr(c[2]) for c in idxm],), where=fid)
    # header error passthrough
    pr = PollRun(F, header_state(some(CB), 0, ACC), [("byte", b)], new_with=err(Sym("HDRERR"))).run()
    out = _ret_kind(pr.outcome[1]) if pr.outcome[0] == "returned" else pr.outcome
    R.check(out == ("err-passthrough", Sym("HDRERR")), "P-complete", "header-error-unchanged", "a header error is returned as %s" % (out,), where=fid)
    R.floor("P-complete", "header widths", n, 4)


def poll_body_rules(F, R):
    """Body state: each read goes into buf[idx..]; idx advances by the bytes received; Pending / transport
    error / zero-length read return Pending / that error / IoError(UnexpectedEof); block_decode runs only when
    idx == buf.len(); Ok with left-over bytes and inner EOF become InvalidRemainingLength; any other decoder
    error is returned unchanged; success returns (state.total, the buffer, packet)."""
    fid = poll_fn_id(F)
    # partial fill: 2 of 5 bytes then pending
    pr = PollRun(F, body_state(1), [("chunk", 2), ("pending",)], buf_len=5).run()
    out = _ret_kind(pr.outcome[1]) if pr.outcome[0] == "returned" else pr.outcome
    idxm = [c for c in pr.calls if c[0] == "index_mut"]
    starts = [c[2].fields.get("start") for c in idxm if isinstance(c[2], Adt) and c[2].variant == "RangeFrom"]
    bases = {repr(c[1]) for c in idxm}
    R.check(out == ("pending",) and starts == [1, 3] and bases == {"Sym(BUF)"} and not [c for c in pr.calls if c[0] == "block_decode"], "P-body", "partial-fill",
            "with idx=1, a 2-byte read and then Pending: reads target offsets %s of %s, outcome %s, block_decode called: %s "
            "(expected buf[1..] then buf[3..], Pending, no decoding before the buffer is full)" % (starts, sorted(bases), out, bool([c for c in pr.calls if c[0] == "block_decode"])), where=fid)
    # the progress is recorded in the caller-held state, not in a copy: a later poll (on this or on a re-created future) resumes
    # at offset 3, with the same buffer, header and total
    st_ = pr.packet.fields.get("state")
    body_ = st_.fields.get("0") if isinstance(st_, Adt) and st_.variant == "Body" else None
    kept = isinstance(body_, Adt) and body_.fields.get("idx") == 3 and body_.fields.get("buf") == Sym("BUF") and body_.fields.get("header") == Sym("HEADER")
    R.check(kept, "P-body", "partial-fill/progress-recorded",
            "with idx=1, a 2-byte read and then Pending the caller-held state is %s (expected Body{idx: 3, same buffer and header}: the next poll "
            "continues after the bytes already stored)" % (repr(st_)[:160],), where=fid)
    # the bytes already received stay as they are: between two reads nothing writes to the part of the buffer below idx
    muts = [c for c in pr.calls if c[0] == "buf-mutated"]
    bad_m = []
    for c in muts:
        rng = c[2]
        ok_tail = isinstance(rng, tuple) and len(rng) >= 2 and rng[1] == "RangeFrom" and any(isinstance(x, tuple) and x[0] == "start" and isinstance(x[1], int) and x[1] >= 1 for x in (rng[2] if len(rng) > 2 and isinstance(rng[2], tuple) else ()))
        if not ok_tail:
            bad_m.append((c[1], repr(rng)[:60]))
    R.check(not bad_m, "P-body", "received-bytes-kept",
            "with idx=1 the body state calls %s on the body buffer: bytes received by earlier reads are overwritten before the frame is decoded" % (bad_m[:2],), where=fid)
    for step, want in ((("pending",), ("pending",)), (("err",), ("err-passthrough", Sym("IOERR"))), (("eof",), ("err", "IoError"))):
        pr = PollRun(F, body_state(0), [step], buf_len=5).run()
        out = _ret_kind(pr.outcome[1]) if pr.outcome[0] == "returned" else pr.outcome
        good = out[:len(want)] == want
        if step[0] == "eof" and good:
            good = isinstance(out[2][0], Adt) and out[2][0].variant == "UnexpectedEof"
        R.check(good, "P-body", "transport/%s" % step[0], "transport %s in the body state gives %s" % (step[0], out), where=fid)
        # whatever the transport answered without delivering a byte, the caller-held state is as it was: the next poll resumes
        # where this one stopped (buffer, index and total intact)
        st_ = pr.packet.fields.get("state")
        body_ = st_.fields.get("0") if isinstance(st_, Adt) and st_.variant == "Body" else None
        same = isinstance(body_, Adt) and body_.fields.get("buf") == Sym("BUF") and body_.fields.get("idx") == 0 and body_.fields.get("header") == Sym("HEADER")
        R.check(same, "P-body", "transport/%s/state-unchanged" % step[0],
                "after a transport %s in the body state the caller-held state is %s (expected: unchanged)" % (step[0], repr(st_)[:140]), where=fid)
    # a transport error is returned as it is even when the header type would classify it as an EOF-class error
    # (is_eof_error is for errors of the *body decoder* running on the buffered bytes, not for the transport)
    for nread, script in ((0, [("err",)]), (2, [("chunk", 2), ("err",)])):
        pr = PollRun(F, body_state(0), script, buf_len=5, inner_eof=True).run()
        out = _ret_kind(pr.outcome[1]) if pr.outcome[0] == "returned" else pr.outcome
        R.check(out[:2] == ("err-passthrough", Sym("IOERR")), "P-body", "transport/err-eof-kind/after-%d" % nread,
                "a transport error of an EOF-class kind after %d body bytes gives %s (expected that error, unchanged)" % (nread, out), where=fid)
    # complete fill: decoder outcomes
    cases = [
        ("ok-exact", dict(decoded=ok(Sym("PACKET")), leftover=False), "ok"),
        ("ok-leftover", dict(decoded=ok(Sym("PACKET")), leftover=True), ("err", "InvalidRemainingLength")),
        ("err-inner-eof", dict(decoded=err(Sym("DECERR")), inner_eof=True), ("err", "InvalidRemainingLength")),
        ("err-other", dict(decoded=err(Sym("DECERR")), inner_eof=False), ("err-passthrough", Sym("DECERR"))),
    ]
    for name, ch, want in cases:
        pr = PollRun(F, body_state(2, total=Sym("TOTAL")), [("chunk", 3)], buf_len=5, **ch).run()
        out = _ret_kind(pr.outcome[1]) if pr.outcome[0] == "returned" else pr.outcome
        bd = [c for c in pr.calls if c[0] == "block_decode"]
        if want == "ok":
            good = out[0] == "ok" and isinstance(out[1], Tup) and out[1].items[0] == Sym("TOTAL") and out[1].items[2] == Sym("PACKET") \
                and isinstance(out[1].items[1], Sym) and out[1].items[1].tag[0] == "taken" and len(bd) == 1 and bd[0][1] == Sym("HEADER")
            R.check(good, "P-body", name, "a completely filled buffer that decodes exactly returns %s (expected Ok((state.total, the buffer, packet)))" % (out,), where=fid)
        else:
            R.check(out[:len(want)] == want and len(bd) == 1, "P-body", name,
                    "decoder outcome `%s` is reported as %s (expected %s)" % (name, out, want), where=fid)
        if name == "err-other":
            # the frame that was refused stays with the caller: after UnexpectedProtocol a broker goes on with the other family's
            # known-protocol entry point on these very bytes (C13), and polling again reports the same error
            st = pr.packet.fields.get("state")
            body = st.fields.get("0") if isinstance(st, Adt) and st.variant == "Body" else None
            kept = isinstance(body, Adt) and body.fields.get("buf") == Sym("BUF")
            R.check(kept, "P-body", "err-other/frame-kept",
                    "after a decoder error the caller-held state is %s (expected: still the Body state holding the frame's bytes)" % (repr(st)[:120],), where=fid)
    # the decoder sees the whole buffer
    pr = PollRun(F, body_state(2), [("chunk", 3)], buf_len=5).run()
    views = [c for c in pr.calls if c[0] == "index" and isinstance(c[2], Adt)]
    raw = [c for c in pr.calls if c[0] == "raw-view"]
    R.check(any(v[2].variant == "RangeFull" and v[1] == Sym("BUF") for v in views) or any(c[3] for c in raw), "P-body", "decodes-whole-buffer",
            "block_decode does not read from the whole body buffer (%s)" % ([repr(v[2]) for v in views] + [repr(c[1:]) for c in raw]), where=fid)


# ---- standalone var-int codec -------------------------------------------------------------------------------------------

def _find_loop(F, fid):
    b = nbody(F, fid)
    for n in walk_all(b):
        if n.get("k") in ("Loop", "While"):
            return b, n
    raise AnchorLost("%s: loop" % fid)


def varint_reader_rules(F, R):
    """decode_var_int evaluated as a whole on abstract byte sequences (low seven bits symbolic, continuation bit known):
    k continuation bytes followed by a final byte, k = 0..3, return Ok((sum of (b_i & 0x7F) * 128^i, k + 1)) after reading
    exactly k + 1 single bytes; four continuation bytes are InvalidVarByteInt after exactly four reads. Independent of
    how the loop is spelled; equal to the poll header state machine (P-header) because both equal this specification."""
    fid = "common::utils::decode_var_int"
    if fid not in F.fns:
        raise AnchorLost(fid)
    n = 0
    for conts in ([False], [True, False], [True, True, False], [True, True, True, False], [True, True, True, True, True, True]):
        n += 1
        reads = []

        def hook(d, res, args, node, env):
            r = res or d
            name = node["fn"].get("name")
            if name == "read_exact" or r == "common::utils::read_u8":
                k = len(reads)
                if k >= len(conts):
                    raise Undecided("more reads than supplied bytes")
                cur = byte(k, conts[k])
                if name == "read_exact":
                    buf = args[1] if len(args) > 1 else None
                    size = len(buf.items) if isinstance(buf, Tup) else 1
                    reads.append(size)
                    tgt = strip(node["args"][1])
                    while tgt.get("k") == "Call":
                        tgt = strip(tgt["args"][0])
                    if tgt.get("k") == "Var":
                        env[tgt["var"]["id"]] = Tup([cur]) if isinstance(buf, Tup) else cur
                    return ok(UNIT)
                reads.append(1)
                return ok(cur)
            return None
        pe_ = PE(F, call_hook=hook, cond_hook=byte_cond, fuel=80)
        try:
            r = pe_.call_fn(fid, [Sym("READER")])
            kk = result_kind(r)
        except Undecided as e:
            kk = ("undecided", str(e))
        key = "%d-byte%s" % (len(conts) if conts[-1] is False else 5, "" if conts[-1] is False else "-overlong")
        if R is None:
            _READER_EVAL.setdefault(id(F), []).extend(list(pe_.overflow) + ([("undecided", str(kk[1]))] if kk[0] == "undecided" else []))
            continue
        if conts[-1] is False:
            k = len(conts)
            want = {("low7", _unsym(vkey(byte(i, conts[i])))): 128 ** i for i in range(k)}
            good = kk[0] == "ok" and isinstance(kk[1], Tup) and len(kk[1].items) == 2 and kk[1].items[1] == k and \
                digit_form(kk[1].items[0]) == want and reads == [1] * k
            R.check(good, "V-reader", key,
                    "decode_var_int on %d continuation byte(s) + a final byte returns %r after reads of sizes %s "
                    "(specified: Ok((sum of (b_i & 0x7F) << 7i, %d)) after %d one-byte reads)" % (k - 1, kk[1] if len(kk) > 1 else kk, reads, k, k), where=fid)
        else:
            good = kk[0] == "err" and isinstance(kk[1], Adt) and kk[1].variant == "InvalidVarByteInt" and reads == [1, 1, 1, 1]
            R.check(good, "V-reader", key,
                    "decode_var_int on four continuation bytes gives %r after %d reads (specified: InvalidVarByteInt after four reads)" % (
                        kk[1] if len(kk) > 1 else kk, len(reads)), where=fid)
    if R is not None:
        R.floor("V-reader", "byte patterns", n, 5)


_READER_EVAL = {}


def reader_arith_events(F):
    """Overflow / shift-amount events met while decode_var_int is evaluated on its five byte patterns (every iteration count the
    loop can make): an empty list means the counters and shift amounts, which depend on the iteration count only, stay in range."""
    if id(F) not in _READER_EVAL:
        _READER_EVAL[id(F)] = []
        varint_reader_rules(F, None)
    return _READER_EVAL[id(F)]


def _digit_canon(t):
    """Canonical form (q, m, c) of a byte term of n: ((n div q) mod m) + c, m None when there is no reduction.
    None when the term has another shape."""
    if t[0] == "lin":
        return (1, None, 0) if (t[1], t[2]) == (1, 0) else None
    if t[0] == "cast":
        x = _digit_canon(t[2])
        if x is None or x[2]:
            return None
        q, m, c = x
        k = 1 << t[1]
        if m is None or m % k == 0:
            return (q, k, 0)
        return x if k % m == 0 else None
    if t[0] != "bin" or not isinstance(t[3], int):
        return None
    x = _digit_canon(t[2])
    if x is None:
        return None
    q, m, c = x
    op, k = t[1], t[3]
    if op == "Shr":
        op, k = "Div", 1 << k
    if op == "BitAnd" and k > 0 and (k & (k + 1)) == 0:
        op, k = "Rem", k + 1
    if op == "Div" and m is None and c == 0 and k > 0:
        return (q * k, None, 0)
    if op == "Rem" and c == 0 and k > 0:
        if m is None or m % k == 0:
            return (q, k, 0)
        return x if k % m == 0 else None
    if op in ("BitOr", "Add") and c == 0 and m is not None and k >= m and (op == "Add" or ((k & (k - 1)) == 0 and k % m == 0)):
        return (q, m, k)
    return None


def varint_writer_rules(F, R):
    """write_var_int as a whole function: the value n is a witnessed unknown; every comparison the function makes on a
    monotone term of n (n, n / 128, n >> 7, ...) is turned into the exact threshold on n and both sides of every threshold are
    evaluated, so the function is reconstructed piece by piece; on every piece below 2^28 it must write exactly
    var_int_len(n) bytes, byte j being ((n div 128^j) mod 128) with bit 7 set iff another byte follows -- as a term, for
    every n of the piece, whatever the spelling (loop, unrolled match, fast path, %//, &/>>), and as a value at the witness."""
    from peval import Lin, Wx, wx_term
    fid = "common::utils::write_var_int"
    f = F.fns.get(fid)
    if f is None:
        raise AnchorLost(fid)
    T = S.VARINT_THRESHOLDS
    todo = {0, 1}
    for t in T:
        todo |= {t - 1, t, t + 1}
    done, consts = {}, set()
    while todo:
        w = todo.pop()
        if w in done or w < 0 or w >= T[3]:
            continue
        log, written = [], []

        def put(v):
            if isinstance(v, Tup):
                for x in v.items:
                    put(x)
            elif isinstance(v, tuple) and v and v[0] == "bytes":
                written.extend(v[1])
            else:
                written.append(v)

        def hook(d, res, args, node, env):
            r = res or d
            name = node["fn"].get("name")
            if r == "common::utils::write_u8":
                put(args[1])
                return ok(UNIT)
            if r == "common::utils::write_bytes":
                raise Undecided("write_bytes inside write_var_int")
            if name == "write_all" and r not in F.fns:
                put(args[1])
                return ok(UNIT)
            if name in ("write", "write_vectored", "push", "extend_from_slice", "put_u8", "put_slice") and r not in F.fns and args and isinstance(args[0], Sym):
                raise Undecided("write_var_int writes through %s" % name)
            return None
        try:
            r = PE(F, call_hook=hook, fuel=400).call_fn(fid, [Sym("writer"), Lin(1, 0, w, log)])
        except Undecided as e:
            raise AnchorLost("%s cannot be evaluated at n=%d: %s" % (fid, w, e))
        done[w] = (result_kind(r)[0], written)
        for _op, c in log:
            if isinstance(c, int) and c not in consts:
                consts.add(c)
                todo |= {c - 1, c, c + 1}
    cuts = sorted(c for c in consts if 0 < c < T[3])
    bad = []
    for w in sorted(done):
        kind, written = done[w]
        lo = max([0] + [c for c in cuts if c <= w])
        hi = min([T[3]] + [c for c in cuts if c > w]) - 1          # w's piece: every comparison has one outcome on [lo, hi]
        n = next(k + 1 for k, t in enumerate(T) if w < t)
        if kind != "ok":
            bad.append((w, "returns %s" % kind))
            continue
        if len(written) != n:
            bad.append((w, "writes %d byte(s), a %d-byte variable byte integer is due" % (len(written), n)))
            continue
        if next(k + 1 for k, t in enumerate(T) if hi < t) != n:
            bad.append((w, "one piece [%d, %d] spans two widths" % (lo, hi)))
            continue
        for j, b in enumerate(written):
            cont = 128 if j < n - 1 else 0
            want_val = ((w >> (7 * j)) & 127) | cont
            if isinstance(b, int):
                # a constant byte is right only when the whole piece has this digit
                same = (lo >> (7 * j)) == (hi >> (7 * j))
                if b != want_val or not same:
                    bad.append((w, "byte %d is the constant %d" % (j, b)))
                continue
            if not isinstance(b, (Lin, Wx)):
                bad.append((w, "byte %d is %r" % (j, b)))
                continue
            if b.val() % 256 != want_val:
                bad.append((w, "byte %d is %d, expected %d" % (j, b.val() % 256, want_val)))
                continue
            cf = _digit_canon(wx_term(b))
            if cf is None:
                bad.append((w, "byte %d is the term %r, not a base-128 digit of n" % (j, wx_term(b))))
                continue
            q, m, c = cf
            top = hi // q                      # largest value of (n div q) on the piece
            good = q == 128 ** j and c == cont and (m == 128 or ((m is None or m % 128 == 0) and top < 128))
            if not good:
                bad.append((w, "byte %d is ((n div %d) mod %s) + %d on [%d, %d], expected ((n div %d) mod 128) + %d" % (j, q, m, c, lo, hi, 128 ** j, cont)))
    R.check(not bad, "V-writer", "bytes",
            "write_var_int does not write the variable byte integer of n: %s" % "; ".join("n=%d: %s" % x for x in bad[:3]),
            where=fid, detail={"breakpoints": cuts, "witnesses": len(done)})
    R.check(len(done) >= 3 * len(T), "V-writer", "anchor-lost/witnesses", "only %d witnesses evaluated" % len(done), where=fid)
    R.sample({"rule": "V-writer", "breakpoints": cuts, "witnesses": len(done)})
