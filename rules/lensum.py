"""Engine L: byte-count effect summaries of encoders and `encode_len` functions.

The effect of an `Encodable::encode` body is "writes N bytes to the writer"; `encode_len` returns N'.
Both are computed compositionally from the normalised THIR as *multilinear polynomials* over boolean
indicator atoms (some(path), is(path,Variant), default(path), true(path)) whose coefficients are linear
forms over generators (len(path), sum(path, body), varint(poly), enc(Type, path), val(path)).

A multilinear polynomial over {0,1}-valued atoms is a unique normal form, so two summaries denote the
same function of the packet value for *every* combination of present/absent fields, reason codes etc.
iff their normal forms are identical (given independent atoms; identical normal forms always imply
equality, so a reported inequality is checked once more under the atom constraints before it is raised).

Nothing is executed: this is abstract interpretation over a finite symbolic domain.
"""
import re

from facts import strip, lit_value, pp, loc
from norm import nbody, walk_all, unblock
from tables import const_eval


class Unsupported(Exception):
    pass


# ---- polynomials ---------------------------------------------------------------------------------

class Poly:
    __slots__ = ("m",)

    def __init__(self, m=None):
        self.m = {k: v for k, v in (m or {}).items() if v != 0}

    @staticmethod
    def const(c):
        return Poly({(frozenset(), None): c}) if c else Poly()

    @staticmethod
    def gen(g):
        return Poly({(frozenset(), g): 1})

    @staticmethod
    def atom(a):
        return Poly({(frozenset([a]), None): 1})

    def __add__(self, o):
        o = _P(o)
        m = dict(self.m)
        for k, v in o.m.items():
            m[k] = m.get(k, 0) + v
        return Poly(m)

    __radd__ = __add__

    def __neg__(self):
        return Poly({k: -v for k, v in self.m.items()})

    def __sub__(self, o):
        return self + (-_P(o))

    def __rsub__(self, o):
        return _P(o) - self

    def __mul__(self, o):
        o = _P(o)
        m = {}
        for (a1, g1), c1 in self.m.items():
            for (a2, g2), c2 in o.m.items():
                if g1 is not None and g2 is not None:
                    raise Unsupported("product of two symbolic lengths")
                atoms = a1 | a2
                if _contradictory(atoms):
                    continue
                k = (atoms, g1 if g1 is not None else g2)
                m[k] = m.get(k, 0) + c1 * c2
        return Poly(m)

    __rmul__ = __mul__

    def is_zero(self):
        return not self.m

    def is_const(self):
        return all(k == (frozenset(), None) for k in self.m)

    def const_value(self):
        return self.m.get((frozenset(), None), 0) if self.is_const() else None

    def key(self):
        """Hashable canonical form from which the polynomial can be rebuilt (see from_key)."""
        return tuple(sorted((((tuple(sorted(a, key=repr)), g), c) for (a, g), c in self.m.items()), key=repr))

    @staticmethod
    def from_key(key):
        return Poly({(frozenset(a), g): c for (a, g), c in key})

    def atoms(self):
        s = set()
        for (a, _g) in self.m:
            s |= a
        return s

    def subst_atom(self, atom, value):
        """Substitute a boolean value for an atom."""
        m = {}
        for (a, g), c in self.m.items():
            if atom in a:
                if not value:
                    continue
                a = a - {atom}
            k = (a, g)
            m[k] = m.get(k, 0) + c
        return Poly(m)

    def __repr__(self):
        if not self.m:
            return "0"
        parts = []
        for (a, g), c in sorted(self.m.items(), key=lambda kv: (len(kv[0][0]), repr(kv[0]))):
            fs = []
            if c != 1 or (not a and g is None):
                fs.append(str(c))
            for x in sorted(a, key=repr):
                fs.append("[%s]" % fmt_atom(x))
            if g is not None:
                fs.append(fmt_gen(g))
            parts.append("*".join(fs))
        return " + ".join(parts)


def _P(x):
    if isinstance(x, Poly):
        return x
    if isinstance(x, int):
        return Poly.const(x)
    raise Unsupported("not an integer expression: %r" % (x,))


def _contradictory(atoms):
    seen = {}
    for a in atoms:
        if a[0] == "is":
            if a[1] in seen and seen[a[1]] != a[2]:
                return True
            seen[a[1]] = a[2]
    return False


def fmt_path(p):
    return ".".join(p)


def _src_path(v):
    """'self.field...' when the written value is a place of the packet as it is -- directly, or as the alternatives of a
    conditional that all lie in the same field (`match self.qos_pid { Level1(p) | Level2(p) => p }`)."""
    if isinstance(v, PathVal):
        return fmt_path(v.path)
    if isinstance(v, Cases):
        ps = [_src_path(x) for _i, x in v.pairs]
        if ps and all(p is not None for p in ps):
            tops = {".".join(p.split(".")[:2]) for p in ps}
            if len(tops) == 1:
                return tops.pop()
    if isinstance(v, tuple) and len(v) == 2 and v[0] == "some":
        return _src_path(v[1])
    return None


def fmt_atom(a):
    if a[0] == "is":
        return "%s is %s" % (fmt_path(a[1]), a[2])
    return "%s(%s)" % (a[0], fmt_path(a[1]))


def fmt_gen(g):
    if g[0] in ("len", "val"):
        return "%s(%s)" % (g[0], fmt_path(g[1]))
    if g[0] == "sum":
        return "sum(%s, it. %s)" % (fmt_path(g[1]), g[3])
    if g[0] == "varint":
        return "varint(%s)" % g[2]
    if g[0] == "enc":
        return "enc<%s>(%s)" % (g[1].split("::")[-1], fmt_path(g[2]))
    return repr(g)


def g_len(path):
    return Poly.gen(("len", tuple(path)))


def g_val(path):
    return Poly.gen(("val", tuple(path)))


def g_sum(path, body):
    """sum over the elements of `path` of `body`; linear, so it is distributed over the monomials of
    the body to get a normal form: sum(p, a + b) = sum(p, a) + sum(p, b), sum(p, c*a) = c*sum(p, a)."""
    out = Poly()
    for (atoms, g), c in body.m.items():
        one = Poly({(atoms, g): 1})
        out = out + Poly({(frozenset(), ("sum", tuple(path), one.key(), repr(one))): c})
    return out


def g_varint(arg):
    c = arg.const_value()
    if c is not None:
        return Poly.const(1 if c < 128 else 2 if c < 16384 else 3 if c < 2097152 else 4)
    return Poly.gen(("varint", arg.key(), repr(arg)))


def g_enc(ty, path):
    return Poly.gen(("enc", ty, tuple(path)))


def ind_not(p):
    return Poly.const(1) - p


def ind_or(a, b):
    return a + b - a * b


# ---- symbolic values -------------------------------------------------------------------------------

class PathVal:
    def __init__(self, path, ty=None):
        self.path = tuple(path)
        self.ty = ty

    def __repr__(self):
        return "Path(%s)" % fmt_path(self.path)


class ConstBytes:
    def __init__(self, n):
        self.n = n


class BytesVal:
    """A byte slice whose length is the polynomial n (an element of an array of fields, ..)."""
    def __init__(self, n):
        self.n = n


class TupleVal:
    def __init__(self, items):
        self.items = items


class Cases:
    """value = items[i] under indicator inds[i]; indicators are mutually exclusive and exhaustive."""

    def __init__(self, pairs):
        self.pairs = pairs


class BoolVal:
    """A boolean whose truth is the indicator polynomial `ind`."""
    def __init__(self, ind):
        self.ind = ind


class Opaque:
    """A value the analysis does not track (flags bytes etc.). Using it as a length is an error."""

    def __init__(self, why=""):
        self.why = why


UNIT = Opaque("unit")


def as_poly(v, what=""):
    if isinstance(v, Poly):
        return v
    if isinstance(v, int) and not isinstance(v, bool):
        return Poly.const(v)
    if isinstance(v, Cases):
        tot = Poly()
        for ind, val in v.pairs:
            tot = tot + ind * as_poly(val, what)
        return tot
    raise Unsupported("integer length expected for %s, got %r" % (what, v))


def mix(ind, a, b):
    """Value `a` under indicator `ind`, else `b`."""
    def _b(x):
        if isinstance(x, BoolVal):
            return x.ind
        if isinstance(x, bool):
            return Poly.const(1 if x else 0)
        return None
    if _b(a) is not None and _b(b) is not None:
        return BoolVal(ind * _b(a) + ind_not(ind) * _b(b))
    if isinstance(a, Opaque) and isinstance(b, Opaque):
        return a
    if isinstance(a, (Poly, int)) and isinstance(b, (Poly, int)) and not isinstance(a, bool) and not isinstance(b, bool):
        return ind * _P(a) + ind_not(ind) * _P(b)
    if isinstance(a, TupleVal) and isinstance(b, TupleVal) and len(a.items) == len(b.items):
        return TupleVal([mix(ind, x, y) for x, y in zip(a.items, b.items)])
    return Cases([(ind, a), (ind_not(ind), b)])


# ---- interpreter -----------------------------------------------------------------------------------

_LEN_FNS = {
    "alloc::string::String::len", "core::str::<impl str>::len", "bytes::bytes::Bytes::len",
    "core::slice::<impl [T]>::len", "alloc::vec::Vec::<T, A>::len",
}
_PASS_THROUGH = {  # receiver-preserving views: the byte content / length is that of the receiver
    "as_bytes", "as_ref", "as_str", "deref", "borrow", "as_slice", "iter", "clone", "to_vec", "as_deref", "into_iter",
}
_WRITE_ALL = ("std::io::Write::write_all",)


class Frame:
    def __init__(self):
        self.env = {}
        self.top = None               # the function's body block: `if c { return x }` statements there are understood
        self.in_return_branch = 0


class _EarlyReturn(Exception):
    def __init__(self, value):
        self.value = value


class Interp:
    def __init__(self, F, mode):
        self.F = F
        self.mode = mode            # "write" or "value"
        self.written = Poly()
        self.depth = 0
        self.assumptions = set()
        self.trace = []             # (kind, detail) sequence of wire items in order (write mode)
        self.enums = {}             # path -> enum adt of `is(path, Variant)` atoms

    # -- entry points
    def run_fn(self, fid, args):
        f = self.F.body_fn(fid)
        if f is None or not f.get("thir"):
            raise Unsupported("no body for %s" % fid)
        body = nbody(self.F, fid)
        fr = Frame()
        params = [p for p in f["thir"]["params"]]
        # closures: first param is the closure env
        if f["kind"] == "Closure" and params and params[0].get("pat") is None:
            params = params[1:]
        if len(params) != len(args):
            raise Unsupported("arity mismatch calling %s" % fid)
        for p, a in zip(params, args):
            if p.get("pat") is None:
                continue
            self.bind(fr, p["pat"], a)
        self.depth += 1
        if self.depth > 12:
            raise Unsupported("call depth exceeded at %s" % fid)
        fr.top = unblock(body) if isinstance(body, dict) else None
        try:
            return self.eval(fr, body)
        finally:
            self.depth -= 1

    # -- patterns
    def bind(self, fr, pat, val):
        k = pat.get("k")
        if k == "Wild":
            return
        if k == "Binding":
            fr.env[pat["var"]["id"]] = val
            if pat.get("sub"):
                self.bind(fr, pat["sub"], val)
            return
        if k == "Deref":
            return self.bind(fr, pat["sub"], val)
        if k == "Leaf":
            for s in pat["subs"]:
                self.bind(fr, s["pat"], self.project(val, s["field"], s["idx"]))
            return
        if k == "Variant":
            for s in pat["subs"]:
                self.bind(fr, s["pat"], self.project(val, "%s.%s" % (pat["variant"], s["field"]), s["idx"]))
            return
        if k in ("Const", "Range"):
            return
        if k == "Or":
            return self.bind(fr, pat["pats"][0], val)
        if k in ("Array", "Slice") and not pat.get("slice"):
            subs = list(pat.get("prefix", [])) + list(pat.get("suffix", []))
            for i, q in enumerate(subs):
                if isinstance(val, TupleVal) and i < len(val.items):
                    self.bind(fr, q, val.items[i])
                elif isinstance(val, PathVal):
                    self.bind(fr, q, PathVal(val.path + (str(i),)))
                else:
                    self.bind(fr, q, Opaque("array element"))
            return
        raise Unsupported("pattern %s" % k)

    def project(self, val, name, idx=None):
        if isinstance(val, TupleVal):
            i = int(idx if idx is not None else name)
            return val.items[i]
        if isinstance(val, PathVal):
            # Option payloads share the path of the option itself
            if name in ("Some.0",):
                return PathVal(val.path)
            return PathVal(val.path + (str(name),))
        if isinstance(val, Cases):
            return Cases([(i, self.project(v, name, idx)) for i, v in val.pairs])
        if isinstance(val, Opaque):
            return val
        raise Unsupported("projection .%s of %r" % (name, val))

    # -- conditions -> indicator polynomials
    def cond(self, fr, e):
        e = unblock(e)
        k = e.get("k")
        if k == "Logical":
            a, b = self.cond(fr, e["l"]), self.cond(fr, e["r"])
            return a * b if e["op"] == "And" else ind_or(a, b)
        if k == "Unary" and e["op"] == "Not":
            return ind_not(self.cond(fr, e["e"]))
        if k == "Binary" and e["op"] in ("Eq", "Ne"):
            l, r = self.eval(fr, e["l"]), self.eval(fr, e["r"])
            ind = self.eq_ind(l, r, e)
            return ind if e["op"] == "Eq" else ind_not(ind)
        if k == "Call":
            name = e["fn"].get("name")
            d = e["fn"].get("def", "")
            if d.startswith("core::option::Option") and name in ("is_some", "is_none") and len(e["args"]) == 1:
                v = self.eval(fr, e["args"][0])
                if isinstance(v, PathVal):
                    a = Poly.atom(("some", v.path))
                    return a if name == "is_some" else ind_not(a)
            if name == "is_empty" and len(e["args"]) == 1:
                v = self.eval(fr, e["args"][0])
                if isinstance(v, PathVal):
                    return Poly.atom(("empty", v.path))
        if k == "Let":
            raise Unsupported("let-condition outside if")
        v = self.eval(fr, e)
        b = self.bool_of(v, e)
        if b is not None:
            return b
        raise Unsupported("condition %s" % pp(e)[:120])

    def bool_of(self, v, e=None):
        if isinstance(v, BoolVal):
            return v.ind
        if isinstance(v, bool):
            return Poly.const(1 if v else 0)
        if isinstance(v, PathVal) and (e is None or e.get("ty") in ("bool", "&bool", None)):
            return Poly.atom(("true", v.path))
        if isinstance(v, Cases):
            tot = Poly()
            for ind, x in v.pairs:
                bx = self.bool_of(x)
                if bx is None:
                    return None
                tot = tot + ind * bx
            return tot
        return None

    def eq_ind(self, l, r, e):
        for a, b in ((l, r), (r, l)):
            if isinstance(a, PathVal):
                if isinstance(b, tuple) and b and b[0] == "variant":
                    return Poly.atom(("is", a.path, b[1]))
                if isinstance(b, tuple) and b and b[0] == "default":
                    return Poly.atom(("default", a.path))
                if isinstance(b, tuple) and b and b[0] == "none":
                    return ind_not(Poly.atom(("some", a.path)))
                if isinstance(b, bool):
                    t = Poly.atom(("true", a.path))
                    return t if b else ind_not(t)
        raise Unsupported("comparison %s" % pp(e)[:120])

    # -- expressions
    def eval(self, fr, e):
        if e is None:
            return UNIT
        k = e.get("k")
        m = getattr(self, "e_" + k, None)
        if m is None:
            raise Unsupported("expression kind %s at %s" % (k, loc(e)))
        return m(fr, e)

    def e_Lit(self, fr, e):
        v = lit_value(e)
        if isinstance(v, bool):
            return v
        if isinstance(v, int):
            return Poly.const(v)
        if isinstance(v, tuple) and v[0] in ("bytes", "str"):
            return ConstBytes(len(v[1]) if v[0] == "bytes" else len(v[1].encode()))
        return Opaque("literal")

    def e_NamedConst(self, fr, e):
        return self.e_Lit(fr, e)

    def e_Zst(self, fr, e):
        return Opaque("zst")

    def e_Var(self, fr, e):
        vid = e["var"]["id"]
        if vid in fr.env:
            return fr.env[vid]
        raise Unsupported("unbound variable %s" % e["var"]["name"])

    e_Upvar = e_Var

    def e_Borrow(self, fr, e):
        return self.eval(fr, e["e"])

    e_Deref = e_Borrow
    e_PtrCoerce = e_Borrow

    def e_Field(self, fr, e):
        base = self.eval(fr, e["lhs"])
        nm = e["name"]
        if e.get("variant"):
            nm = "%s.%s" % (e["variant"], nm)
        return self.project(base, nm, e.get("idx"))

    def e_Tuple(self, fr, e):
        return TupleVal([self.eval(fr, x) for x in e["items"]])

    def e_Cast(self, fr, e):
        v = self.eval(fr, e["e"])
        if isinstance(v, (Poly, int)) and not isinstance(v, bool):
            # integer casts inside the valid domain (lengths <= 65535 as u16) are value-preserving
            if e["ty"] in ("u16", "u8") and not (isinstance(v, Poly) and v.is_const()):
                self.assumptions.add("`len as %s` is exact for lengths in the valid domain" % e["ty"])
            return v
        if isinstance(v, PathVal):
            return PathVal(v.path)
        if isinstance(v, BoolVal) and e.get("ty") in ("u8", "u16", "u32", "u64", "usize"):
            return v.ind                      # `flag as usize`: 1 when the flag holds
        if isinstance(v, bool) and e.get("ty") in ("u8", "u16", "u32", "u64", "usize"):
            return Poly.const(int(v))
        return v

    def e_Adt(self, fr, e):
        adt = e["adt"]
        if adt == "core::option::Option" and e["variant"] == "None":
            return ("none",)
        if adt == "core::option::Option" and e["variant"] == "Some" and e["fields"]:
            return ("some", self.eval(fr, e["fields"][0]["e"]))
        a = self.F.adts.get(adt)
        if a is not None and a["kind"] == "enum" and not e["fields"]:
            return ("variant", e["variant"], adt)
        for f in e["fields"]:
            self.eval(fr, f["e"])
        if adt == "core::result::Result" and e["variant"] == "Ok":
            return self.eval(fr, e["fields"][0]["e"]) if e["fields"] else UNIT
        return Opaque("adt %s" % adt)

    def e_Binary(self, fr, e):
        op = e["op"]
        if op in ("Add", "Sub", "Mul"):
            a = as_poly(self.eval(fr, e["l"]), pp(e["l"]))
            b = as_poly(self.eval(fr, e["r"]), pp(e["r"]))
            if op in ("Add", "Mul") and e.get("ty") in ("u8", "u16") and not (a.is_const() and b.is_const()):
                # a field may be 65,535 bytes long: `2 + len as u16` wraps (or panics) inside the valid domain
                raise Unsupported("length arithmetic `%s` is carried out in %s and can overflow for lengths of the valid domain" % (pp(e)[:80], e["ty"]))
            return {"Add": a + b, "Sub": a - b, "Mul": None}[op] if op != "Mul" else a * b
        if op in ("Eq", "Ne"):
            try:
                return BoolVal(self.cond(fr, e))
            except Unsupported:
                pass
        # bit twiddling / comparisons produce values that are never lengths
        self.eval_quiet(fr, e["l"])
        self.eval_quiet(fr, e["r"])
        return Opaque("binary %s" % op)

    def eval_quiet(self, fr, e):
        w0, t0, env0 = self.written, len(self.trace), dict(fr.env)
        try:
            return self.eval(fr, e)
        except Unsupported:
            if any(n.get("k") == "Call" and self.is_writer_call(n) for n in walk_all(e)):
                raise
            # abandon the evaluation without leaving half-applied effects behind
            self.written = w0
            del self.trace[t0:]
            fr.env = env0
            return Opaque("untracked")

    def e_Logical(self, fr, e):
        try:
            return BoolVal(self.cond(fr, e))
        except Unsupported:
            return Opaque("logical")

    def e_Unary(self, fr, e):
        if e["op"] == "Not":
            try:
                return BoolVal(self.cond(fr, e))
            except Unsupported:
                pass
        self.eval_quiet(fr, e["e"])
        return Opaque("unary")

    def e_Try(self, fr, e):
        return self.eval(fr, e["e"])

    def e_Await(self, fr, e):
        return self.eval(fr, e["e"])

    def e_Return(self, fr, e):
        if getattr(fr, "in_return_branch", 0) > 0:
            v = self.eval(fr, e["e"]) if e.get("e") is not None else UNIT
            raise _EarlyReturn(v)
        raise Unsupported("explicit return at %s" % loc(e))

    def e_Closure(self, fr, e):
        return ("closure", e["def"], fr)

    def e_Block(self, fr, e):
        stmts = e.get("stmts", [])
        for i_, s in enumerate(stmts):
            # `if c { ..; return x; }` as a statement of the function's own body: the function is
            # `if c { ..; x } else { rest of the body }`
            if e is fr.top and s.get("k") != "Let" and isinstance(s.get("e"), dict):
                cand = unblock(s["e"])
                if cand.get("k") == "If" and not cand.get("else") and cand["cond"].get("k") != "Let" and \
                        any(y.get("k") == "Return" for y in walk_all(cand["then"])) and unblock(cand["then"]).get("ty") in ("!", None, "()") :
                    ind = self.cond(fr, cand["cond"])
                    rest = {"k": "Block", "stmts": stmts[i_ + 1:], "expr": e.get("expr"), "ty": e.get("ty")}

                    def then_fn():
                        fr.in_return_branch += 1
                        try:
                            self.eval(fr, cand["then"])
                        except _EarlyReturn as r:
                            return r.value
                        finally:
                            fr.in_return_branch -= 1
                        raise Unsupported("branch with a return does not always return at %s" % loc(cand))

                    def else_fn():
                        old = fr.top
                        fr.top = rest
                        try:
                            return self.e_Block(fr, rest)
                        finally:
                            fr.top = old
                    return self.fork(fr, ind, then_fn, else_fn)
        for s in e.get("stmts", []):
            se = s.get("e") or s.get("init") or {}
            if any(x.split("::")[-1].startswith("debug_assert") for x in (se.get("exp") or [])):
                self.trace.append(("debug_assert", loc(se)))
                continue
            if s["k"] == "Let":
                if s.get("init") and self.mode in ("write", "value") and not self._touches_writer(s["init"]):
                    # a local computed without touching the writer (a flags byte, a boolean): when it cannot be summarised it is
                    # an unknown value -- using it as a length later is still an error
                    try:
                        st_ = (self.written, len(self.trace))
                        init = self.eval(fr, s["init"])
                    except Unsupported as ex_:
                        self.written = st_[0]
                        del self.trace[st_[1]:]
                        init = Opaque("unsummarised local: %s" % ex_)
                else:
                    init = self.eval(fr, s["init"]) if s.get("init") else Opaque("uninit")
                if isinstance(init, tuple) and init and init[0] == "checked" and s["pat"].get("k") == "Variant" and s["pat"].get("variant") == "Some":
                    # `let Some(rest) = a.checked_sub(b) else { refuse }`: on the accepting path rest = a - b
                    self.bind(fr, s["pat"]["subs"][0]["pat"], init[1])
                    continue
                self.bind(fr, s["pat"], init)
            else:
                self.eval(fr, s["e"])
        if e.get("expr"):
            return self.eval(fr, e["expr"])
        return UNIT

    def e_Assign(self, fr, e):
        l = strip(e["l"])
        v = self.eval_quiet(fr, e["r"])
        if l.get("k") == "Var":
            fr.env[l["var"]["id"]] = v
            return UNIT
        raise Unsupported("assignment to %s" % pp(l))

    def e_AssignOp(self, fr, e):
        l = strip(e["l"])
        if l.get("k") != "Var":
            raise Unsupported("compound assignment to %s" % pp(l))
        vid = l["var"]["id"]
        if e["op"] == "AddAssign":
            cur = fr.env.get(vid)
            fr.env[vid] = as_poly(cur, pp(l)) + as_poly(self.eval(fr, e["r"]), pp(e["r"]))
        else:
            self.eval_quiet(fr, e["r"])
            fr.env[vid] = Opaque("bit-twiddled")
        return UNIT

    # -- control flow: fork, run, merge under an indicator
    def fork(self, fr, ind, then_fn, else_fn):
        base_env = dict(fr.env)
        w0 = self.written
        t0 = len(self.trace)
        self.written = Poly()
        fr.env = dict(base_env)
        v1 = then_fn()
        w1, env1 = self.written, fr.env
        tr1 = self.trace[t0:]
        del self.trace[t0:]
        self.written = Poly()
        fr.env = dict(base_env)
        v2 = else_fn()
        w2, env2 = self.written, fr.env
        tr2 = self.trace[t0:]
        del self.trace[t0:]
        self.written = w0 + ind * w1 + ind_not(ind) * w2
        if tr1 or tr2:
            self.trace.append(("cond", repr(ind), tr1, tr2))
        env = {}
        for vid in base_env:
            a, b = env1.get(vid), env2.get(vid)
            if a is b:
                env[vid] = a
            else:
                try:
                    env[vid] = mix(ind, a, b)
                except Unsupported:
                    env[vid] = Opaque("diverged")
        fr.env = env
        if isinstance(v1, Opaque) and isinstance(v2, Opaque):
            return UNIT
        return mix(ind, v1, v2)

    def e_If(self, fr, e):
        c = e["cond"]
        if c.get("k") == "Let":
            scrut = self.eval(fr, c["e"])
            ind, binder = self.match_ind(fr, scrut, c["pat"])
            return self.fork(fr, ind,
                             lambda: (binder(), self.eval(fr, e["then"]))[1],
                             lambda: self.eval(fr, e["else"]) if e.get("else") else UNIT)
        ind = self.cond(fr, c)
        return self.fork(fr, ind, lambda: self.eval(fr, e["then"]),
                         lambda: self.eval(fr, e["else"]) if e.get("else") else UNIT)

    def match_ind(self, fr, scrut, pat):
        """Indicator that `scrut` matches `pat`, and a closure performing the bindings."""
        p = pat
        while p.get("k") == "Deref":
            p = p["sub"]
        k = p.get("k")
        if k in ("Wild",):
            return Poly.const(1), (lambda: None)
        if k == "Binding" and not p.get("sub"):
            return Poly.const(1), (lambda: self.bind(fr, p, scrut))
        if k == "Or":
            tot = Poly()
            for q in p["pats"]:
                i, _b = self.match_ind(fr, scrut, q)
                tot = tot + i
            # or-patterns binding the same names to the payload of different variants
            return tot, (lambda: self.bind_or(fr, p, scrut))
        if k == "Variant" and p.get("adt") == "core::option::Option" and not isinstance(scrut, PathVal):
            cases = self.opt_cases(scrut)
            if cases is not None:
                want_some = p["variant"] == "Some"
                ind = Poly()
                payloads = []
                for i, v in cases:
                    is_some = isinstance(v, tuple) and v and v[0] == "some"
                    if is_some == want_some:
                        ind = ind + i
                        if is_some:
                            payloads.append((i, v[1]))

                def bind_payload():
                    if want_some and p.get("subs"):
                        val = payloads[0][1] if len(payloads) == 1 else (Cases(payloads) if payloads else Opaque("no payload"))
                        self.bind(fr, p["subs"][0]["pat"], val)
                return ind, bind_payload
        if k == "Variant" and not isinstance(scrut, PathVal):
            # a computed enum value: the constant / case split produced by inlining a helper such as `self.body_kind()`
            def ind_of(v):
                if isinstance(v, tuple) and len(v) == 3 and v[0] == "variant":
                    return Poly.const(1 if (v[1] == p["variant"] and v[2] == p["adt"]) else 0)
                if isinstance(v, Cases):
                    tot = Poly()
                    for i, x in v.pairs:
                        tot = tot + i * ind_of(x)
                    return tot
                raise Unsupported("match on non-place value")
            if p.get("subs"):
                raise Unsupported("payload pattern on a computed enum value")
            return ind_of(scrut), (lambda: None)
        if k == "Variant":
            if not isinstance(scrut, PathVal):
                raise Unsupported("match on non-place value")
            if p["adt"] == "core::option::Option":
                a = Poly.atom(("some", scrut.path))
                ind = a if p["variant"] == "Some" else ind_not(a)
            else:
                ind = Poly.atom(("is", scrut.path, p["variant"]))
                self.enums[scrut.path] = p["adt"]
            return ind, (lambda: self.bind(fr, p, scrut))
        if k == "Const":
            b = self.bool_of(scrut)
            v = p.get("val")
            if b is not None and isinstance(v, bool):
                return (b if v else ind_not(b)), (lambda: None)
            raise Unsupported("constant pattern in length-relevant match")
        if k == "Leaf" and isinstance(scrut, TupleVal):
            tot = Poly.const(1)
            binders = []
            for sub in p["subs"]:
                i, bnd = self.match_ind(fr, scrut.items[int(sub["idx"])], sub["pat"])
                tot = tot * i
                binders.append(bnd)
            return tot, (lambda: [bb() for bb in binders])
        raise Unsupported("pattern kind %s in match" % k)

    def opt_value_or_zero(self, item):
        cases = self.opt_cases(item)
        if cases is None:
            return item
        tot = Poly()
        for i, v in cases:
            if v[0] == "some":
                tot = tot + i * as_poly(v[1], "optional length")
        return tot

    def opt_cases(self, v):
        """[(indicator, ("none",) | ("some", payload))] for a computed Option value, None if it is not one."""
        if isinstance(v, tuple) and v and v[0] in ("none", "some"):
            return [(Poly.const(1), v)]
        if isinstance(v, Cases):
            out = []
            for i, x in v.pairs:
                sub = self.opt_cases(x)
                if sub is None:
                    return None
                out += [(i * j, y) for j, y in sub]
            return out
        return None

    def bind_or(self, fr, p, scrut):
        # bind through the first alternative; payload paths are per-variant, so mark them generically
        first = p["pats"][0]
        while first.get("k") == "Deref":
            first = first["sub"]
        self.bind(fr, first, scrut)

    def e_Match(self, fr, e):
        if e.get("src") != "Normal":
            raise Unsupported("match source %s" % e.get("src"))
        scrut = self.eval(fr, e["scrut"])
        arms = e["arms"]

        def rec(i, remaining):
            if i == len(arms):
                return UNIT
            arm = arms[i]
            if arm.get("guard"):
                raise Unsupported("match guard")
            ind, binder = self.match_ind(fr, scrut, arm["pat"])
            if i == len(arms) - 1:
                binder()
                return self.eval(fr, arm["body"])
            # conditional on not having matched earlier arms: arms are disjoint variant sets here
            return self.fork(fr, ind, lambda: (binder(), self.eval(fr, arm["body"]))[1], lambda: rec(i + 1, None))
        return rec(0, None)

    def e_For(self, fr, e):
        it = self.eval(fr, e["iter"])
        elem = PathVal(("$it",))
        if isinstance(it, tuple) and it and it[0] == "mapped" and isinstance(it[1], PathVal):
            # `for x in path.iter().map(f)`: one iteration per element of path; x is f(element)
            try:
                elem = self.apply_fn(fr, it[2], [PathVal(("$it",))])
            except Unsupported:
                elem = Opaque("mapped element")
            it = it[1]
        if isinstance(it, TupleVal):
            for item in it.items:
                saved_env = dict(fr.env)
                self.bind(fr, e["pat"], item)
                self.eval(fr, e["body"])
            return UNIT
        if not isinstance(it, PathVal):
            raise Unsupported("for loop over %r" % (it,))
        w0 = self.written
        t0 = len(self.trace)
        self.written = Poly()
        saved = dict(fr.env)
        self.bind(fr, e["pat"], elem)
        # integer accumulators updated in the body (`total += 3 + filter.len()`): run the body with the
        # accumulator at a fresh base value; the increment must not depend on the base
        assigned = set()
        for n in walk_all(e["body"]):
            if n.get("k") in ("Assign", "AssignOp"):
                l = strip(n["l"])
                if l.get("k") == "Var" and l["var"]["id"] in saved:
                    assigned.add(l["var"]["id"])
        bases = {}
        for vid in assigned:
            if isinstance(saved[vid], (Poly, int)) and not isinstance(saved[vid], bool):
                bases[vid] = Poly.gen(("val", ("$base", str(vid))))
                fr.env[vid] = bases[vid]
        self.eval(fr, e["body"])
        body_w = self.written
        tr = self.trace[t0:]
        del self.trace[t0:]
        deltas = {}
        for vid in saved:
            if fr.env.get(vid) is not saved[vid]:
                if vid in bases and isinstance(fr.env.get(vid), Poly):
                    d = fr.env[vid] - bases[vid]
                    if any(g is not None and g[0] == "val" and g[1][0] == "$base" for (_a, g) in d.m):
                        raise Unsupported("accumulator update depends on its own value")
                    deltas[vid] = d
                else:
                    raise Unsupported("loop-carried variable in for loop")
        fr.env = saved
        for vid, d in deltas.items():
            fr.env[vid] = _P(saved[vid]) + g_sum(it.path, d)
        self.written = w0 + g_sum(it.path, body_w)
        if tr:
            self.trace.append(("each", fmt_path(it.path), tr))
        return UNIT

    def e_While(self, fr, e):
        raise Unsupported("while loop at %s" % loc(e))

    def e_Loop(self, fr, e):
        raise Unsupported("loop at %s" % loc(e))

    # -- calls
    def is_writer_call(self, n):
        d = (n.get("fn") or {}).get("def", "")
        return d in _WRITE_ALL or d.startswith("common::utils::write_")

    def e_Call(self, fr, e):
        fn = e["fn"]
        d = fn.get("def", "")
        res = fn.get("res") or d
        name = fn.get("name")
        args = e["args"]
        if not d and e.get("fun") is not None:
            return self.call_value(fr, e)
        # io::Write::write_all(writer, bytes): the effect
        if d in _WRITE_ALL:
            n = self.length_of(fr, args[1])
            self.written = self.written + n
            self.trace.append(("bytes", repr(n)))
            return UNIT
        if d == "common::utils::write_var_int":
            arg = as_poly(self.eval(fr, args[1]), "write_var_int argument")
            self.written = self.written + g_varint(arg)
            self.trace.append(("item", "write_var_int", None, None, repr(arg)[:200]))
            self.assumptions.add("write_var_int(n) writes exactly var_int_len(n) bytes (C15 T-varint: base-128 groups, stop at quotient 0)")
            return UNIT
        tr = fn.get("trait") or ""
        if tr.endswith("types::Encodable") and name in ("encode", "encode_len"):
            if fn.get("self_ty") in getattr(self, "tymap", {}):
                fn = dict(fn, self_ty=self.tymap[fn["self_ty"]])       # `properties: &P` inside a generic helper
            recv = self.eval(fr, args[0])
            if not isinstance(recv, PathVal):
                raise Unsupported("Encodable call on %r" % (recv,))
            ty = fn.get("self_ty") or "?"
            g = g_enc(ty, recv.path)
            if name == "encode":
                self.written = self.written + g
                self.trace.append(("enc", ty.split("::")[-1], fmt_path(recv.path)))
                return UNIT
            return g
        if d == "alloc::vec::Vec::<T, A>::push" and self.mode == "write":
            self.eval_quiet(fr, args[1])
            self.written = self.written + 1
            self.trace.append(("push", pp(strip(args[1]))))
            return UNIT
        if d == "common::utils::total_len":
            arg = as_poly(self.eval(fr, args[0]), "total_len argument")
            self.trace.append(("total_len", repr(arg)))
            return ("totlen", arg)
        if d == "common::utils::var_int_len":
            return ("varlen", as_poly(self.eval(fr, args[0]), "var_int_len argument"))
        if d.startswith("core::result::Result") and name in ("expect", "unwrap") \
                or d.startswith("core::option::Option") and name in ("expect", "unwrap"):
            v = self.eval(fr, args[0])
            if isinstance(v, tuple) and v and v[0] == "varlen":
                return g_varint(v[1])
            return v
        if res in _LEN_FNS or d in _LEN_FNS:
            return self.length_of(fr, args[0], count_ok=True)
        if name == "value" and d == "v5::types::VarByteInt::value":
            v = self.eval(fr, args[0])
            if isinstance(v, PathVal):
                return g_val(v.path)
        if name == "default" and tr.endswith("default::Default") and not args:
            return ("default",)
        if name in _PASS_THROUGH and args and len(args) == 1:
            return self.eval(fr, args[0])
        if name == "map" and tr.endswith("iterator::Iterator") and len(args) == 2:
            src = self.eval(fr, args[0])
            clo = self.eval(fr, args[1])
            if isinstance(src, (PathVal, TupleVal)):
                return ("mapped", src, clo)
        if d.startswith("core::option::Option") and name == "map" and len(args) == 2:
            optv = self.eval(fr, args[0])
            f = self.eval(fr, args[1])
            if isinstance(optv, PathVal):
                a_ = Poly.atom(("some", optv.path))
                cases = [(a_, ("some", PathVal(optv.path))), (ind_not(a_), ("none",))]
            else:
                cases = self.opt_cases(optv)
            if cases is not None:
                out = []
                for i, v in cases:
                    out.append((i, ("some", self.apply_fn(fr, f, [v[1]], args[1])) if v[0] == "some" else ("none",)))
                return out[0][1] if len(out) == 1 else Cases(out)
        if d.startswith("core::option::Option") and name == "filter" and len(args) == 2:
            optv = self.eval(fr, args[0])
            f = self.eval(fr, args[1])
            if isinstance(optv, PathVal):
                a_ = Poly.atom(("some", optv.path))
                cases = [(a_, ("some", PathVal(optv.path))), (ind_not(a_), ("none",))]
            else:
                cases = self.opt_cases(optv)
            if cases is not None:
                out = []
                for i, v in cases:
                    if v[0] != "some":
                        out.append((i, v))
                        continue
                    keep = self.bool_of(self.apply_fn(fr, f, [v[1]], args[1]))
                    if keep is None:
                        raise Unsupported("Option::filter predicate is not a condition")
                    out.append((i * keep, v))
                    out.append((i * ind_not(keep), ("none",)))
                out = [(i, v) for i, v in out if not i.is_zero()]
                return out[0][1] if len(out) == 1 else Cases(out)
        if d.startswith("core::bool::") and name in ("then_some", "then") and len(args) == 2:
            c_ = self.bool_of(self.eval(fr, args[0]))
            if c_ is not None:
                pay = self.eval(fr, args[1])
                if name == "then":
                    pay = self.apply_fn(fr, pay, [], args[1])
                return Cases([(c_, ("some", pay)), (ind_not(c_), ("none",))])
        if d.startswith("core::option::Option") and name in ("unwrap_or", "unwrap_or_default") and len(args) in (1, 2):
            optv = self.eval(fr, args[0])
            dflt = self.eval(fr, args[1]) if len(args) == 2 else Poly.const(0)
            cases = self.opt_cases(optv) if not isinstance(optv, PathVal) else None
            if cases is not None:
                try:
                    tot = Poly()
                    for i, v in cases:
                        tot = tot + i * as_poly(v[1] if v[0] == "some" else dflt, "unwrap_or")
                    return tot
                except Unsupported:
                    pass
        if name in ("add", "sub") and tr.endswith(("ops::arith::Add", "ops::arith::Sub")) and len(args) == 2:
            a_ = as_poly(self.eval(fr, args[0]), "operand")        # `usize + &usize` and the like
            b_ = as_poly(self.eval(fr, args[1]), "operand")
            return a_ + b_ if name == "add" else a_ - b_
        if name == "flatten" and tr.endswith("iterator::Iterator") and len(args) == 1:
            src = self.eval(fr, args[0])
            if isinstance(src, TupleVal):
                return ("flatten", src)
        if name == "fold" and tr.endswith("iterator::Iterator") and len(args) == 3:
            src = self.eval(fr, args[0])
            acc = self.eval(fr, args[1])
            f = self.eval(fr, args[2])
            items = None
            optional = False
            if isinstance(src, tuple) and src and src[0] == "flatten":
                items, optional = src[1].items, True
            elif isinstance(src, TupleVal):
                items = src.items
            if isinstance(src, PathVal) and isinstance(f, tuple) and f and f[0] == "closure":
                # `path.iter().fold(init, |acc, item| acc + g(item))` == init + sum over the elements of g: the step is applied to a
                # fresh accumulator symbol and must be that symbol plus something that does not mention it
                A = g_val(("$acc",))
                step = as_poly(self.apply_fn(fr, f, [A, PathVal(("$it",))], args[2]), "fold step")
                g = step - A
                if "$acc" in repr(g):
                    raise Unsupported("fold step is not `accumulator + term`")
                return as_poly(acc, "fold initial value") + g_sum(src.path, g)
            if items is not None:
                for item in items:
                    if optional and self.opt_cases(item) is not None:
                        new = Poly()
                        for i, v in self.opt_cases(item):
                            if v[0] == "some":
                                new = new + i * as_poly(self.apply_fn(fr, f, [acc, v[1]], args[2]), "fold step")
                            else:
                                new = new + i * as_poly(acc, "fold accumulator")
                        acc = new
                    else:
                        acc = self.apply_fn(fr, f, [acc, item], args[2])
                return acc
        if d.startswith("core::option::Option") and name == "map_or" and len(args) == 3:
            optv = self.eval(fr, args[0])
            dflt = self.eval(fr, args[1])
            f = self.eval(fr, args[2])
            if isinstance(optv, PathVal):
                cases = [(Poly.atom(("some", optv.path)), ("some", PathVal(optv.path))), (ind_not(Poly.atom(("some", optv.path))), ("none",))]
            else:
                cases = self.opt_cases(optv)
            if cases is None:
                raise Unsupported("map_or on %r" % (optv,))
            tot = Poly()
            try:
                for i, v in cases:
                    if v[0] == "some":
                        tot = tot + i * as_poly(self.apply_fn(fr, f, [v[1]], args[2]), "map_or closure")
                    else:
                        tot = tot + i * as_poly(dflt, "map_or default")
            except Unsupported:
                return Opaque("map_or of non-length values")
            return tot
        if name == "sum" and tr.endswith("iterator::Iterator") and len(args) == 1:
            return self.eval_sum(fr, args[0])
        if name in ("try_for_each", "for_each") and tr.endswith("iterator::Iterator") and len(args) == 2:
            # `path.iter().try_for_each(|item| { writes })`: the same effect as `for item in &path { writes }`
            src = self.eval(fr, args[0])
            clo = self.eval(fr, args[1])
            if isinstance(src, TupleVal) and isinstance(clo, tuple) and clo[0] == "closure":
                for item in src.items:          # a fixed array of values: one application per element, in order
                    self.apply_fn(fr, clo, [item], args[1])
                return UNIT
            if isinstance(src, PathVal) and isinstance(clo, tuple) and clo[0] == "closure":
                f = self.F.body_fn(clo[1])
                params = [q for q in f["thir"]["params"]]
                if f["kind"] == "Closure" and params and params[0].get("pat") is None:
                    params = params[1:]
                if len(params) != 1:
                    raise Unsupported("closure arity in %s" % name)
                cfr = Frame()
                cfr.env = dict(clo[2].env)
                self.bind(cfr, params[0]["pat"], PathVal(("$it",)))
                w0, t0 = self.written, len(self.trace)
                self.written = Poly()
                self.depth += 1
                try:
                    self.eval(cfr, nbody(self.F, clo[1]))
                finally:
                    self.depth -= 1
                body_w = self.written
                tr_ = self.trace[t0:]
                del self.trace[t0:]
                self.written = w0 + g_sum(src.path, body_w)
                if tr_:
                    self.trace.append(("each", fmt_path(src.path), tr_))
                return UNIT
            raise Unsupported("%s over %r" % (name, src))
        if name in ("from", "into") and len(args) == 1:
            if (args[0].get("ty") or "").lstrip("&") == "bool" and (e.get("ty") or "") in ("u8", "u16", "u32", "u64", "usize"):
                bv = self.eval(fr, args[0])
                if isinstance(bv, BoolVal):
                    return bv.ind                   # `usize::from(flag)`: 1 when the flag holds
                if isinstance(bv, bool):
                    return Poly.const(int(bv))
            if (args[0].get("ty") or "").lstrip("&") in ("u8", "u16", "u32", "u64", "usize"):
                return self.eval(fr, args[0])       # integer widening: problems inside are problems of the length
            return self.eval_quiet(fr, args[0])
        # crate-local functions: inline
        callee = self.F.fns.get(res)
        if callee is not None and fn.get("krate") == self.F.data["crate"]:
            if res in ("common::utils::write_u8", "common::utils::write_u16", "common::utils::write_u32") and len(args) == 2:
                # the value written does not influence how many bytes are written: whatever computes it is irrelevant here
                vals = [self.eval(fr, args[0]), self.eval_quiet(fr, args[1])]
            else:
                vals = [self.eval(fr, a) for a in args]
            # which concrete types the callee's type parameters stand for at this call (for trait calls inside generic helpers)
            tm = {}
            for q, a in zip([q for q in callee["thir"]["params"]], args):
                pt = (q.get("ty") or "").replace("&mut ", "").replace("&", "").strip()
                at = (a.get("ty") or "").replace("&mut ", "").replace("&", "").strip()
                if pt and at and pt.isidentifier() and len(pt) <= 3 and pt != at:
                    tm[pt] = getattr(self, "tymap", {}).get(at, at)
            old_tm = getattr(self, "tymap", {})
            self.tymap = tm
            try:
                return self._inline_local(fr, e, res, name, args, vals)
            finally:
                self.tymap = old_tm
        if callee is None and fn.get("res_kind") == "Unresolved" and fn.get("krate") == self.F.data["crate"] and len(args) == 1:
            # a method of a private crate trait called on a type parameter (`code.byte()`): when every implementation, applied
            # to a place, returns that very place (`self as u8`, `*self`), the call carries the value
            recv = self.eval(fr, args[0])
            if isinstance(recv, PathVal):
                outs = []
                for imp in self.F.impls:
                    if imp.get("trait") == fn.get("trait"):
                        for it in imp["items"]:
                            if it["name"] == name and it["def"] in self.F.fns:
                                try:
                                    outs.append(self.run_fn(it["def"], [PathVal(recv.path)]))
                                except Unsupported:
                                    outs.append(None)
                if outs and all(isinstance(o, PathVal) and o.path == recv.path for o in outs):
                    return PathVal(recv.path)
        # pure foreign helpers with no writer argument
        for a in args:
            self.eval_quiet(fr, a)
        if any(self.mentions_writer(fr, a) for a in args):
            raise Unsupported("unknown callee %s takes the writer" % res)
        return Opaque("call %s" % res)

    def _inline_local(self, fr, e, res, name, args, vals):
        if True:
            fn = e["fn"]
            if res.startswith("common::utils::write_") and len(args) == 2:
                # one wire item: remember what is written (constant or source expression) and from where.
                # The primitives' effects are the facts established by T-prims (evaluated), not re-derived from their bodies:
                # write_u8 / write_u16 / write_u32 write 1 / 2 / 4 bytes, write_bytes writes 2 + len(data).
                fixed = {"write_u8": 1, "write_u16": 2, "write_u32": 4}.get(name)
                if fixed is not None:
                    self.written = self.written + Poly.const(fixed)
                    r = UNIT
                elif name == "write_bytes":
                    self.written = self.written + Poly.const(2) + self.length_of(fr, args[1])
                    r = UNIT
                else:
                    t0 = len(self.trace)
                    r = self.run_fn(res, vals)
                    del self.trace[t0:]
                from tables import const_eval as _ce
                cv = _ce(args[1])
                if cv is None and isinstance(vals[1], tuple) and len(vals[1]) == 3 and vals[1][0] == "variant":
                    # `id as u8` where `id` is a parameter of a helper bound to an enum constant at this call
                    a_ = self.F.adts.get(vals[1][2])
                    if a_ is not None:
                        for vv in a_["variants"]:
                            if vv["name"] == vals[1][1]:
                                cv = vv.get("discr")
                src = vals[1]
                self.trace.append(("item", name, cv, _src_path(src), pp(strip(args[1]))[:120]))
                return r
            return self.run_fn(res, vals)

    def mentions_writer(self, fr, a):
        a = strip(a)
        return a.get("k") == "Var" and a["var"]["name"] in ("writer", "buf") and "Write" in (a.get("ty") or "")

    def _touches_writer(self, e):
        for y in walk_all(e):
            if y.get("k") == "Call":
                d_ = y["fn"].get("res") or y["fn"].get("def") or ""
                nm_ = y["fn"].get("name")
                if d_.startswith("common::utils::write_") or nm_ in ("write_all", "write", "encode", "push", "extend_from_slice", "try_for_each", "for_each"):
                    return True
            if y.get("k") in ("Var", "Upvar") and y["var"].get("name") in ("writer", "buf"):
                return True
        return False

    def call_value(self, fr, e):
        """a call through a function value held in a local (`wrap(x)` where wrap is a constructor or closure picked earlier)"""
        fv = self.eval(fr, e["fun"])
        vals = [self.eval(fr, a) for a in e["args"]]
        try:
            return self.apply_fn(fr, fv, vals, e)
        except Unsupported:
            return Opaque("indirect call")

    def apply_fn(self, fr, f, vals, node=None):
        """Apply a closure value (with its captured frame) or a function item to argument values, in the current mode."""
        if isinstance(f, tuple) and f and f[0] == "closure":
            cf = self.F.body_fn(f[1])
            params = [q for q in cf["thir"]["params"]]
            if cf["kind"] == "Closure" and params and params[0].get("pat") is None:
                params = params[1:]
            if len(params) != len(vals):
                raise Unsupported("closure arity")
            cfr = Frame()
            cfr.env = dict(f[2].env)
            for q, v in zip(params, vals):
                if q.get("pat") is not None:
                    self.bind(cfr, q["pat"], v)
            self.depth += 1
            try:
                return self.eval(cfr, nbody(self.F, f[1]))
            finally:
                self.depth -= 1
        if isinstance(f, Cases):
            return Cases([(ind, self.apply_fn(fr, x, vals, node)) for ind, x in f.pairs])
        if isinstance(f, tuple) and f and f[0] == "some" and len(f) == 2:
            return self.apply_fn(fr, f[1], vals, node)
        if isinstance(f, tuple) and f and f[0] == "fnitem":
            fn = f[1]
            d_ = fn.get("def") or ""
            if "::" in d_:
                adt_, var_ = d_.rsplit("::", 1)
                a_ = self.F.adts.get(adt_)
                if a_ is not None and any(vv["name"] == var_ for vv in a_["variants"]):
                    # an enum / tuple-struct constructor used as a function value: `wrap(pid)` with wrap = QosPid::Level1
                    return ("struct", adt_, var_, {str(i): v for i, v in enumerate(vals)})
            fake = {"k": "Call", "fn": fn, "args": [{"k": "__val", "v": v, "ty": None} for v in vals], "ty": fn.get("sig_out")}
            return self.e_Call(fr, fake)
        raise Unsupported("cannot apply %r" % (f,))

    def e_Array(self, fr, e):
        items = []
        for x in e["items"]:
            ty = (x.get("ty") or "")
            if "[u8" in ty or ty.endswith("str"):
                try:
                    items.append(BytesVal(self.length_of(fr, x)))     # an array of byte slices: keep each element's length
                    continue
                except Unsupported:
                    pass
            items.append(self.eval(fr, x))
        return TupleVal(items)

    def e___val(self, fr, e):
        return e["v"]

    def e_Zst(self, fr, e):
        if e.get("fn"):
            return ("fnitem", e["fn"])
        return Opaque("zst")

    def eval_sum(self, fr, e):
        """Iterator::sum(Iterator::map(<iter over path>, closure)), or the sum of a fixed array of lengths"""
        e = strip(e)
        try:
            direct = self.eval(fr, e)
        except Unsupported:
            direct = None
        if isinstance(direct, TupleVal):
            tot = Poly()
            for item in direct.items:
                tot = tot + as_poly(self.opt_value_or_zero(item), "array element")
            return tot
        if e.get("k") == "Call" and e["fn"].get("name") == "map" and len(e["args"]) == 2:
            src = self.eval(fr, e["args"][0])
            clo = self.eval(fr, e["args"][1])
            if isinstance(src, TupleVal) and isinstance(clo, tuple) and clo[0] == "closure":
                tot = Poly()
                for item in src.items:
                    tot = tot + as_poly(self.apply_fn(fr, clo, [item], e["args"][1]), "closure body")
                return tot
            if isinstance(src, PathVal) and isinstance(clo, tuple) and clo[0] == "closure":
                sub = Interp(self.F, "value")
                sub.depth = self.depth
                v = sub.run_fn(clo[1], [PathVal(("$it",))])
                self.assumptions |= sub.assumptions
                return g_sum(src.path, as_poly(v, "closure body"))
        raise Unsupported("sum over %s" % pp(e)[:100])

    def length_of(self, fr, e, count_ok=False):
        """Byte length of the slice-like value denoted by `e`."""
        ty = (e.get("ty") or "")
        inner = strip(e)
        m = re.fullmatch(r"&?(?:mut )?\[u8; (\d+)\]", inner.get("ty") or "")
        if m:
            return Poly.const(int(m.group(1)))
        if inner.get("k") == "Call":
            d = inner["fn"].get("def", "")
            if d in ("core::slice::from_ref", "core::slice::raw::from_ref"):
                return Poly.const(1)
            if inner["fn"].get("name") in _PASS_THROUGH and len(inner["args"]) == 1:
                return self.length_of(fr, inner["args"][0], count_ok)
        v = self.eval(fr, inner)
        return self.length_of_value(v, inner, count_ok)

    def length_of_value(self, v, e, count_ok):
        if isinstance(v, ConstBytes):
            return Poly.const(v.n)
        if isinstance(v, BytesVal):
            return v.n
        if isinstance(v, Cases):
            tot = Poly()
            for ind, x in v.pairs:
                tot = tot + ind * self.length_of_value(x, e, count_ok)
            return tot
        if isinstance(v, PathVal):
            ty = e.get("ty") or ""
            bytes_like = any(t in ty for t in ("str", "String", "Bytes", "[u8]", "Vec<u8", "TopicName", "TopicFilter"))
            if bytes_like:
                return g_len(v.path)
            if count_ok:
                return g_sum(v.path, Poly.const(1))
            raise Unsupported("length of non-byte collection %s" % fmt_path(v.path))
        raise Unsupported("length of %s" % pp(e)[:100])


# ---- summaries ---------------------------------------------------------------------------------------

def summarise_encode(F, fid):
    it = Interp(F, "write")
    it.run_fn(fid, [PathVal(("self",)), Opaque("writer")])
    return it.written, it


def summarise_len(F, fid):
    it = Interp(F, "value")
    v = it.run_fn(fid, [PathVal(("self",))])
    if not it.written.is_zero():
        raise Unsupported("%s writes bytes" % fid)
    return as_poly(v, "return value of %s" % fid), it


def enc_default_const(F, ty):
    """Encoded length of the all-absent (Default) value of Encodable type `ty`: its `encode_len`
    summary with every atom false and every collection empty."""
    for imp in F.impls_of("Encodable"):
        if imp["self_ty"] == ty:
            fid = [i["def"] for i in imp["items"] if i["name"] == "encode_len"][0]
            p, _ = summarise_len(F, fid)
            return _zero_eval(p)
    raise Unsupported("no Encodable impl for %s" % ty)


def _zero_eval(p):
    tot = 0
    for (atoms, g), c in p.m.items():
        if atoms:
            continue
        if g is None:
            tot += c
        elif g[0] == "varint":
            # varint of an all-absent block: evaluate its argument the same way
            tot += c * 1 if _gen_arg_zero(g) else 0
        # len / sum / val generators of an empty value are 0
    return tot


def _gen_arg_zero(g):
    # the argument polynomial is stored by key; constants inside it are the only non-zero part
    key = g[1]
    const = 0
    for (atoms, gg), c in key:
        if not atoms and gg is None:
            const += c
    return const < 128


def refine_default(F, d):
    """`default(p)` implies every field of p is absent, i.e. enc<T>(p) is T's all-absent constant.
    Returns the list of residual polynomials (all zero <=> the two sides agree on consistent values)."""
    dat = [a for a in d.atoms() if a[0] == "default"]
    if not dat:
        return [d]
    a = dat[0]
    d0 = d.subst_atom(a, False)
    d1 = d.subst_atom(a, True)
    m = {}
    for (atoms, g), c in d1.m.items():
        if g is not None and g[0] == "enc" and g[2] == a[1]:
            k = (atoms, None)
            m[k] = m.get(k, 0) + c * enc_default_const(F, g[1])
        else:
            m[(atoms, g)] = m.get((atoms, g), 0) + c
    return refine_default(F, d0) + refine_default(F, Poly(m))


def onehot_normalise(F, p, enums):
    """Exactly one `is(path, V)` atom of an enum-typed path holds: eliminate the last variant."""
    for path, adt in enums.items():
        a = F.adts.get(adt)
        if not a:
            continue
        names = [v["name"] for v in a["variants"]]
        last = ("is", path, names[-1])
        if last not in p.atoms():
            continue
        repl = Poly.const(1)
        for n in names[:-1]:
            repl = repl - Poly.atom(("is", path, n))
        out = Poly()
        for (atoms, g), c in p.m.items():
            if last in atoms:
                rest = Poly({(atoms - {last}, g): c})
                out = out + rest * repl
            else:
                out = out + Poly({(atoms, g): c})
        p = out
    return p


def witness(d):
    """A truth assignment of the atoms under which polynomial `d` is non-zero (smallest monomial)."""
    if d.is_zero():
        return None
    (atoms, g), c = min(d.m.items(), key=lambda kv: (len(kv[0][0]), repr(kv[0])))
    return {"true": sorted(fmt_atom(a) for a in atoms),
            "false": sorted(fmt_atom(a) for a in d.atoms() - atoms),
            "difference": "%d * %s" % (c, fmt_gen(g) if g else "1")}


def equal_under_constraints(a, b):
    """a == b as functions, taking the one-hot constraints between `is` atoms of one path into account.
    Identical normal forms are equal. Otherwise enumerate the `is` atoms' paths that appear on either
    side (small) and compare after substituting every consistent assignment."""
    d = a - b
    if d.is_zero():
        return True, None
    return False, d
