#!/usr/bin/env python3
"""check.py <property-id> [--tier quick|thorough] [--facts file.json] [--repo dir]

Static check of one property of akasamq/mqtt-proto. Rebuilds type-checked facts (THIR/MIR/ADTs)
from the repository's *current working tree* on every run and applies the property's rules.
Exit 0: every obligation discharged (known findings print KNOWN-FINDING). Exit 1: VIOLATION lines.
Exit 2: checker-internal failure (driver missing, facts could not be built).
"""
import argparse
import json
import os
import sys
import time

HERE = os.path.dirname(os.path.abspath(__file__))
sys.path.insert(0, HERE)

import facts as FX          # noqa: E402
from report import Report, finish   # noqa: E402
import props                # noqa: E402


def main():
    ap = argparse.ArgumentParser()
    ap.add_argument("prop")
    ap.add_argument("--tier", default=os.environ.get("VERIF_TIER", "quick"), choices=["quick", "thorough"])
    ap.add_argument("--facts", help="use an already exported facts file (development only)")
    ap.add_argument("--repo", default=os.environ.get("MQ_REPO", "/repo"))
    ap.add_argument("--replay", help="print a stored violation and re-run the property's rules")
    ap.add_argument("--no-selftest", action="store_true")
    args = ap.parse_args()
    if args.replay:
        v = json.load(open(args.replay))
        print(json.dumps(v, indent=1))
    P = props.PROPS.get(args.prop)
    if P is None:
        print("unknown or not-applicable property %s" % args.prop, file=sys.stderr)
        return 2
    R = Report(args.prop, args.tier)
    configs = ["default"] if args.tier == "quick" else ["default", "no-default-features", "arbitrary", "no-debug-assertions"]
    try:
        for cfg in configs:
            if args.facts and cfg == "default":
                F = FX.load_facts(args.facts, cfg)
            else:
                F = FX.build_facts(args.repo, cfg)
            R.configs.append({"config": cfg, "thir_bodies": F.inventory.get("thir_bodies"),
                              "mir_bodies": F.inventory.get("mir_bodies"), "fns": len(F.fn_list)})
            before = len(R.violations)
            for rule in P["rules"]:
                R.run_rule(rule, F, R)
            for v in R.violations[before:]:
                if cfg not in v["configs"]:
                    v["configs"].append(cfg)
            if cfg == "default":
                R.analysed.setdefault("functions", len(F.fn_list))
    except RuntimeError as e:
        print("checker failure: %s" % e, file=sys.stderr)
        return 2
    if args.tier == "thorough" and not args.no_selftest:
        try:
            import selftest
            R.selftest = selftest.run_for(args.prop)
        except Exception as e:  # self-test problems are checker problems, never a verdict on /repo
            R.selftest = {"error": "%s: %s" % (type(e).__name__, e)}
    return finish(R, P["level"], P["explanation"], P["rule_text"],
                  "python3 rules/check.py %s --tier %s" % (args.prop, args.tier))


if __name__ == "__main__":
    sys.exit(main())
