#!/usr/bin/env python3
"""Development helper: ingest.py <seeded|benign> <agent-out-dir>... : verify each delivered change on a scratch
worktree (verify_seed.sh / verify_benign.sh), and copy it into /verif/<set>/<name>/ with the verification recorded
in meta.json. A change that does not verify is reported and not copied."""
import json, os, re, shutil, subprocess, sys
from concurrent.futures import ThreadPoolExecutor
HERE = os.path.dirname(os.path.abspath(__file__)); VERIF = os.path.dirname(HERE)
setname = sys.argv[1]
HEAD = subprocess.run(["git", "-C", "/repo", "rev-parse", "--short", "HEAD"], capture_output=True, text=True).stdout.strip()


def one(d):
    name = os.path.basename(d.rstrip("/"))
    if not os.path.exists(os.path.join(d, "patch.diff")):
        return name, False, "no patch.diff"
    script = "verify_seed.sh" if setname == "seeded" else "verify_benign.sh"
    r = subprocess.run([os.path.join(HERE, script), d], capture_output=True, text=True)
    out = r.stdout.strip()
    try:
        meta = json.load(open(os.path.join(d, "meta.json")))
    except Exception as e:
        meta = {"summary": "(meta.json unreadable: %s)" % e}
    if setname == "seeded":
        m = re.search(r"clean_lib_ok=(\d) clean_failed=(\d+) patched_lib_ok=(\d) patched_failed=(\d+)", out)
        if not m:
            return name, False, out[-300:]
        cl, cf, pl, pf = map(int, m.groups())
        lines = out.splitlines()
        ok = cl == 1 and cf == 0 and pl == 1 and pf >= 1
        note = None
        if cl == 1 and cf == 0 and pl == 1 and pf == 0 and "demo" not in (lines[2] if len(lines) > 2 else ""):
            # a demo that aborts the test process prints no "test result" line for itself
            n_clean = lines[1].count("test result") if len(lines) > 1 else 0
            n_pat = lines[2].count("test result") if len(lines) > 2 else 0
            if n_pat < n_clean:
                ok, note = True, "demo process aborted under the patch (no result line)"
        meta["property"] = meta.get("property") or name.split("-")[0]
        meta["round"] = (int(name.split("-")[1]) + 1) // 2
        meta["verified"] = {"by": "rules/verify_seed.sh in a scratch worktree of /repo HEAD (%s)" % HEAD,
                            "clean_tree_plus_demo": lines[1].strip()[9:] if len(lines) > 1 else "",
                            "patched_plus_demo": lines[2].strip()[9:] if len(lines) > 2 else "",
                            "existing_73_pass_with_patch": pl == 1, "demo_fails_with_patch": pf >= 1 or bool(note),
                            "demo_passes_without": cl == 1 and cf == 0}
        if note:
            meta["verified"]["note"] = note
    else:
        ok = "73 passed; 0 failed" in out and "warning" not in out and "FAILED" not in out
        meta["verified"] = {"by": "rules/verify_benign.sh in a scratch worktree of /repo HEAD (%s)" % HEAD, "result": out[-300:]}
    if not ok:
        return name, False, out[-400:]
    dst = os.path.join(VERIF, setname, name)
    os.makedirs(dst, exist_ok=True)
    for f in ("patch.diff", "demo.rs"):
        if os.path.exists(os.path.join(d, f)):
            shutil.copy(os.path.join(d, f), os.path.join(dst, f))
    json.dump(meta, open(os.path.join(dst, "meta.json"), "w"), indent=1)
    return name, True, ""


with ThreadPoolExecutor(max_workers=4) as ex:
    for name, ok, why in ex.map(one, sys.argv[2:]):
        print("%-8s %s %s" % (name, "kept" if ok else "REJECTED", why))
