"""C20: classification of malformed input.

  H-raise   every construction of an Error / ErrorV5 variant (raise site) is extracted; (1) payload rule: a
            variant that carries a value carries the value that was tested (it occurs in the guarding condition,
            match scrutinee, or the receiver of the ok_or / map_err that raises it); (2) variant-placement
            rule: each documented variant is raised only in the kind of place the catalogue assigns to it;
            (3) mandatory raise sites of the catalogue are present (counts are floors).
  H-order   where two catalogue malformations can coincide on the same bytes, the documented one wins:
            pinned evaluation-order pairs inside each decoder.
"""
from facts import strip, lit_value, pp, pp_pat, loc, path_of
from norm import nbody, walk_all, unblock
from report import AnchorLost
from tables import const_eval
from r_io import all_bodies, _closure_body
from r_poll import _parents, _ancestors
import catalogue as CAT
from peval import Adt

ERR_ADTS = ("common::error::Error", "v5::error::ErrorV5")


def raise_sites(F):
    out = []
    for fid, f, b in all_bodies(F):
        tr = (f.get("impl_trait") or "").rsplit("::", 1)[-1]
        if f.get("impl_adt") in ERR_ADTS and (f.get("impl_derived") or tr in ("Clone", "Display", "Debug", "PartialEq", "Error", "From")):
            continue
        if f.get("impl_adt") == "std::io::error::Error" or "for std::io::error::Error" in f["root"]:
            continue
        par = None
        for x in walk_all(b):
            if x.get("k") == "Adt" and x.get("adt") in ERR_ADTS:
                if x["variant"] == "Common":
                    continue
                if par is None:
                    par = _parents(b)
                out.append({"fid": fid, "f": f, "body": b, "par": par, "node": x, "variant": x["variant"],
                            "payload": [f_["e"] for f_ in x["fields"]]})
    return out


def _pat_names(p, out):
    k = p.get("k")
    if k == "Binding":
        out.add(p["name"])
        if p.get("sub"):
            _pat_names(p["sub"], out)
    elif k in ("Leaf", "Variant"):
        for q in p["subs"]:
            _pat_names(q["pat"], out)
    elif k == "Deref":
        _pat_names(p["sub"], out)


def _vars(e):
    return {pp(n) for n in walk_all(e) if n.get("k") in ("Var", "Upvar")} | \
           {pp(n) for n in walk_all(e) if n.get("k") in ("Field", "Index")}


def _guard_exprs(F, site):
    """Expressions whose evaluation decides that this raise site is reached."""
    par, x = site["par"], site["node"]
    out = []
    prev = x
    for a in _ancestors(par, x):
        k = a.get("k")
        if k == "If":
            out.append(a["cond"])
        elif k == "Match":
            out.append(a["scrut"])
        elif k is None and "pat" in a and a.get("guard"):
            out.append(a["guard"])
        elif k == "Call" and a["fn"].get("name") in ("ok_or", "ok_or_else", "map_err") and a["args"] and prev is not a["args"][0]:
            out.append(a["args"][0])
        elif k == "Let" and a.get("else") is not None and prev is a.get("else") and a.get("init") is not None:
            out.append(a["init"])          # `let Some(x) = tested(..) else { return Err(..) }`
        elif k == "Block":
            # earlier statements of the block that leave early decide that the site is reached
            for st in a.get("stmts", []):
                if st is prev or st.get("e") is prev or st.get("init") is prev:
                    break
                e = st.get("e") if st.get("k") != "Let" else None
                if e is not None and unblock(e).get("k") == "If" and any(y.get("k") == "Return" for y in walk_all(unblock(e)["then"])):
                    out.append(unblock(e)["cond"])
                if st.get("k") == "Let" and st.get("else") is not None and st.get("init") is not None:
                    out.append(st["init"])
        prev = a
    # closure bodies: the guard is the receiver of the map_err / ok_or_else that owns the closure
    f = site["f"]
    if f["kind"] == "Closure":
        owner = f.get("parent")
        ob = None
        for cand in (owner, f.get("root")):
            if cand in F.fns:
                ob = nbody(F, cand) if F.fns[cand]["kind"] != "Closure" else _closure_body(F, cand)
                if ob is not None:
                    for y in walk_all(ob):
                        if y.get("k") == "Call" and y["fn"].get("name") in ("map_err", "ok_or_else") and len(y["args"]) == 2 \
                                and y["args"][1].get("k") == "Closure" and y["args"][1]["def"] == site["fid"]:
                            out.append(y["args"][0])
    return out


# variants whose payload is decided by evaluating the decoders over complete domains (the rule named carries the check)
EVALUATED_PAYLOADS = {
    "InvalidConnectFlags": "T-bits (all 256 flag bytes)", "InvalidConnackFlags": "H-valid (all flag bytes)",
    "InvalidSubscriptionOption": "T-bits (all 256 option bytes)", "InvalidByteProperty": "H-bytevals",
    "InvalidReasonCode": "H-raise reason bytes (all 256 bytes per decoder)", "InvalidPropertyLength": "T-props whole (short block)",
}


def h_raise(F, R):
    sites = raise_sites(F)
    R.analysed["raise_sites"] = len(sites)
    by_variant = {}
    for s in sites:
        by_variant.setdefault(s["variant"], []).append(s)
    # (1) payload rule
    n = 0
    for s in sites:
        v = s["variant"]
        spec = CAT.VARIANTS.get(v)
        if spec is None:
            R.fail("H-raise", "undocumented-variant/%s/%s" % (v, s["f"]["root"]), "raise site of undocumented variant %s in %s" % (v, s["f"]["root"]), where=loc(s["node"]))
            continue
        roles = spec["payload"]
        if len(roles) != len(s["payload"]):
            R.fail("H-raise", "payload-arity/%s/%s" % (v, s["f"]["root"]), "%s raised with %d payload values" % (v, len(s["payload"])), where=loc(s["node"]))
            continue
        if s["f"]["root"].endswith("::from_u8") and v in set(x for x in CAT.FROM_U8_ERRORS.values() if x):
            # the code tables are evaluated for all 256 bytes below: every rejected byte is reported with the documented variant
            # carrying that very byte, however the table is written
            n += len(roles)
            R.ok("H-raise", "payload/%s/%s/table" % (v, s["f"]["root"]), "from_u8 table: payload decided by evaluation over all 256 bytes")
            continue
        guards = _guard_exprs(F, s)
        if not guards and v in EVALUATED_PAYLOADS and not s["f"]["root"].endswith(("decode_async", "decode_with_protocol", "new_with", "decode")):
            # an unconditional constructor helper (`fn invalid(self) -> Error { Error::InvalidConnectFlags(self.0) }`): which value
            # reaches it is decided where the helper is used; the payload of this variant is decided by evaluation
            for role in roles:
                n += 1
            R.ok("H-raise", "payload/%s/%s/helper" % (v, s["f"]["root"]), "constructor helper; payload decided by %s" % EVALUATED_PAYLOADS[v])
            continue
        gvars = set()
        for g in guards:
            gvars |= _vars(g)
        # a catch-all arm binding `n => Err(V(n))` names the scrutinee itself
        for a in _ancestors(s["par"], s["node"]):
            if a.get("k") is None and "pat" in a and a["pat"].get("k") == "Binding" and not a["pat"].get("sub"):
                gvars.add(a["pat"]["name"])
        # locals in the guard stand for their initialisers (`let (bad, idx) = is_invalid(value.as_str())`)
        lets = {}
        for blk in walk_all(s["body"]):
            if blk.get("k") == "Block":
                for st in blk.get("stmts", []):
                    if st["k"] == "Let" and st.get("init") is not None:
                        names = set()
                        _pat_names(st["pat"], names)
                        for nm in names:
                            lets[nm] = _vars(st["init"])
        for _ in range(3):
            for nm in list(gvars):
                gvars |= lets.get(nm, set())
        for role, e in zip(roles, s["payload"]):
            n += 1
            pv = pp(strip(e))
            key = "%s/%s/%s" % (v, s["f"]["root"], role)
            if role == "context":
                ok = pv in CAT.CONTEXT_PAYLOADS
                R.check(ok, "H-raise", "payload/" + key,
                        "%s in %s carries `%s` as its packet-type / property-id context (expected one of %s)" % (v, s["f"]["root"], pv, sorted(CAT.CONTEXT_PAYLOADS)),
                        where=loc(s["node"]))
            elif role == "kind":
                continue
            else:
                evars = _vars(e)
                ok = bool(evars) and evars <= gvars | CAT.ALWAYS_OK
                if not ok:
                    # a projection of a tested value (`flags.0` where the guard tested `flags.bit(..)`): compare the root variables
                    roots = {pp(n) for n in walk_all(e) if n.get("k") in ("Var", "Upvar")}
                    groots = {g.split(".")[0].split("[")[0] for g in gvars}
                    ok = bool(roots) and roots <= groots | CAT.ALWAYS_OK
                # constructor functions test their parameter through a callee (is_invalid(value.as_str()))
                R.check(ok, "H-raise", "payload/" + key,
                        "%s in %s carries `%s`, which is not the value tested by the guarding condition (%s)" % (
                            v, s["f"]["root"], pv, "; ".join(pp(g)[:60] for g in guards[:2]) or "no guard"),
                        where=loc(s["node"]))
    R.floor("H-raise", "payload obligations", n, 60)
    # (2) placement
    for v, spec in CAT.VARIANTS.items():
        lst = by_variant.get(v, [])
        allowed = spec["where"]
        for s in lst:
            root = s["f"]["root"]
            ok = any(_place_ok(pat, root) for pat in allowed)
            R.check(ok, "H-raise", "placement/%s/%s" % (v, root),
                    "%s is raised in %s; the catalogue documents it for: %s" % (v, root, ", ".join(allowed)), where=loc(s["node"]))
        R.floor("H-raise", "sites raising %s" % v, len(lst), spec["min_sites"])
    # (3) reason-code bytes: evaluated per decoder (r_pe3.h_reason_bytes)
    import r_pe3
    r_pe3.h_reason_bytes(F, R)
    # from_u8 tables raise the documented variant with the scrutinee byte
    from r_tables import code_enums
    from tables import find_param_match
    from r_pe import pe_from_u8_table
    for enum_path, fid in code_enums(F):
        name = enum_path.rsplit("::", 1)[1]
        want = CAT.FROM_U8_ERRORS.get(name)
        # evaluated for all 256 bytes: every rejected byte is reported the documented way (None, or the documented variant carrying that byte)
        _table, rejects = pe_from_u8_table(F, fid, enum_path)
        bad = []
        for byte, ev in sorted(rejects.items()):
            if want is None:
                if ev is not None:
                    bad.append((byte, repr(ev)[:60]))
            else:
                okk = isinstance(ev, Adt) and ev.variant == want and list(ev.fields.values())[-1:] == [byte]
                if not okk:
                    bad.append((byte, repr(ev)[:60]))
        R.check(not bad, "H-raise", "from_u8/%s" % name,
                "%s::from_u8 reports %d rejected bytes differently from the documentation (%s): e.g. %s" % (
                    name, len(bad), ("None" if want is None else "%s(byte)" % want), bad[:2]), where=fid)
    # EmptySubscription: evaluated on a frame that ends after the identifier (r_pe3.h_empty_subscription)
    r_pe3.h_empty_subscription(F, R)
    R.sample({"rule": "H-raise", "variants": {v: len(l) for v, l in sorted(by_variant.items())}})


def _place_ok(pat, root):
    import fnmatch
    if pat.startswith("::"):
        pat = "*" + pat
    return fnmatch.fnmatchcase(root, pat)


# ---- H-order ----------------------------------------------------------------------------------------------------

def _eval_order(body, F=None, depth=0):
    """Calls and raise sites in evaluation order (arguments before the call); private helper functions of
    the crate are expanded in place (two levels) so that moving code into a helper does not change the order."""
    out = []

    def rec(n):
        if not isinstance(n, dict):
            return
        k = n.get("k")
        if k == "Call":
            for a in n["args"]:
                rec(a)
            callee = n["fn"].get("res") or n["fn"].get("def") or "?"
            out.append(("call", callee, n))
            if F is not None and depth < 2 and n["fn"].get("krate") == "mqtt_proto" and callee in F.fns \
                    and not callee.startswith("common::utils::") and "::from_u8" not in callee and "try_from" not in callee \
                    and not callee.endswith("::decode_async") and not callee.endswith("::is_invalid"):
                hb = nbody(F, callee)
                if hb is not None:
                    out.extend(_eval_order(hb, F, depth + 1))
            return
        if k == "Zst" and n.get("fn") and (n["fn"].get("krate") == "mqtt_proto" or (F is not None and (n["fn"].get("res") or n["fn"].get("def")) in F.fns)):
            # a function of the crate passed as a value (`.and_then(TopicName::try_from)`): it runs when the call that receives it does
            out.append(("call", n["fn"].get("res") or n["fn"].get("def") or "?", n))
            return
        if k == "Adt" and n.get("adt") in ERR_ADTS and n["variant"] != "Common":
            for f in n["fields"]:
                rec(f["e"])
            out.append(("raise", n["variant"], n))
            return
        for key, v in n.items():
            if key in ("fn", "var", "pat", "poll_fn", "iter_fn", "next_fn", "eq_fn", "residual_fn"):
                continue
            if isinstance(v, dict):
                rec(v)
            elif isinstance(v, list):
                for x in v:
                    rec(x)
    rec(body)
    return out


def _first(order, pred):
    for i, ev in enumerate(order):
        if pred(ev):
            return i
    return None


def h_order(F, R):
    n = 0
    for fid, a_desc, b_desc in CAT.ORDER_PAIRS:
        targets = [f for f in F.fns if _place_ok(fid, f) and F.fns[f]["kind"] in ("Fn", "AssocFn")] if "*" in fid else [fid]
        for t in targets:
            b = nbody(F, t)
            if b is None:
                R.fail("H-order", "anchor-lost/%s" % t, "decoder %s not found" % t)
                continue
            order = _eval_order(b, F)
            ia = _first(order, _pred(a_desc))
            ib = _first(order, _pred(b_desc))
            if ia is None and ib is None and fid.endswith("*"):
                continue
            n += 1
            R.check(ia is not None and ib is not None and ia < ib, "H-order", "%s/%s<%s" % (t, a_desc, b_desc),
                    "%s: `%s` must be evaluated before `%s` so that the documented error wins (positions %s, %s)" % (t, a_desc, b_desc, ia, ib), where=t)
    R.floor("H-order", "ordered pairs", n, 24)


def _pred(desc):
    kind, what = desc.split(":", 1)
    if kind == "raise":
        return lambda ev: ev[0] == "raise" and ev[1] == what
    if kind == "call":
        return lambda ev: ev[0] == "call" and (ev[1] == what or ev[1].endswith(what))
    if kind == "read":
        return lambda ev: ev[0] == "call" and (ev[1].startswith("common::utils::read_") or ev[1].endswith("read_exact") or ev[1] == "common::utils::decode_var_int")
    raise ValueError(desc)
