"""Checker self-test (thorough tier): the check of one property is run on scratch copies of /repo's HEAD with
(a) each seeded property-breaking change that this property's check is expected to catch (seeded/EXPECT.json)
    -> it must report a violation, and
(b) each behaviour-preserving refactoring of the benign corpus -> it must stay silent.
A self-test failure is a failure of the *checker*; it is reported in the evidence and never turns into a verdict
on /repo. Scratch worktrees live under a mkdtemp directory and are removed as soon as their facts are built.
Facts are cached (gzip) under /verif/.factcache keyed by /repo's HEAD and the patch, so the 18 thorough runs
share the expensive step; the cache is optional and rebuilt when missing."""
import gzip
import hashlib
import json
import os
import shutil
import subprocess
import sys
import tempfile
from concurrent.futures import ThreadPoolExecutor

HERE = os.path.dirname(os.path.abspath(__file__))
VERIF = os.path.dirname(HERE)
CACHE = os.path.join(VERIF, ".factcache")


def _head():
    r = subprocess.run(["git", "-C", "/repo", "rev-parse", "HEAD"], capture_output=True, text=True)
    d = subprocess.run(["git", "-C", "/repo", "diff", "HEAD", "--", "src"], capture_output=True, text=True)
    return r.stdout.strip(), d.stdout


def _facts_for(setname, name, head, wdiff):
    patch = os.path.join(VERIF, setname, name, "patch.diff")
    key = hashlib.sha1((head + "\0" + wdiff + "\0" + open(patch).read()).encode()).hexdigest()[:20]
    os.makedirs(CACHE, exist_ok=True)
    cached = os.path.join(CACHE, "%s-%s-%s.json.gz" % (setname, name, key))
    if os.path.exists(cached):
        return cached, None
    w = tempfile.mkdtemp(prefix="selftest.")
    wt = os.path.join(w, "wt")
    try:
        subprocess.run(["git", "-C", "/repo", "worktree", "add", "-q", "--detach", wt, "HEAD"], check=True, capture_output=True)
        if wdiff:
            p = subprocess.run(["git", "-C", wt, "apply"], input=wdiff, text=True, capture_output=True)
            if p.returncode:
                return None, "working-tree diff does not apply to a scratch copy"
        if subprocess.run(["git", "-C", wt, "apply", patch], capture_output=True).returncode:
            return None, "patch does not apply to this tree"
        out = os.path.join(w, "facts.json")
        r = subprocess.run([os.path.join(HERE, "mkfacts.sh"), wt, out], capture_output=True, text=True)
        if r.returncode:
            return None, "does not compile on this tree"
        with open(out, "rb") as f, gzip.open(cached, "wb", compresslevel=3) as g:
            shutil.copyfileobj(f, g)
        return cached, None
    finally:
        subprocess.run(["git", "-C", "/repo", "worktree", "remove", "--force", wt], capture_output=True)
        shutil.rmtree(w, ignore_errors=True)


def _run_check(prop, cached):
    d = tempfile.mkdtemp(prefix="selftest-ev.")
    try:
        facts = os.path.join(d, "facts.json")
        with gzip.open(cached, "rb") as g, open(facts, "wb") as f:
            shutil.copyfileobj(g, f)
        env = dict(os.environ, VERIF_EVIDENCE_DIR=os.path.join(d, "ev"))
        r = subprocess.run([sys.executable, os.path.join(HERE, "check.py"), prop, "--facts", facts, "--tier", "quick"],
                           capture_output=True, text=True, env=env)
        keys = [l.split("key=")[1].strip() for l in r.stdout.splitlines() if l.strip().startswith("rule=")]
        return r.returncode, keys
    finally:
        shutil.rmtree(d, ignore_errors=True)


def run_for(prop):
    expect = json.load(open(os.path.join(VERIF, "seeded", "EXPECT.json")))
    mutants = sorted(n for n, props_ in expect.items() if prop in props_)
    benign = sorted(n for n in os.listdir(os.path.join(VERIF, "benign")) if os.path.isdir(os.path.join(VERIF, "benign", n)))
    head, wdiff = _head()
    jobs = [("seeded", n) for n in mutants] + [("benign", n) for n in benign]

    def one(job):
        setname, name = job
        cached, why = _facts_for(setname, name, head, wdiff)
        if cached is None:
            return job, None, why
        rc, keys = _run_check(prop, cached)
        return job, rc, keys
    res = {"mutants_expected_to_fire": len(mutants), "fired": 0, "benign": len(benign), "silent": 0, "skipped": [], "failures": [], "samples": []}
    with ThreadPoolExecutor(max_workers=int(os.environ.get("SELFTEST_JOBS", "8"))) as ex:
        for (setname, name), rc, info in ex.map(one, jobs):
            if rc is None:
                res["skipped"].append({"case": "%s/%s" % (setname, name), "why": info})
                continue
            if setname == "seeded":
                if rc == 1:
                    res["fired"] += 1
                    if len(res["samples"]) < 6:
                        res["samples"].append({"mutant": name, "reported": info[:3]})
                else:
                    res["failures"].append({"case": "seeded/" + name, "problem": "check did not fire (exit %s)" % rc})
            else:
                if rc == 0:
                    res["silent"] += 1
                else:
                    res["failures"].append({"case": "benign/" + name, "problem": "false alarm", "reported": info[:3]})
    res["ok"] = not res["failures"]
    return res


if __name__ == "__main__":
    print(json.dumps(run_for(sys.argv[1]), indent=1))
