"""Rules re-based on the partial evaluator (peval): tables are *computed* from the type-checked tree for
every value of a small finite domain (or reconstructed as piecewise-linear functions through witness
evaluation), so they do not depend on how the function is written."""
import spec_mqtt as S
from facts import strip, lit_value, pp, loc
from norm import nbody, walk_all, unblock
from report import AnchorLost
from peval import PE, Sym, Adt, Tup, Lin, Undecided, some, NONE, ok, err, UNIT, vkey
from tables import enum_discriminants

ERR_ADTS = ("common::error::Error", "v5::error::ErrorV5")


def unwrap_common(v):
    """ErrorV5::Common(e) -> e"""
    while isinstance(v, Adt) and v.adt == "v5::error::ErrorV5" and v.variant == "Common":
        v = v.fields.get("0")
    return v


def result_kind(v):
    """('ok', value) | ('err', error value) | ('none',) for Result/Option results."""
    if isinstance(v, Adt) and v.adt == "core::result::Result":
        return ("ok", v.fields.get("0")) if v.variant == "Ok" else ("err", unwrap_common(v.fields.get("0")))
    if isinstance(v, Adt) and v.adt == "core::option::Option":
        return ("ok", v.fields.get("0")) if v.variant == "Some" else ("none",)
    return ("val", v)


# ---- from_u8 tables -------------------------------------------------------------------------------------------

def pe_from_u8_table(F, fid, enum_path):
    """byte -> variant name for all 256 bytes; rejected bytes -> error value (or None for Option tables)."""
    table, rejects = {}, {}
    for b in range(256):
        try:
            r = PE(F).call_fn(fid, [b])
        except Undecided as e:
            raise AnchorLost("%s cannot be evaluated for byte %d: %s" % (fid, b, e))
        k = result_kind(r)
        if k[0] in ("ok", "val") and isinstance(k[1], Adt) and k[1].adt == enum_path:
            table[b] = k[1].variant
        elif k[0] == "err":
            rejects[b] = k[1]
        elif k[0] == "none":
            rejects[b] = None
        else:
            raise AnchorLost("%s(%d) evaluates to %r" % (fid, b, r))
    return table, rejects


# ---- T-hdr -----------------------------------------------------------------------------------------------------

def t_hdr(F, R):
    """Header::new_with, evaluated for all 256 control bytes of each family, equals the OASIS table:
    legal type nibble with exactly the required flag nibble -> Header{typ, dup:false, qos:Level0,
    retain:false, remaining_len}; PUBLISH -> dup = bit 3, qos = bits 2..1 through the QoS table (3 is
    InvalidQos), retain = bit 0; everything else InvalidHeader."""
    n = 0
    for fam, spec in (("v3", S.PACKET_TYPES_V3), ("v5", S.PACKET_TYPES_V5)):
        fid = "%s::packet::Header::new_with" % fam
        bad = []
        for hd in range(256):
            n += 1
            try:
                r = PE(F).call_fn(fid, [hd, Sym("remaining_len")])
            except Undecided as e:
                if "remaining_len" in str(e):
                    bad.append((hd, ("depends-on-remaining-length", str(e)[:80]), ("a decision on the control byte alone",)))
                    continue
                raise AnchorLost("%s cannot be evaluated for %#04x: %s" % (fid, hd, e))
            nib, fl = hd >> 4, hd & 0xF
            want = spec.get(nib)
            k = result_kind(r)
            if want is None:
                exp = ("err", "InvalidHeader")
            elif want[1] == "publish":
                q = (fl >> 1) & 3
                exp = ("err", "InvalidQos") if q == 3 else ("hdr", "Publish", bool(fl & 8), S.QOS[q], bool(fl & 1))
            elif fl == want[1]:
                exp = ("hdr", want[0], False, "Level0", False)
            else:
                exp = ("err", "InvalidHeader")
            if k[0] == "err" and isinstance(k[1], Adt):
                got = ("err", k[1].variant)
            elif k[0] == "ok" and isinstance(k[1], Adt):
                h = k[1].fields
                got = ("hdr", getattr(h.get("typ"), "variant", None), h.get("dup"), getattr(h.get("qos"), "variant", None), h.get("retain"))
                if h.get("remaining_len") != Sym("remaining_len"):
                    got = ("hdr-wrong-remaining-len", repr(h.get("remaining_len")))
            else:
                got = ("?", repr(r))
            if got != exp:
                bad.append((hd, got, exp))
        R.check(not bad, "T-hdr", "%s/table" % fam,
                "%s disagrees with the specification for %d control bytes, e.g. %s" % (
                    fid, len(bad), "; ".join("%#04x -> %s (spec %s)" % b for b in bad[:3])), where=fid)
        R.sample({"rule": "T-hdr", "family": fam, "evaluated": 256, "mismatches": len(bad)})
    R.floor("T-hdr", "control bytes evaluated", n, 512)


# ---- piecewise-linear reconstruction ------------------------------------------------------------------------------

def pw_table(F, fid, extra=(), hook=None, arg_index=0, nargs=1, limit=1 << 40):
    """{witness: result} where result is ('lin', a, b) | ('err', variant) | other; witnesses are closed under
    the constants the function compared its argument with (c-1, c, c+1)."""
    todo = {0, 1}
    todo |= set(extra)
    done = {}
    consts = set()
    while todo:
        w = todo.pop()
        if w in done or w < 0 or w > limit:
            continue
        log = []
        args = [Sym("arg%d" % i) for i in range(nargs)]
        args[arg_index] = Lin(1, 0, w, log)
        try:
            r = PE(F, call_hook=hook).call_fn(fid, args)
        except Undecided as e:
            raise AnchorLost("%s cannot be evaluated at %d: %s" % (fid, w, e))
        done[w] = _lin_result(r)
        # a result that is itself a (monotone, slowly growing) term of the argument, e.g. ceil(bit_length / 7): its own steps are
        # breakpoints too, so that every piece has one value
        from peval import Wx, wx_direction, wx_threshold, wx_eval
        k_ = result_kind(r)
        pay = k_[1] if len(k_) > 1 else None
        if isinstance(pay, Wx) and wx_direction(pay.term) == 1:
            lo_v, hi_v = wx_eval(pay.term, 0), wx_eval(pay.term, limit)
            if hi_v - lo_v <= 64:
                for v_ in range(lo_v + 1, hi_v + 1):
                    th = wx_threshold(pay.term, v_, limit)
                    if th is not None:
                        log.append(("Ge", th))
        for _op, c in log:
            if isinstance(c, int) and c not in consts:
                consts.add(c)
                todo |= {c - 1, c, c + 1}
    return done, consts


def _lin_result(r):
    k = result_kind(r)
    v = k[1] if len(k) > 1 else None
    if k[0] == "err":
        return ("err", v.variant if isinstance(v, Adt) else repr(v))
    if isinstance(v, Lin):
        return ("lin", v.a, v.b)
    from peval import Wx
    if isinstance(v, Wx):
        from peval import wx_direction, wx_eval
        if wx_direction(v.term) == 1 and wx_eval(v.term, 1 << 40) - wx_eval(v.term, 0) <= 64:
            return ("lin", 0, v.val())        # constant on its piece (pw_table adds the term's own steps as breakpoints)
        return ("other", repr(v))
    if isinstance(v, bool):
        return ("bool", v)
    if isinstance(v, int):
        return ("lin", 0, v)
    if isinstance(v, Adt) and len(v.fields) == 1:
        inner = list(v.fields.values())[0]
        if isinstance(inner, Lin):
            return ("adt", v.variant, inner.a, inner.b)
    return ("other", repr(r))


def t_width(F, R):
    """var_int_len / total_len / header_len / remaining_len / VarByteInt::try_from reconstructed as exact
    piecewise-linear tables (the functions touch their argument only through comparisons with constants and
    +/- constants; every comparison is logged and both sides of every constant are evaluated) and compared
    with the variable-byte-integer laws on every piece."""
    T = S.VARINT_THRESHOLDS

    def vlen(n):
        for k, t in enumerate(T):
            if n < t:
                return k + 1
        return None

    def check(name, fid, oracle, extra=()):
        tab, consts = pw_table(F, fid, extra=extra)
        bad = [(w, tab[w], oracle(w)) for w in sorted(tab) if tab[w] != oracle(w)]
        need = set(extra)
        R.check(not bad, "T-width", name,
                "%s disagrees with the variable-byte-integer laws at %s" % (fid, ", ".join("n=%d: code %s, law %s" % b for b in bad[:3])),
                where=fid, detail={"breakpoints": sorted(consts)})
        R.sample({"rule": "T-width", "fn": fid, "breakpoints": sorted(consts), "pieces": len(tab)})
        return tab, consts
    ex = set()
    for t in T:
        ex |= {t - 1, t, t + 1, t + 2, t + 3, t + 4, t + 5}
    check("var_int_len", "common::utils::var_int_len",
          lambda n: ("lin", 0, vlen(n)) if vlen(n) else ("err", "InvalidVarByteInt"), ex)
    check("total_len", "common::utils::total_len",
          lambda n: ("lin", 1, 1 + vlen(n)) if vlen(n) else ("err", "InvalidVarByteInt"), ex)

    def hlen(t):
        # header length of a *valid* total length t = n + 1 + vlen(n)
        for k, th in enumerate(T):
            if t < th + k + 2:
                return k + 2
        return 5
    check("header_len", "common::utils::header_len", lambda t: ("lin", 0, hlen(t)), ex)
    check("remaining_len", "common::utils::remaining_len", lambda t: ("lin", 1, -hlen(t)), {x for x in ex if x >= 2})
    fid = F.impl_method("TryFrom", "v5::types::VarByteInt", "try_from")
    if fid is None:
        raise AnchorLost("TryFrom<u32> for VarByteInt")
    check("VarByteInt::try_from", fid, lambda n: ("adt", "VarByteInt", 1, 0) if n < T[3] else ("err", "InvalidVarByteInt"), ex)
    R.note("T-width: piecewise reconstruction is exact because every comparison the helper makes on its argument is logged "
           "and both neighbours of every logged constant are evaluated; between breakpoints the result is one linear piece")


# ---- T-tname --------------------------------------------------------------------------------------------------------

def _tname_chars():
    """Every ASCII character, plus non-ASCII characters chosen to expose truncating casts (low byte equal to a forbidden
    ASCII byte), byte/char confusions (continuation bytes) and the ends of the encoding ranges."""
    extra = [0x80, 0xA3, 0xAB, 0xE9, 0xFF, 0x100, 0x123, 0x12B, 0x2B00, 0x2300, 0x6E29, 0xFFFD, 0x10000, 0x1F600, 0x10FFFF, 0x7FF, 0x800]
    return list(range(128)) + extra


def _name_hook(F, state, pe_box):
    """call hook that models a `&str` argument (Sym('arg0')) as an abstract name: state['chars'] are its characters, state['len']
    the witness of its symbolic byte length (comparisons are logged in state['log'])."""

    def utf8(cs):
        out = []
        for c in cs:
            out += list(chr(c).encode("utf-8", "surrogatepass"))
        return out

    def is_arg(v):
        return v == Sym("arg0")

    def hook(d, res, args, node, env):
        name = node["fn"].get("name")
        if not args or not is_arg(args[0]) or (res or d) in F.fns:
            return None
        cs = state["chars"]
        if d == "core::str::<impl str>::len" or name == "len":
            return Lin(1, 0, state["len"], state["log"])
        if name == "is_empty":
            return state["len"] == 0
        if name == "chars":
            return Adt("seq-iter", "It", {"0": Tup(list(cs))})
        if name in ("bytes", "as_bytes"):
            t = Tup(utf8(cs))
            return Adt("seq-iter", "It", {"0": t}) if name == "bytes" else t
        if name == "char_indices":
            out, off = [], 0
            for c in cs:
                out.append(Tup([off, c]))
                off += len(chr(c).encode("utf-8", "surrogatepass"))
            return Adt("seq-iter", "It", {"0": Tup(out)})
        if name in ("contains", "find", "rfind", "matches") and len(args) == 2:
            pat = args[1]
            hit = None
            for i, c in enumerate(cs):
                if isinstance(pat, int):
                    m = pat == c
                elif isinstance(pat, Tup):
                    m = c in pat.items
                elif isinstance(pat, tuple) and pat and pat[0] == "str":
                    m = chr(c) in pat[1] if len(pat[1]) == 1 else None
                    if m is None:
                        raise Undecided("string pattern %r" % (pat,))
                elif isinstance(pat, tuple) and pat and pat[0] in ("closure", "fn"):
                    m = pe_box[0].truth(pe_box[0].apply(pat, [c]), node)
                else:
                    raise Undecided("pattern %r" % (pat,))
                if m and hit is None:
                    hit = i
            if name == "contains":
                return hit is not None
            raise Undecided("str::%s" % name)
        if name in ("deref", "as_ref", "as_str", "borrow"):
            return args[0]
        raise Undecided("operation %s on the name" % (d or name))
    return hook


def t_tname(F, R):
    """TopicName::is_invalid(value) == (byte length > 65535) || value contains one of '+', '#', U+0000: evaluated on abstract
    names whose byte length is symbolic (every comparison made on it is logged and both sides of every constant are tried) and
    whose characters are [c], ['a', c] and [c, 'a'] for every ASCII character c and a set of adversarial non-ASCII characters --
    whatever way the scan is written (str::contains, chars().any, a byte loop, a table)."""
    fid = "common::types::TopicName::is_invalid"
    state = {}
    pe_box = [None]
    hook = _name_hook(F, state, pe_box)
    consts = set()
    bad = []
    nev = 0
    todo = {0, 1, 40, S.TOPIC_MAX_BYTES - 1, S.TOPIC_MAX_BYTES, S.TOPIC_MAX_BYTES + 1}
    done = set()
    shapes = []
    for c in _tname_chars():
        shapes += [[c], [ord("a"), c], [c, ord("a")]]
    # longer names: the character at every position of two full 8-byte words (and one byte beyond) among harmless fillers that
    # are above, below and between the forbidden characters and that are multi-byte -- for scans that work a word at a time or
    # stop at the first "suspicious" byte
    for filler in (ord("a"), ord("$"), ord(" "), ord("/"), 0xE9):
        for c in (0, ord("+"), ord("#"), ord("a"), ord("$"), ord(","), ord("!"), 0x80, 0x2B00):
            for pos in range(17):
                shapes.append([filler] * pos + [c] + [filler] * (16 - pos))
    # names that look like shared-subscription or system topics (legal topic names: the filter rules do not apply to them)
    for text in ("$share/", "$share/g", "$share//t", "$share/g/", "$share/g/t", "$share", "$SYS/", "$SYS/a", "$", "/", "//", "a//b", "$share/g/t/"):
        shapes.append([ord(ch) for ch in text])
    while todo:
        w = todo.pop()
        if w in done or w < 0:
            continue
        done.add(w)
        # the length breakpoints are explored with a harmless name; the character scan with a short length
        for cs in ([[ord("a")]] + (shapes if w == 40 else [])):
            state.update({"len": w, "log": [], "chars": cs})
            pe = PE(F, call_hook=hook)
            pe_box[0] = pe
            try:
                r = pe.call_fn(fid, [Sym("arg0")])
            except Undecided as e:
                raise AnchorLost("TopicName::is_invalid cannot be evaluated: %s" % e)
            nev += 1
            want = (w > S.TOPIC_MAX_BYTES) or any(chr(c) in S.TOPIC_NAME_FORBIDDEN for c in cs)
            if r is not want:
                bad.append((w, "".join(chr(c) for c in cs), r))
            for _op, k in state["log"]:
                if k not in consts:
                    consts.add(k)
                    todo |= {k - 1, k, k + 1}
    R.check(not bad, "T-tname", "length-or-contains",
            "TopicName::is_invalid is not `byte length > 65535 || contains one of + # NUL`: %d disagreements, e.g. length %s, characters %r -> %s" % (
                (len(bad),) + (bad[0] if bad else ("", "", ""))), where=fid)
    R.check(S.TOPIC_MAX_BYTES in consts or S.TOPIC_MAX_BYTES + 1 in consts, "T-tname", "length-bound", "TopicName::is_invalid never compares the byte length with %d (constants seen: %s)" % (
        S.TOPIC_MAX_BYTES, sorted(consts)), where=fid)
    R.sample({"rule": "T-tname", "breakpoints": sorted(consts), "evaluations": nev})
    R.floor("T-tname", "evaluations", nev, 300)


def t_flen(F, R):
    """TopicFilter::is_invalid refuses every text longer than 65,535 bytes (the accessors' cached separator index is a u16 byte
    offset, so a longer text that is accepted is split at a wrapped index): evaluated on harmless texts whose byte length is
    symbolic; every comparison made on the length is logged and both sides of every constant are tried."""
    fid = "common::types::TopicFilter::is_invalid"
    if fid not in F.fns:
        raise AnchorLost(fid)
    state = {}
    pe_box = [None]
    hook = _name_hook(F, state, pe_box)
    consts, bad, nev = set(), [], 0
    texts = ["a", "$share/g/t", "a/+/#"]
    todo = {1, 5, 10, 16, S.TOPIC_MAX_BYTES - 1, S.TOPIC_MAX_BYTES, S.TOPIC_MAX_BYTES + 1, 3 * S.TOPIC_MAX_BYTES}
    done = set()
    while todo:
        w = todo.pop()
        if w in done or w < 1:
            continue
        done.add(w)
        for text in texts:
            if w < len(text):
                continue        # the explicit characters are a prefix of the abstract text: its length is at least theirs
            state.update({"len": w, "log": [], "chars": [ord(c) for c in text]})
            pe = PE(F, call_hook=hook, fuel=4000)
            pe_box[0] = pe
            try:
                r = pe.call_fn(fid, [Sym("arg0")])
            except Undecided as e:
                raise AnchorLost("TopicFilter::is_invalid cannot be evaluated: %s" % e)
            nev += 1
            inv = r.items[0] if isinstance(r, Tup) and len(r.items) == 2 else None
            if inv is not (w > S.TOPIC_MAX_BYTES):
                bad.append((w, text, inv))
            for _op, k in state["log"]:
                if k not in consts:
                    consts.add(k)
                    todo |= {k - 1, k, k + 1}
    R.check(not bad, "T-flen", "length",
            "TopicFilter::is_invalid does not refuse exactly the texts longer than 65535 bytes: byte length %s, text %r -> invalid=%s" % (
                bad[0] if bad else ("", "", "")), where=fid)
    R.sample({"rule": "T-flen", "breakpoints": sorted(consts), "evaluations": nev})
    R.floor("T-flen", "evaluations", nev, 18)


def _fsplit_texts():
    bases = ["$share/g/t", "$share/gg/t/u", "$share/g/+", "$share/g/#", "$share/\u00e9/t", "$share/g/\u00e9", "$share/\u20ac\u20ac/t/+/#",
             "$share/\U0001F600x/a/b", "$share/g//", "$share/g/$share/h/t"]
    texts = list(bases)
    repl = ["x", "S", "\u00e9", "\u20ac", "\U0001F600", "/", "\u00df"]
    for b in bases[:3]:
        for i in range(7):
            for r in repl:
                if b[i] != r:
                    texts.append(b[:i] + r + b[i + 1:])
    for b in bases[:2]:
        for r in ("x", "\u00e9", "/", "$"):
            texts.append(r + b)                      # the prefix shifted by one character / by two bytes
            texts.append(b[:6] + r + b[6:])          # a character between "$share" and its '/'
    texts += ["a", "a/b/c", "/", "//", "/a", "a/", "+", "#", "+/+", "a/+/b", "a/#", "$SYS/a/b", "$share", "$shar/g/t", "$sharex/g/t",
              "\u00e9/\u00e9/\u00e9", "\u20ac$share/g/t", "$Share/g/t", "$share\u00e9/g/t", "$SHARE/g/t", "s/h/a/r/e/x/y", "$/s/h", "$s/h/a",
              "$sh/a/r", "$sha/r/e", "$shar/e/f", "$share/\u00e9\u00e9\u00e9/\u00e9/\u00e9", "$share/0123456789/t"]
    seen, out = set(), []
    for t in texts:
        if t not in seen:
            seen.add(t)
            out.append(t)
    return out


def t_fsplit(F, R):
    """Whenever TopicFilter::is_invalid accepts a text, the byte index it returns (the one the share-name and filter accessors slice
    at) is 0 for a text that does not start with "$share/" and, for one that does, the byte index of the '/' that ends the share
    name: evaluated on a family of short texts -- genuine shared filters with one-, two-, three- and four-byte characters in the
    share name and in the filter, every one of the seven prefix positions replaced by another ASCII character, by a character of
    another case and by two-, three- and four-byte characters, the prefix shifted, and non-shared filters that contain the prefix's
    characters. The accept/refuse decision itself is not judged here."""
    fid = "common::types::TopicFilter::is_invalid"
    if fid not in F.fns:
        raise AnchorLost(fid)
    state = {}
    pe_box = [None]
    hook = _name_hook(F, state, pe_box)
    bad, nev, nacc, nshared = [], 0, 0, 0
    for text in _fsplit_texts():
        raw = text.encode("utf-8")
        state.update({"len": len(raw), "log": [], "chars": [ord(c) for c in text]})
        pe = PE(F, call_hook=hook, fuel=4000)
        pe_box[0] = pe
        try:
            r = pe.call_fn(fid, [Sym("arg0")])
        except Undecided as e:
            if any(ev[0] == "panic" for ev in pe.events):
                bad.append((text, "panics (%s)" % (pe.events[-1][1],)))
                nev += 1
                continue
            raise AnchorLost("TopicFilter::is_invalid cannot be evaluated on %r: %s" % (text, e))
        nev += 1
        if not (isinstance(r, Tup) and len(r.items) == 2 and isinstance(r.items[0], bool) and isinstance(r.items[1], int)):
            raise AnchorLost("TopicFilter::is_invalid(%r) evaluates to %r" % (text, r))
        inv, sep = r.items
        if inv:
            continue
        nacc += 1
        if raw.startswith(b"$share/"):
            k = raw.find(b"/", 7)
            if k > 0:
                nshared += 1
                if sep != k:
                    bad.append((text, "accepted with index %d; the share name ends at byte %d" % (sep, k)))
        elif sep != 0:
            bad.append((text, "accepted with index %d although it does not start with $share/" % sep))
    R.check(not bad, "T-fsplit", "index",
            "TopicFilter::is_invalid returns a wrong split index: %d text(s), e.g. %r %s" % ((len(bad),) + (bad[0] if bad else ("", ""))), where=fid)
    R.sample({"rule": "T-fsplit", "evaluations": nev, "accepted": nacc, "accepted shared": nshared})
    R.floor("T-fsplit", "evaluations", nev, 150)
    R.floor("T-fsplit", "accepted shared filters", nshared, 8)


def _char_set(F, pred):
    """{c : pred(c)} for a char predicate (closure or a char constant), by witness evaluation."""
    if isinstance(pred, int):
        return {chr(pred)}
    if not (isinstance(pred, tuple) and pred and pred[0] == "closure"):
        return None
    todo = {0, 1, 0x10FFFF}
    seen = {}
    consts = set()
    while todo:
        w = todo.pop()
        if w in seen or w < 0 or w > 0x10FFFF:
            continue
        log = []
        try:
            r = PE(F).apply(pred, [Lin(1, 0, w, log)])
        except Undecided:
            return None
        seen[w] = bool(r)
        for _op, k in log:
            if isinstance(k, int) and k not in consts:
                consts.add(k)
                todo |= {k - 1, k, k + 1}
    # between breakpoints the predicate is constant: a true witness whose neighbour is also true is a range
    pts = sorted(seen)
    out = set()
    for a, b in zip(pts, pts[1:]):
        if seen[a] and seen[b] and b == a + 1:
            return {"<range %d..%d>" % (a, b)}
    for w in pts:
        if seen[w]:
            out.add(chr(w))
    return out


# ---- T-eof / H-toio / H-fromio / H-block ------------------------------------------------------------------------------

def _error_variants(F, adt):
    return [v["name"] for v in F.adts[adt]["variants"]]


def _err_value(F, adt, variant):
    a = F.adts[adt]
    v = next(x for x in a["variants"] if x["name"] == variant)
    return Adt(adt, variant, {f["name"]: Sym(("payload", variant, f["name"])) for f in v["fields"]})


KINDS = ["UnexpectedEof", "ConnectionReset", "WriteZero", "InvalidData", "Other"]


def _io(kind):
    return Adt("common::error::Error", "IoError", {"0": Adt("core::io::error::ErrorKind", kind), "1": Sym("info")})


def t_eof(F, R):
    """is_eof() is true exactly for IoError(UnexpectedEof, _), for both error types, for every variant."""
    n = 0
    fid = "common::error::Error::is_eof"
    for v in _error_variants(F, "common::error::Error"):
        vals = [_io(k) for k in KINDS] if v == "IoError" else [_err_value(F, "common::error::Error", v)]
        for val in vals:
            n += 1
            try:
                r = PE(F).call_fn(fid, [val])
            except Undecided as e:
                raise AnchorLost("Error::is_eof(%r): %s" % (val, e))
            want = v == "IoError" and val.fields["0"].variant == "UnexpectedEof"
            R.check(r is want, "T-eof", "Error::is_eof/%s%s" % (v, ("/" + val.fields["0"].variant) if v == "IoError" else ""),
                    "Error::is_eof(%r) is %r" % (val, r), where=fid)
    fid5 = "v5::error::ErrorV5::is_eof"
    for v in _error_variants(F, "v5::error::ErrorV5"):
        vals = [Adt("v5::error::ErrorV5", "Common", {"0": x}) for x in [_io(k) for k in KINDS] + [Adt("common::error::Error", "InvalidHeader")]] \
            if v == "Common" else [_err_value(F, "v5::error::ErrorV5", v)]
        for val in vals:
            n += 1
            try:
                r = PE(F).call_fn(fid5, [val])
            except Undecided as e:
                raise AnchorLost("ErrorV5::is_eof(%r): %s" % (val, e))
            inner = val.fields.get("0")
            want = v == "Common" and isinstance(inner, Adt) and inner.variant == "IoError" and inner.fields["0"].variant == "UnexpectedEof"
            R.check(r is want, "T-eof", "ErrorV5::is_eof/%s/%s" % (v, getattr(inner, "variant", "")), "ErrorV5::is_eof(%r) is %r" % (val, r), where=fid5)
    for fam, f0 in (("v3", fid), ("v5", fid5)):
        m = F.impl_method("PollHeader", "%s::packet::Header" % fam, "is_eof_error")
        for val, want in ((_io("UnexpectedEof"), True), (_io("Other"), False), (Adt("common::error::Error", "InvalidHeader"), False)):
            if fam == "v5":
                val = Adt("v5::error::ErrorV5", "Common", {"0": val})
            r = PE(F).call_fn(m, [val])
            R.check(r is want, "T-eof", "%s/is_eof_error/%s" % (fam, want), "PollHeader::is_eof_error(%r) is %r" % (val, r), where=m)
    R.floor("T-eof", "error values classified", n, 30)


def h_toio(F, R):
    fid = "common::error::<impl core::convert::From<common::error::Error> for std::io::error::Error>::from"
    if fid not in F.fns:
        raise AnchorLost(fid)
    for v in _error_variants(F, "common::error::Error"):
        vals = [_io(k) for k in KINDS] if v == "IoError" else [_err_value(F, "common::error::Error", v)]
        for val in vals:
            try:
                r = PE(F).call_fn(fid, [val])
            except Undecided as e:
                raise AnchorLost("From<Error> for io::Error (%r): %s" % (val, e))
            kind = r.fields.get("0") if isinstance(r, Adt) and r.adt == "std::io::error::Error" else r
            want = val.fields["0"].variant if v == "IoError" else "InvalidData"
            R.check(isinstance(kind, Adt) and kind.variant == want, "H-toio", "%s%s" % (v, ("/" + want) if v == "IoError" else ""),
                    "io::Error::from(%r) has kind %r (expected %s)" % (val, kind, want), where=fid)
    extra = [i for i in F.impls if (i.get("trait") or "").endswith("convert::From") and i["self_ty"] == "std::io::error::Error" and "ErrorV5" in (i.get("trait_ref") or "")]
    R.check(not extra, "H-toio", "no-v5-bypass", "a direct From<ErrorV5> for io::Error exists and is not checked", where=extra[0]["sp"] if extra else "?")


def h_fromio(F, R):
    """From<io::Error> for Error / ErrorV5 keep err.kind()."""
    def hook(d, res, args, node, env):
        if d == "std::io::error::Error::kind" and args[0] == Sym("ioerr"):
            return Sym("ioerr.kind")
        return None
    a = "<common::error::Error as core::convert::From<std::io::error::Error>>::from"
    r = PE(F, call_hook=hook).call_fn(a, [Sym("ioerr")])
    okk = isinstance(r, Adt) and r.variant == "IoError" and r.fields.get("0") == Sym("ioerr.kind")
    R.check(okk, "H-fromio", "Error", "Error::from(io_err) is %r (the kind must be io_err.kind())" % (r,), where=a)
    v = "<v5::error::ErrorV5 as core::convert::From<std::io::error::Error>>::from"
    r = PE(F, call_hook=hook).call_fn(v, [Sym("ioerr")])
    inner = unwrap_common(r)
    okk = isinstance(r, Adt) and r.variant == "Common" and isinstance(inner, Adt) and inner.variant == "IoError" and inner.fields.get("0") == Sym("ioerr.kind")
    R.check(okk, "H-fromio", "ErrorV5", "ErrorV5::from(io_err) is %r" % (r,), where=v)


def h_block(F, R):
    """Packet::decode: Ok(p) -> Ok(Some(p)); an EOF-class error -> Ok(None); every other error -> the same
    error, for both families. Evaluated on every error variant."""
    for fam in ("v3", "v5"):
        fid = "%s::packet::Packet::decode" % fam
        da = "%s::packet::Packet::decode_async" % fam
        seen = {"block_on": 0, "decode_async": 0}
        cur = {}

        def hook(d, res, args, node, env):
            if node["fn"].get("name") == "block_on":
                seen["block_on"] += 1
                return cur["v"]
            if res == da or d == da:
                seen["decode_async"] += 1
                return Sym("future")
            return None
        cases = [("ok", ok(Sym("pkt")))]
        base = "common::error::Error"
        for v in _error_variants(F, base):
            for val in ([_io(k) for k in KINDS] if v == "IoError" else [_err_value(F, base, v)]):
                e = val if fam == "v3" else Adt("v5::error::ErrorV5", "Common", {"0": val})
                cases.append(("err", err(e)))
        if fam == "v5":
            for v in _error_variants(F, "v5::error::ErrorV5"):
                if v != "Common":
                    cases.append(("err", err(_err_value(F, "v5::error::ErrorV5", v))))
        for kind, val in cases:
            cur["v"] = val
            try:
                r = PE(F, call_hook=hook).call_fn(fid, [Sym("bytes")])
            except Undecided as e:
                raise AnchorLost("%s cannot be evaluated on %r: %s" % (fid, val, e))
            if kind == "ok":
                R.check(r == ok(some(Sym("pkt"))), "H-block", "%s/ok" % fam, "%s maps Ok(p) to %r" % (fid, r), where=fid)
                continue
            e = val.fields["0"]
            inner = unwrap_common(e)
            is_eof = isinstance(inner, Adt) and inner.variant == "IoError" and inner.fields["0"].variant == "UnexpectedEof"
            want = ok(NONE) if is_eof else err(e)
            name = "%s%s" % (inner.variant, ("/" + inner.fields["0"].variant) if inner.variant == "IoError" else "")
            R.check(r == want, "H-block", "%s/%s" % (fam, name), "%s maps Err(%r) to %r (expected %r)" % (fid, e, r, want), where=fid)
        R.check(seen["block_on"] >= 1 and seen["decode_async"] >= 1, "H-block", "%s/wraps-decode_async" % fam,
                "%s does not run block_on(Packet::decode_async(..))" % fid, where=fid)
