#!/usr/bin/env python3
"""Development helper: refresh the per-check level texts of MANIFEST.json from props.py (the single source of the
per-property explanation) and keep everything else as committed. Validates against the schema if jsonschema is present."""
import json, os, sys
HERE = os.path.dirname(os.path.abspath(__file__)); VERIF = os.path.dirname(HERE)
sys.path.insert(0, HERE)
import props

p = os.path.join(VERIF, "MANIFEST.json")
m = json.load(open(p))
for c in m["checks"]:
    P = props.PROPS[c["property_id"]]
    c["level_claimed"]["category"] = P["level"]
    c["level_claimed"]["text"] = P["explanation"]
for e in m["engines"]:
    if e["name"] == "rules":
        e["kind_free_text"] = ("Python rule engines over the exported facts: PE (partial evaluation of the type-checked tree on abstract inputs "
                               "to tables over complete finite domains), L (byte-count effect summaries, write and read side), site audits over "
                               "call-graph closures (panic sites, loops, allocations, unsafe, I/O discipline), who-may-construct / sibling rules")
assert sorted(c["property_id"] for c in m["checks"]) == sorted(props.PROPS)
json.dump(m, open(p, "w"), indent=1)
try:
    import jsonschema
    jsonschema.validate(m, json.load(open("/root/.vp/MANIFEST.schema.json")))
    print("MANIFEST.json valid")
except ImportError:
    print("MANIFEST.json written (jsonschema not available in this interpreter)")
