"""THIR normalisation: fold compiler desugarings back into structured nodes.

  `e?`            Match[TryDesugar](Try::branch(e)){Break(r)=>return from_residual(r); Continue(v)=>v}
                  -> {"k":"Try","e":e}
  `e.await`       Match[AwaitDesugar](IntoFuture::into_future(e)){ __awaitee => loop {...poll...yield} }
                  -> {"k":"Await","e":e,"poll_res":<resolved coroutine/poll impl>}
  `for p in it`   Match[ForLoopDesugar](IntoIterator::into_iter(it)){ iter => loop { match next(&mut iter) {None=>break; Some(p)=>body} } }
                  -> {"k":"For","pat":p,"iter":it,"body":body}
  `while c {b}`   Loop{ If c {b} else {break} }  (desugar:WhileLoop)  -> {"k":"While","cond":c,"body":b}
  `a == b` on non-primitive types  Call PartialEq::eq/ne(&a,&b) -> Binary{Eq|Ne, overloaded: true, eq_impl: callee}
  `{ e }`         a safe block without statements -> e

The original span/type/expansion info is preserved on the new node. Normalisation is purely
structural; anything that does not match the exact desugaring shape is left untouched.
"""
import copy

from facts import strip


def _single_expr_block(e):
    return (isinstance(e, dict) and e.get("k") == "Block" and not e.get("stmts")
            and e.get("expr") is not None and e.get("safety") in ("Safe", "BuiltinUnsafe"))


def unblock(e):
    while _single_expr_block(e):
        e = e["expr"]
    return e


def _is_call_named(e, trait_suffix, name):
    if not isinstance(e, dict) or e.get("k") != "Call":
        return False
    fn = e.get("fn") or {}
    if fn.get("name") != name:
        return False
    tr = fn.get("trait") or ""
    return tr.endswith(trait_suffix)


def _meta(dst, src):
    for k in ("ty", "sp", "exp", "isp"):
        if k in src:
            dst[k] = src[k]
    return dst


def _drop_desugar_exp(node, tag):
    """The outer desugar tag is removed from `exp` of the folded node (the user wrote `?`, not a match)."""
    exp = node.get("exp")
    if exp:
        exp2 = [x for x in exp if x != tag]
        if exp2:
            node["exp"] = exp2
        else:
            node.pop("exp", None)
            node.pop("isp", None)
    return node


def norm(e):
    """Return a normalised deep copy of THIR node `e` (expr, stmt or arm)."""
    if isinstance(e, list):
        return [norm(x) for x in e]
    if not isinstance(e, dict):
        return e
    k = e.get("k")
    # ---- `?` -----------------------------------------------------------------
    if k == "Match" and e.get("src", "").startswith("TryDesugar"):
        sc = e["scrut"]
        if _is_call_named(sc, "Try", "branch") and len(sc["args"]) == 1 and len(e["arms"]) == 2:
            inner = norm(sc["args"][0])
            n = {"k": "Try", "e": inner}
            _meta(n, e)
            # error conversion performed by from_residual: Result<_, F> where F: From<E>
            brk = e["arms"][0]["body"]
            for c in _walk_raw(brk):
                if c.get("k") == "Call" and (c.get("fn") or {}).get("name") == "from_residual":
                    n["residual_fn"] = c["fn"]
            return _drop_desugar_exp(n, "desugar:QuestionMark")
    # ---- `.await` ------------------------------------------------------------
    if k == "Match" and e.get("src") == "AwaitDesugar":
        sc = e["scrut"]
        if _is_call_named(sc, "IntoFuture", "into_future") and len(e["arms"]) == 1:
            inner = norm(sc["args"][0])
            n = {"k": "Await", "e": inner}
            _meta(n, e)
            for c in _walk_raw(e["arms"][0]["body"]):
                if c.get("k") == "Call" and (c.get("fn") or {}).get("name") == "poll":
                    n["poll_fn"] = c["fn"]
                    break
            return _drop_desugar_exp(n, "desugar:Await")
    # ---- `for` ---------------------------------------------------------------
    if k == "Match" and e.get("src") == "ForLoopDesugar":
        sc = e["scrut"]
        if _is_call_named(sc, "IntoIterator", "into_iter") and len(e["arms"]) == 1:
            lp = unblock(e["arms"][0]["body"])
            if lp.get("k") == "Loop":
                body = lp["body"]
                m = None
                if body.get("k") == "Block" and not body.get("expr") and len(body.get("stmts", [])) == 1:
                    m = body["stmts"][0].get("e")
                elif body.get("k") == "Block" and body.get("expr") and not body.get("stmts"):
                    m = body["expr"]
                elif body.get("k") == "Match":
                    m = body
                if m and m.get("k") == "Match" and m.get("src") == "ForLoopDesugar" and len(m["arms"]) == 2:
                    some = None
                    for a in m["arms"]:
                        p = a["pat"]
                        if p.get("k") == "Variant" and p.get("variant") == "Some":
                            some = a
                    if some is not None:
                        n = {"k": "For",
                             "pat": some["pat"]["subs"][0]["pat"],
                             "iter": norm(sc["args"][0]),
                             "iter_fn": sc["fn"],
                             "next_fn": (m["scrut"].get("fn") if m["scrut"].get("k") == "Call" else None),
                             "body": norm(some["body"])}
                        _meta(n, e)
                        return _drop_desugar_exp(n, "desugar:ForLoop")
    # ---- `while` -------------------------------------------------------------
    if k == "Loop":
        body = e["body"]
        b = body
        if b.get("k") == "Block" and not b.get("stmts") and b.get("expr"):
            b = b["expr"]
        if (b.get("k") == "If" and b.get("else") is not None
                and "desugar:WhileLoop" in (b.get("exp") or e.get("exp") or [])):
            els = unblock(b["else"])
            els_stmt = els
            if els.get("k") == "Block" and len(els.get("stmts", [])) == 1 and not els.get("expr"):
                els_stmt = els["stmts"][0].get("e")
            if isinstance(els_stmt, dict) and els_stmt.get("k") == "Break":
                n = {"k": "While", "cond": norm(b["cond"]), "body": norm(b["then"])}
                _meta(n, e)
                return _drop_desugar_exp(n, "desugar:WhileLoop")
    # ---- `loop { if c { break } rest.. }` -> `while !c { rest.. }` ------------
    if k == "Loop":
        body = e["body"]
        if body.get("k") == "Block" and body.get("stmts") and body["stmts"][0].get("k") == "Expr":
            first = body["stmts"][0]["e"]
            if isinstance(first, dict) and first.get("k") == "If" and first.get("else") is None:
                t = unblock(first["then"])
                t_stmt = t
                if t.get("k") == "Block" and len(t.get("stmts", [])) == 1 and not t.get("expr"):
                    t_stmt = t["stmts"][0].get("e")
                if isinstance(t_stmt, dict) and t_stmt.get("k") == "Break" and t_stmt.get("e") is None:
                    neg = _negate(first["cond"])
                    if neg is not None:
                        rest = dict(body)
                        rest["stmts"] = body["stmts"][1:]
                        n = {"k": "While", "cond": norm(neg), "body": norm(rest), "from_loop": True}
                        _meta(n, e)
                        return n
    # ---- overloaded == / != --------------------------------------------------
    if k == "Call":
        fn = e.get("fn") or {}
        if fn.get("name") in ("eq", "ne") and (fn.get("trait") or "").endswith("cmp::PartialEq") \
                and len(e["args"]) == 2 and not e.get("from_hir_call", True):
            n = {"k": "Binary", "op": "Eq" if fn["name"] == "eq" else "Ne",
                 "l": norm(strip(e["args"][0])), "r": norm(strip(e["args"][1])),
                 "overloaded": True, "eq_fn": fn}
            _meta(n, e)
            return n
    # ---- `{ e }` -------------------------------------------------------------
    if _single_expr_block(e) and e.get("safety") == "Safe":
        inner = norm(e["expr"])
        return inner
    # ---- generic recursion ---------------------------------------------------
    out = {}
    for key, v in e.items():
        if key in ("fn", "var", "pat", "poll_fn", "iter_fn", "next_fn", "eq_fn", "residual_fn"):
            out[key] = v
        elif isinstance(v, dict):
            out[key] = norm(v)
        elif isinstance(v, list):
            if key == "fields" and e.get("k") == "Adt":
                out[key] = [{"name": f["name"], "idx": f["idx"], "e": norm(f["e"])} for f in v]
            elif key in ("exp",):
                out[key] = v
            else:
                out[key] = [norm(x) for x in v]
        else:
            out[key] = v
    return out


def _negate(c):
    c = unblock(c)
    flip = {"Eq": "Ne", "Ne": "Eq", "Lt": "Ge", "Ge": "Lt", "Gt": "Le", "Le": "Gt"}
    if c.get("k") == "Binary" and c["op"] in flip:
        n = dict(c)
        n["op"] = flip[c["op"]]
        return n
    if c.get("k") == "Unary" and c["op"] == "Not":
        return c["e"]
    return None


def _walk_raw(node):
    stack = [node]
    while stack:
        n = stack.pop()
        if isinstance(n, dict):
            yield n
            for v in n.values():
                if isinstance(v, (dict, list)):
                    stack.append(v)
        elif isinstance(n, list):
            stack.extend(n)


_cache = {}


def nbody(F, fid):
    """Normalised THIR body of a function (async fns: their coroutine body)."""
    key = (id(F), fid)
    if key not in _cache:
        b = F.body_of(fid)
        _cache[key] = norm(b) if b is not None else None
    return _cache[key]


def walk_all(node):
    """Every dict node under `node` that is an expression/statement/arm (normalised trees)."""
    stack = [node]
    while stack:
        n = stack.pop()
        if isinstance(n, dict):
            yield n
            ch = []
            for key, v in n.items():
                if key in ("fn", "var", "pat", "poll_fn", "iter_fn", "next_fn", "eq_fn", "residual_fn"):
                    continue
                if isinstance(v, dict):
                    ch.append(v)
                elif isinstance(v, list):
                    for x in v:
                        if isinstance(x, dict):
                            ch.append(x)
            # pre-order, children in source order (dict keys are emitted by the exporter in source order)
            stack.extend(reversed(ch))
