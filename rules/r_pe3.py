"""Third batch of rules on the partial evaluator: dispatch tables of the three front-ends, validating
constructors, read_string, payload-format checks, packet-level encode tables (fixed arrays, control bytes),
reason-code classification, empty subscription lists."""
import itertools

import spec_mqtt as S
from facts import strip, lit_value, pp, loc
from norm import nbody, walk_all, unblock
from report import AnchorLost
from peval import PE, Sym, Adt, Tup, Lin, Undecided, some, NONE, ok, err, UNIT, vkey, _Ret
from r_pe import result_kind, unwrap_common, pw_table
from tables import enum_discriminants

FAMS = ("v3", "v5")
TRY_OK = lambda w, n: True if w[0] == "try-ok" else None   # noqa: E731


def _hdr(fam, typ, rl=5, **kw):
    f = {"typ": Adt("%s::packet::PacketType" % fam, typ), "remaining_len": rl, "dup": kw.get("dup", False),
         "retain": kw.get("retain", False), "qos": Adt("common::types::QoS", kw.get("qos", "Level0"))}
    return Adt("%s::packet::Header" % fam, "Header", f)


def _role(v, hdr):
    if v == hdr:
        return "HEADER"
    rl = hdr.fields["remaining_len"]
    if isinstance(v, int) and not isinstance(v, bool) and not isinstance(rl, Lin) and v == rl:
        return "REMAINING_LEN"
    if isinstance(v, Lin) and isinstance(rl, Lin) and (v.a, v.b) == (1, 0):
        return "REMAINING_LEN"
    if isinstance(v, Sym) and v.tag in ("READER", "reader"):
        return "READER"
    return repr(v)


class DispatchProbe:
    """Evaluate one of the three dispatch functions for one packet type and record what it does."""
    def __init__(self, F, fam, typ, rl, log=None):
        self.F, self.fam, self.typ, self.rl = F, fam, typ, rl
        # the remaining length is an unknown with a witness: every constant a dispatch function compares it with is logged
        self.hdr = _hdr(fam, typ, rl if log is None else Lin(1, 0, rl, log))
        self.events = []

    def hook(self, d, res, args, node, env):
        r = res or d
        name = node["fn"].get("name")
        if name == "block_on":
            return args[0]
        if r == "%s::packet::Header::decode_async" % self.fam:
            return ok(self.hdr)
        if r.startswith(self.fam + "::") and name in ("decode_async", "decode_with_protocol") and not r.endswith("Packet::decode_async"):
            self.events.append(("decoder", r, tuple(_role(a, self.hdr) for a in args)))
            body_ty = r.rsplit("::", 1)[0]
            return ok(Adt(body_ty, body_ty.rsplit("::", 1)[1], {"decoded_by": Sym(r)}))
        if r == "common::utils::read_u16":
            self.events.append(("read_u16",))
            return ok(Sym("U16"))
        if r.endswith("TryFrom<u16>>::try_from"):
            self.events.append(("pid",))
            return ok(Adt("common::types::Pid", "Pid", {"0": args[0]}))
        return None

    def run(self, fid, args):
        pe = PE(self.F, call_hook=self.hook, cond_hook=TRY_OK)
        try:
            r = pe.call_fn(fid, args)
        except Undecided as e:
            if any(ev[0] == "panic" for ev in pe.events):
                return ("panic",)
            return ("undecided", str(e))
        k = result_kind(r)
        if k[0] == "none":
            return ("none",)
        v = k[1] if len(k) > 1 else r
        if k[0] == "err":
            return ("err", repr(v))
        if isinstance(v, Adt) and v.adt == "%s::packet::Packet" % self.fam:
            inner = v.fields.get("0")
            if inner is None:
                return ("unit", v.variant)
            if isinstance(inner, Adt) and "decoded_by" in inner.fields:
                return ("decoded", v.variant, tuple(self.events))
            if isinstance(inner, Adt) and inner.adt == "common::types::Pid" and inner.fields.get("0") == Sym("U16"):
                return ("pid-packet", v.variant, tuple(self.events))
            return ("value", v.variant, repr(inner))
        return ("other", repr(r))


def h_dispatch3(F, R):
    """For every packet type of both families: the async decoder, the poll decoder's block_decode and
    build_empty_packet, evaluated on an abstract header, run the same body decoder with the same arguments
    (header / remaining length) or build the same value; block_decode panics (unreachable!) only for types
    for which build_empty_packet always returns a packet."""
    n = 0
    for fam in FAMS:
        hdr_ty = "%s::packet::Header" % fam
        a_fid = "%s::packet::Packet::decode_async" % fam
        b_fid = F.impl_method("PollHeader", hdr_ty, "block_decode")
        e_fid = F.impl_method("PollHeader", hdr_ty, "build_empty_packet")
        if b_fid is None or e_fid is None:
            raise AnchorLost("impl PollHeader for %s" % hdr_ty)
        variants = [v["name"] for v in F.adts["%s::packet::PacketType" % fam]["variants"]]
        for typ in variants:
            n += 1
            res = {}
            todo, rls, log = [0, 5], [], []
            while todo and len(rls) < 16:
                rl = todo.pop(0)
                if rl in rls or rl < 0:
                    continue
                rls.append(rl)
                p = DispatchProbe(F, fam, typ, rl, log)
                res[("empty", rl)] = p.run(e_fid, [p.hdr])
                p = DispatchProbe(F, fam, typ, rl, log)
                res[("async", rl)] = p.run(a_fid, [Sym("READER")])
                p = DispatchProbe(F, fam, typ, rl, log)
                res[("block", rl)] = p.run(b_fid, [p.hdr, Sym("READER")])
                for _op, k in log:
                    if isinstance(k, int):
                        todo += [x for x in (k - 1, k, k + 1) if x not in rls and x not in todo]
                del log[:]
            for rl in rls:
                e, a, b = res[("empty", rl)], res[("async", rl)], res[("block", rl)]
                key = "%s/%s/rl%d" % (fam, typ, rl)
                if e[0] == "none":
                    # the poll decoder runs block_decode: must equal the async decoder
                    R.check(a == b and a[0] in ("decoded", "pid-packet"), "H-dispatch3", key,
                            "%s (remaining length %d): the async decoder does %s but the poll decoder's block_decode does %s" % (typ, rl, a, b), where=b_fid)
                elif e[0] in ("unit", "value"):
                    # the poll decoder returns this value without decoding: the async decoder must build the same
                    if e[0] == "unit":
                        okk = a == e
                    else:
                        # evaluate the body decoder itself on a zero-length header and compare the values
                        okk = rl == 0 and a[0] == "decoded" and _zero_len_equal(F, fam, typ, a, e_fid)
                    R.check(okk, "H-dispatch3", key,
                            "%s (remaining length %d): the poll decoder's empty-packet table builds %s, the async decoder does %s" % (typ, rl, e, a), where=e_fid)
                else:
                    R.fail("H-dispatch3", key, "build_empty_packet for %s evaluates to %s" % (typ, e), where=e_fid)
            # G-dispatch: block_decode may panic only if build_empty_packet returns a packet for every remaining length
            for rl in rls:
                if res[("block", rl)][0] == "panic":
                    always = all(res[("empty", r2)][0] != "none" for r2 in rls)
                    R.check(always, "G-dispatch", "%s/%s" % (fam, typ),
                            "%s block_decode panics (unreachable!) for %s, but build_empty_packet returns None for it when the remaining length is %s: "
                            "a frame of that type with a body reaches the panic" % (fam, typ, [r2 for r2 in rls if res[("empty", r2)][0] == "none"]), where=b_fid)
        # PollHeader::remaining_len is the header's field
        rl_fid = F.impl_method("PollHeader", hdr_ty, "remaining_len")
        v = PE(F).call_fn(rl_fid, [_hdr(fam, "Publish", 77)])
        R.check(v == 77, "H-dispatch3", "%s/remaining_len" % fam, "PollHeader::remaining_len returns %r for a header with remaining_len 77" % (v,), where=rl_fid)
    R.floor("H-dispatch3", "packet types", n, 29)


def _zero_len_equal(F, fam, typ, a, e_fid):
    """The body decoder named by the async table, on a header with remaining length 0 and without reading
    anything, returns the value that build_empty_packet builds."""
    dec = a[2][0][1]
    touched = []

    def hook(d, res, args, node, env):
        r = res or d
        if r.startswith("common::utils::read_") or r == "common::utils::decode_var_int" or (r.endswith("::decode_async") and r != dec):
            touched.append(r)
            return ok(Sym("read"))
        return None
    hdr = _hdr(fam, typ, 0)
    try:
        body = PE(F, call_hook=hook, cond_hook=TRY_OK).call_fn(dec, [Sym("READER"), hdr])
        pkt = PE(F).call_fn(e_fid, [hdr])
    except Undecided:
        return False
    kb, kp = result_kind(body), result_kind(pkt)
    if kb[0] != "ok" or kp[0] != "ok" or touched:
        return False
    inner = kp[1].fields.get("0") if isinstance(kp[1], Adt) else None
    return inner == kb[1]


# ---- validating constructors --------------------------------------------------------------------------------------

def h_ctor_values(F, R):
    """Pid::try_from(0) = Err(ZeroPid), otherwise Ok(Pid(value)); TopicName/TopicFilter::try_from(s) consult their
    own is_invalid(s) exactly once and return Err(Invalid..(s)) iff it says invalid, else store s (and, for
    filters, the index is_invalid returned)."""
    fid = F.impl_method("TryFrom", "common::types::Pid", "try_from")
    tab, _c = pw_table(F, fid, extra={0, 1, 2, 65535})
    bad = [(w, r) for w, r in sorted(tab.items()) if r != (("err", "ZeroPid") if w == 0 else ("adt", "Pid", 1, 0))]
    R.check(not bad, "H-ctor", "Pid/try_from", "Pid::try_from: %s (expected 0 -> Err(ZeroPid), v -> Ok(Pid(v)))" % bad[:3], where=fid)
    for name, err_v in (("TopicName", "InvalidTopicName"), ("TopicFilter", "InvalidTopicFilter")):
        path = "common::types::" + name
        fid = F.impl_method("TryFrom", path, "try_from")
        for invalid in (False, True):
            calls = []

            def hook(d, res, args, node, env, invalid=invalid):
                r = res or d
                if r == path + "::is_invalid":
                    calls.append(args[0])
                    return invalid if name == "TopicName" else Tup([invalid, Sym("SEP")])
                if node["fn"].get("name") in ("new", "as_str", "as_ref", "deref", "clone") and len(args) == 1:
                    return args[0]
                return None
            try:
                r = PE(F, call_hook=hook).call_fn(fid, [Sym("TEXT")])
            except Undecided as e:
                raise AnchorLost("%s::try_from cannot be evaluated: %s" % (name, e))
            k = result_kind(r)
            if invalid:
                good = k[0] == "err" and isinstance(k[1], Adt) and k[1].variant == err_v and k[1].fields.get("0") == Sym("TEXT")
            else:
                v = k[1] if k[0] == "ok" else None
                good = isinstance(v, Adt) and v.adt == path and (v.fields.get("0", v.fields.get("inner")) == Sym("TEXT")) \
                    and (name == "TopicName" or v.fields.get("shared_filter_sep") == Sym("SEP"))
            R.check(good and calls == [Sym("TEXT")], "H-ctor", "%s/try_from/%s" % (name, "invalid" if invalid else "valid"),
                    "%s::try_from with is_invalid = %s returns %r after consulting is_invalid on %s" % (name, invalid, r, calls), where=fid)
    dv = F.impl_method("Default", "common::types::Pid", "default")
    if dv:
        v = PE(F).call_fn(dv, [])
        R.check(isinstance(v, Adt) and isinstance(v.fields.get("0"), int) and v.fields["0"] != 0, "H-ctor", "Pid/default", "Pid::default() is %r" % (v,), where=dv)


# ---- read_string ------------------------------------------------------------------------------------------------------

def h_utf8_values(F, R):
    """read_string: the buffer returned by read_bytes is validated with simdutf8::basic::from_utf8; if valid,
    the String is built from that very buffer; if invalid, InvalidString is returned and no String is built."""
    fid = "common::utils::read_string"
    for valid in (True, False):
        calls = []

        def hook(d, res, args, node, env, valid=valid):
            r = res or d
            if r == "common::utils::read_bytes":
                return ok(Sym("BUF"))
            if r == "simdutf8::basic::from_utf8":
                calls.append(("validate", args[0]))
                return ok(Sym("STR")) if valid else err(Sym("UTF8ERR"))
            if node["fn"].get("name") in ("from_utf8_unchecked", "from_utf8_lossy", "from_raw_parts", "from_utf8_unchecked_mut"):
                calls.append(("unchecked", node["fn"].get("name"), args[0]))
                return Adt("String", "String", {"from": args[0]})
            if node["fn"].get("name") in ("deref", "as_slice", "as_ref") and len(args) == 1:
                return args[0]
            if node["fn"].get("name") in ("from_utf8",) and "alloc::string" in r:
                calls.append(("std-validate", args[0]))
                return ok(Adt("String", "String", {"from": args[0]})) if valid else err(Sym("E"))
            return None
        try:
            r = PE(F, call_hook=hook, cond_hook=TRY_OK).call_fn(fid, [Sym("READER")])
        except Undecided as e:
            R.fail("H-utf8", "read_string/%s/extra-processing" % ("valid" if valid else "invalid"),
                   "read_string does something with the bytes or the text besides validating them as UTF-8 and building the String "
                   "(it accepts / rejects / alters strings on another criterion): %s" % str(e)[:200], where=fid)
            continue
        k = result_kind(r)
        validated = [c for c in calls if c[0] in ("validate", "std-validate")]
        unchecked = [c for c in calls if c[0] == "unchecked"]
        if valid:
            good = k[0] == "ok" and isinstance(k[1], Adt) and k[1].fields.get("from") == Sym("BUF") and validated and validated[0][1] == Sym("BUF") \
                and (not unchecked or calls.index(validated[0]) < calls.index(unchecked[0]))
            R.check(good, "H-utf8", "read_string/valid",
                    "read_string on valid UTF-8: validated %s, built %r (expected validation of the read buffer, then a String of that buffer)" % (
                        [repr(c[1]) for c in validated], r), where=fid)
        else:
            good = k[0] == "err" and isinstance(k[1], Adt) and k[1].variant == "InvalidString" and not unchecked
            R.check(good, "H-utf8", "read_string/invalid",
                    "read_string on invalid UTF-8 returns %r and %s" % (r, "builds a String without validation" if unchecked else "builds no String"), where=fid)


# ---- payload format ---------------------------------------------------------------------------------------------------

def h_payfmt_values(F, R):
    """v5 will and PUBLISH payloads flagged as UTF-8 are validated (simdutf8) on the buffer that becomes the
    payload: flag Some(true) + invalid -> InvalidPayloadFormat; every other combination is accepted."""
    abstract_lost = []
    for fid, kind in (("v5::connect::LastWill::decode_async", "will"), ("v5::publish::Publish::decode_async", "publish")):
        shapes = [(q, x) for q in ("Level0", "Level1", "Level2") for x in (False, True)]
        for (qos, bit), flag, valid in itertools.product(shapes, (some(True), some(False), NONE), (True, False)):
            checked = []

            def hook(d, res, args, node, env, flag=flag, valid=valid):
                r = res or d
                name = node["fn"].get("name")
                if r.endswith("Properties::decode_async"):
                    return ok(Adt(r.rsplit("::", 1)[0], "P", {"payload_is_utf8": flag}))
                if r == "common::utils::read_bytes":
                    return ok(Sym("PAYLOAD"))
                if r in ("common::utils::read_string",):
                    return ok(Sym("TOPIC"))
                if r == "common::utils::read_u16":
                    return ok(Sym("U16"))
                if r.endswith("::try_from"):
                    return ok(Sym(("validated", repr(args[0]))))
                if name == "encode_len":
                    return 1
                if d == "alloc::vec::from_elem":
                    return Sym("PAYLOAD")
                if name == "read_exact":
                    return ok(UNIT)
                if r == "simdutf8::basic::from_utf8" or (name == "from_utf8" and "simdutf8" in r):
                    checked.append(args[0])
                    if "compat" in r:
                        return ok(Sym("S")) if valid else err(Sym("COMPAT-ERR"))
                    return ok(Sym("S")) if valid else err(Sym("E"))
                if name in ("from", "into", "deref", "as_ref", "as_slice", "new") and len(args) == 1:
                    return args[0]
                if name == "len" and len(args) == 1 and isinstance(args[0], Sym):
                    return 3          # concrete lengths: the frame (remaining length 50) is long enough for everything
                if name == "is_empty" and len(args) == 1 and isinstance(args[0], Sym):
                    return False
                return None

            def cond(what, node):
                if what[0] == "try-ok":
                    return True
                return None
            hdr = _hdr("v5", "Publish", 50, qos=qos, dup=bit and qos != "Level0", retain=bit)
            args = [Sym("READER"), Adt("common::types::QoS", qos), bit] if kind == "will" else [Sym("READER"), hdr]
            try:
                r = PE(F, call_hook=hook, cond_hook=cond).call_fn(fid, args)
            except Undecided as e:
                # the check may look at the bytes themselves (a fast path for short or ASCII payloads): the evaluation on
                # concrete payloads below decides it; without that one, the anchor is lost
                abstract_lost.append("%s cannot be evaluated on an abstract payload: %s" % (fid, e))
                continue
            k = result_kind(r)
            must_reject = (flag == some(True)) and not valid
            key = "%s/flag-%s/%s" % (kind, flag.variant if flag is NONE else repr(flag.fields["0"]), "valid" if valid else "invalid")
            if (qos, bit) != ("Level0", False):
                key += "/%s%s" % (qos, "+bits" if bit else "")
            if must_reject:
                good = k[0] == "err" and isinstance(k[1], Adt) and k[1].variant == "InvalidPayloadFormat" and Sym("PAYLOAD") in checked
                R.check(good, "H-payfmt", key, "%s: payload flagged UTF-8 but invalid gives %r; validated buffers: %s" % (fid, r, [repr(c) for c in checked]), where=fid)
            else:
                v = k[1] if k[0] == "ok" else None
                good = isinstance(v, Adt) and v.fields.get("payload") == Sym("PAYLOAD")
                if flag == some(True):
                    good = good and Sym("PAYLOAD") in checked
                R.check(good, "H-payfmt", key, "%s: flag %r, %s payload gives %r" % (fid, flag, "valid" if valid else "invalid", r), where=fid)


    # -- the same two decoders on concrete payloads: whatever the check looks at (the validator, a byte scan for short or ASCII
    #    payloads, a length test), flag Some(true) refuses exactly the byte strings that are not UTF-8 and the payload kept is the
    #    byte string read
    nconc = 0
    for fid, kind in (("v5::connect::LastWill::decode_async", "will"), ("v5::publish::Publish::decode_async", "publish")):
        for flag, fname in ((some(True), "True"), (some(False), "False"), (NONE, "None")):
            bad = []
            sizes = set()
            for qos in (("Level0", "Level1", "cuts") if flag == some(True) else ("Level0",)):
                if qos == "cuts":
                    # the check cuts the payload into pieces: a two-, three- and four-byte character across every kind of cut,
                    # and an invalid byte in the second piece
                    todo = []
                    for n in sorted(sizes)[:4]:
                        e2, e3, e4 = "\u00e9".encode(), "\u20ac".encode(), "\U0001F600".encode()
                        todo += [b"a" * (n - 1) + e2, b"a" * (n - 1) + e3 + b"a", b"a" * (n - 2) + e4, b"a" * (n - 3) + e4 + b"a" * n,
                                 b"a" * (2 * n - 1) + e2, b"a" * n + b"\x80", b"a" * (n - 1) + b"\xc3", b"a" * (n - 1) + b"\xc3" + b"a"]
                    pls, qos = [list(b) for b in todo], "Level0"
                else:
                    pls = _payloads(full=(flag == some(True) and qos == "Level0"))
                for pl in pls:
                    try:
                        r, valid = _payfmt_concrete(F, fid, kind, flag, qos, pl, sizes)
                    except Undecided as e:
                        raise AnchorLost("%s cannot be evaluated on the payload %r: %s%s" % (fid, bytes(pl), e, ("; " + abstract_lost[0]) if abstract_lost else ""))
                    nconc += 1
                    k = result_kind(r)
                    if flag == some(True) and not valid:
                        good = k[0] == "err" and isinstance(k[1], Adt) and k[1].variant == "InvalidPayloadFormat"
                    else:
                        v = k[1] if k[0] == "ok" else None
                        got = v.fields.get("payload") if isinstance(v, Adt) else None
                        good = isinstance(got, Tup) and list(got.items) == list(pl)
                    if not good:
                        bad.append((qos, bytes(pl), repr(r)[:80]))
            R.check(not bad, "H-payfmt", "%s/bytes/flag-%s" % (kind, fname),
                    "%s with payload format flag %s: %d concrete payload(s) are not handled as `refuse iff flagged UTF-8 and not UTF-8, else keep the bytes`, e.g. %s" % (
                        fid, fname, len(bad), bad[0] if bad else ""), where=fid)
    R.floor("H-payfmt", "concrete payload evaluations", nconc, 600)


def _payloads(full):
    """Byte strings around every boundary of UTF-8: valid one- to four-byte characters, lone continuation and lead bytes, overlong
    forms, surrogates, values above U+10FFFF, truncated sequences, the offending byte first / last / after 31, 32, 33 harmless
    bytes; with `full`, additionally every single byte value."""
    out = [b"", b"a", b"\x00", b"\x7f", "\u00e9".encode(), "\u20ac".encode(), "\U0001F600".encode(), b"a" * 33, "\u00e9".encode() * 17,
           b"a" * 31 + "\u00e9".encode(), b"\x80", b"\xbf", b"\xc0\x80", b"\xc1\xbf", b"\xc2", b"\xe2\x82", b"\xed\xa0\x80", b"\xed\x9f\xbf",
           b"\xf4\x90\x80\x80", b"\xf4\x8f\xbf\xbf", b"\xf8\x88\x80\x80\x80", b"\xff", b"\xfe", b"a\x80", b"\x80a", b"\xc3\x28", b"\xe2\x28\xa1",
           b"\xf0\x28\x8c\xbc", b"\xf0\x90\x80", b"\xe0\x80\x80", b"\xf0\x80\x80\x80", "\u00e9".encode() + b"\x80", b"\xef\xbf\xbe", b"\xef\xbb\xbf"]
    for n in (7, 8, 15, 16, 31, 32, 33, 63, 64, 65):
        out += [b"a" * n + b"\x80", b"a" * n + b"\xff", b"\x80" + b"a" * n, b"a" * n + "\u00e9".encode(), b"a" * n + b"\xc3"]
    if full:
        out += [bytes([b]) for b in range(256)]
        out += [bytes([0x61, b]) for b in range(0x78, 0x100, 3)]
    seen, res = set(), []
    for b in out:
        if b not in seen:
            seen.add(b)
            res.append(list(b))
    return res


_SLICERS = {"chunks", "chunks_exact", "rchunks", "rchunks_exact", "windows", "split_at", "split_at_checked", "split_at_unchecked", "take", "skip",
            "step_by", "array_chunks", "as_chunks", "split_first_chunk", "first_chunk"}


def _payfmt_concrete(F, fid, kind, flag, qos, payload, sizes=None):
    try:
        bytes(payload).decode("utf-8")
        valid = True
    except UnicodeDecodeError:
        valid = False

    def hook(d, res, args, node, env):
        r = res or d
        name = node["fn"].get("name")
        if sizes is not None and name in _SLICERS and len(args) == 2 and isinstance(args[1], int) and not isinstance(args[1], bool) and 2 <= args[1] <= 70000:
            sizes.add(args[1])            # the payload is cut into pieces of this size: characters across a cut are tried below
            return None
        if r.endswith("Properties::decode_async"):
            return ok(Adt(r.rsplit("::", 1)[0], "P", {"payload_is_utf8": flag}))
        if r == "common::utils::read_bytes":
            return ok(Tup(list(payload)))
        if r in ("common::utils::read_string",):
            return ok(Sym("TOPIC"))
        if r == "common::utils::read_u16":
            return ok(Sym("U16"))
        if r.endswith("::try_from") and len(args) == 1 and isinstance(args[0], Sym):
            return ok(Sym(("validated", repr(args[0]))))
        if name == "encode_len":
            return 1
        if d == "alloc::vec::from_elem" and len(args) == 2 and isinstance(args[1], int):
            return Tup([args[0]] * args[1])
        if name in ("new", "default") and not args and ("vec::Vec" in d or "Bytes" in d):
            return Tup([])
        if name == "read_exact" and len(args) == 2 and isinstance(args[1], Tup):
            if len(args[1].items) != len(payload):
                raise Undecided("the payload buffer has %d bytes, the frame leaves %d" % (len(args[1].items), len(payload)))
            args[1].items[:] = list(payload)
            return ok(UNIT)
        if "simdutf8" in r and name == "from_utf8":
            if not (isinstance(args[0], Tup) and all(isinstance(x, int) for x in args[0].items)):
                raise Undecided("from_utf8 on %r" % (args[0],))
            try:
                bytes(args[0].items).decode("utf-8")
                return ok(Sym("S"))
            except UnicodeDecodeError:
                return err(Sym("E"))
        if name in ("from", "into", "deref", "as_ref", "as_slice", "new", "deref_mut", "as_mut") and len(args) == 1:
            return args[0]
        if name == "len" and len(args) == 1 and isinstance(args[0], Sym):
            return 3
        if name == "is_empty" and len(args) == 1 and isinstance(args[0], Sym):
            return False
        return None

    def cond(what, node):
        if what[0] == "try-ok":
            return True
        return None
    rl = 2 + 3 + (0 if qos == "Level0" else 2) + 1 + len(payload)
    hdr = _hdr("v5", "Publish", rl, qos=qos)
    args = [Sym("READER"), Adt("common::types::QoS", qos), False] if kind == "will" else [Sym("READER"), hdr]
    return PE(F, call_hook=hook, cond_hook=cond, fuel=20000).call_fn(fid, args), valid


# ---- packet-level encode tables -----------------------------------------------------------------------------------------

def _packet_values(F, fam):
    """[(variant, value, descriptor)] abstract Packet values, PUBLISH in all 12 flag combinations."""
    adt = "%s::packet::Packet" % fam
    out = []
    for v in F.adts[adt]["variants"]:
        name = v["name"]
        if not v["fields"]:
            out.append((name, Adt(adt, name), {}))
        elif name == "Publish":
            for q, dup, ret in itertools.product(("Level0", "Level1", "Level2"), (False, True), (False, True)):
                qp = Adt("common::types::QosPid", q, {} if q == "Level0" else {"0": Adt("common::types::Pid", "Pid", {"0": 0x1234})})
                body = Adt("%s::publish::Publish" % fam, "Publish", {"dup": dup, "retain": ret, "qos_pid": qp, "topic_name": Sym("T"),
                                                                    "payload": Sym("P"), "properties": Sym("PR")})
                out.append((name, Adt(adt, name, {"0": body}), {"qos": q, "dup": dup, "retain": ret}))
        elif v["fields"][0]["ty"].endswith("types::Pid"):
            for pid in (0x0102, 0xA5C3):
                out.append((name, Adt(adt, name, {"0": Adt("common::types::Pid", "Pid", {"0": pid})}), {"pid": pid}))
        elif name == "Connack" and fam == "v3":
            for sp, code in ((False, "Accepted"), (True, "NotAuthorized")):
                body = Adt("v3::connect::Connack", "Connack", {"session_present": sp, "code": Adt("v3::connect::ConnectReturnCode", code)})
                out.append((name, Adt(adt, name, {"0": body}), {"sp": sp, "code": code}))
        else:
            out.append((name, Adt(adt, name, {"0": Sym(("BODY", name))}), {}))
    return out


def l_fixed_values(F, R):
    """Packet::encode and Packet::encode_len evaluated for every variant: a variant is either emitted as a
    fixed byte array [control byte, remaining length, ..] whose length is 2 + that remaining-length byte and
    equals encode_len, or through encode_packet(control byte, body) with encode_len = total_len(body.encode_len())
    of the same body; control bytes equal the specification (T-ctl)."""
    n = 0
    for fam in FAMS:
        spec = S.PACKET_TYPES_V3 if fam == "v3" else S.PACKET_TYPES_V5
        by_name = {name: (nib, fl) for nib, (name, fl) in spec.items()}
        enc_fid = "%s::packet::Packet::encode" % fam
        len_fid = "%s::packet::Packet::encode_len" % fam
        gt_fid = "%s::packet::Packet::get_type" % fam
        names = {v["name"] for v in F.adts["%s::packet::Packet" % fam]["variants"]}
        R.check(names == set(by_name), "T-ctl", "%s/variants" % fam, "Packet variants %s; specification %s" % (sorted(names), sorted(by_name)))
        for name, val, desc in _packet_values(F, fam):
            n += 1
            dyn = []

            def hook(d, res, args, node, env):
                r = res or d
                if r == "common::utils::encode_packet":
                    dyn.append((args[0], args[1]))
                    return ok(Sym("ENCODED"))
                if r == "common::utils::total_len":
                    if isinstance(args[0], int) and not isinstance(args[0], bool):
                        return None          # a constant remaining length: evaluate total_len itself
                    return ok(("total_len", vkey(args[0])))
                if node["fn"].get("name") == "encode_len" and (node["fn"].get("trait") or "").endswith("Encodable"):
                    return ("encode_len", vkey(args[0]))
                return None
            try:
                r = PE(F, call_hook=hook, cond_hook=TRY_OK).call_fn(enc_fid, [val])
                dyn_enc = list(dyn)
                del dyn[:]
                rl = PE(F, call_hook=hook, cond_hook=TRY_OK).call_fn(len_fid, [val])
                gt = PE(F).call_fn(gt_fid, [val])
            except Undecided as e:
                raise AnchorLost("%s::packet::Packet::encode/encode_len cannot be evaluated for %s: %s" % (fam, name, e))
            key = "%s/%s%s" % (fam, name, ("/" + "-".join("%s" % v for v in desc.values())) if desc else "")
            R.check(isinstance(gt, Adt) and gt.variant == name, "T-ctl", key + "/get_type", "Packet::%s.get_type() is %r" % (name, gt), where=gt_fid)
            k = result_kind(r)
            kl = result_kind(rl)
            nib, fl = by_name.get(name, (None, None))
            want_cb = None
            if nib is not None:
                if fl == "publish":
                    want_cb = (nib << 4) | ({"Level0": 0, "Level1": 1, "Level2": 2}[desc["qos"]] << 1) | (8 if desc["dup"] else 0) | (1 if desc["retain"] else 0)
                else:
                    want_cb = (nib << 4) | fl
            vb = k[1] if k[0] == "ok" else None
            if isinstance(vb, Adt) and vb.variant in ("Fixed2", "Fixed4") and isinstance(vb.fields.get("0"), Tup):
                by = vb.fields["0"].items
                okk = all(isinstance(x, int) for x in by) and len(by) == 2 + by[1] and len(by) == int(vb.variant[-1])
                R.check(okk, "L-fixed", key + "/array", "Packet::%s is emitted as %s(%s): its length is not 2 + its remaining-length byte" % (name, vb.variant, by), where=enc_fid)
                R.check(kl == ("ok", len(by)), "L-fixed", key + "/encode_len", "Packet::%s: encode emits %d bytes, encode_len returns %r" % (name, len(by), rl), where=len_fid)
                R.check(by[0] == want_cb, "T-ctl", key, "Packet::%s is emitted with control byte %s; specification %#04x" % (name, by[0], want_cb or 0), where=enc_fid)
                if "pid" in desc:
                    R.check(by[2:] == [desc["pid"] >> 8, desc["pid"] & 0xFF], "L-fixed", key + "/pid-bytes",
                            "Packet::%s(pid %#06x) is emitted as %s" % (name, desc["pid"], by), where=enc_fid)
                if "sp" in desc:
                    code = {"Accepted": 0, "NotAuthorized": 5}[desc["code"]]
                    R.check(by[2:] == [int(desc["sp"]), code], "L-fixed", key + "/connack-bytes", "v3 Connack%s is emitted as %s" % (desc, by), where=enc_fid)
            elif isinstance(vb, Adt) and vb.variant == "Dynamic" and len(dyn_enc) == 1 and vb.fields.get("0") == Sym("ENCODED"):
                cb, body = dyn_enc[0]
                inner = val.fields.get("0")
                R.check(body == inner, "L-fixed", key + "/body", "Packet::%s passes %r to encode_packet (expected its own body)" % (name, body), where=enc_fid)
                R.check(cb == want_cb, "T-ctl", key, "Packet::%s is emitted with control byte %r; specification %#04x" % (name, cb, want_cb or 0), where=enc_fid)
                R.check(kl == ("ok", ("total_len", ("encode_len", vkey(inner)))), "L-fixed", key + "/encode_len",
                        "Packet::%s: encode_len is %r (expected total_len(body.encode_len()) of the same body)" % (name, rl), where=len_fid)
            else:
                R.fail("L-fixed", key + "/shape", "Packet::%s encodes to %r via %s" % (name, r, dyn_enc), where=enc_fid)
    R.floor("L-fixed", "packet values", n, 57)


# ---- reason codes / empty subscriptions ------------------------------------------------------------------------------------

def h_reason_bytes(F, R):
    """Every v5 decoder that reads a reason code reports an unknown byte as InvalidReasonCode(header.typ, byte)."""
    cases = [("Connack", "v5::connect::Connack::decode_async", 8), ("Puback", "v5::publish::Puback::decode_async", 3),
             ("Puback", "v5::publish::Puback::decode_async", 8), ("Pubrec", "v5::publish::Pubrec::decode_async", 3),
             ("Pubrec", "v5::publish::Pubrec::decode_async", 8), ("Pubrel", "v5::publish::Pubrel::decode_async", 3),
             ("Pubrel", "v5::publish::Pubrel::decode_async", 8), ("Pubcomp", "v5::publish::Pubcomp::decode_async", 3),
             ("Pubcomp", "v5::publish::Pubcomp::decode_async", 8), ("Disconnect", "v5::connect::Disconnect::decode_async", 1),
             ("Disconnect", "v5::connect::Disconnect::decode_async", 8), ("Auth", "v5::connect::Auth::decode_async", 8),
             ("Suback", "v5::subscribe::Suback::decode_async", 4), ("Unsuback", "v5::subscribe::Unsuback::decode_async", 4)]
    from r_tables import code_enums
    from r_pe import pe_from_u8_table
    fu8 = dict(code_enums(F))
    tables = {}
    n = 0
    for typ, fid, rl in cases:
        n += 1
        body = fid.rsplit("::", 1)[0]
        a = F.adts.get(body)
        fld = next((f for f in (a["variants"][0]["fields"] if a else []) if f["name"] in ("reason_code", "code")), None)
        enum = fld["ty"] if fld else None
        if typ in ("Suback", "Unsuback"):
            enum = "v5::subscribe::%sReasonCode" % ("Subscribe" if typ == "Suback" else "Unsubscribe")
        if enum not in fu8:
            raise AnchorLost("reason-code enum of %s (%s)" % (body, enum))
        if enum not in tables:
            tables[enum] = pe_from_u8_table(F, fu8[enum], enum)[0]
        table = tables[enum]
        bad = []
        for byte in range(256):
            def hook(d, res, args, node, env, byte=byte):
                r = res or d
                name = node["fn"].get("name")
                if r == "common::utils::read_u8":
                    return ok(byte)
                if r == "common::utils::read_u16":
                    return ok(Sym("U16"))
                if name == "read_exact":
                    tgt = strip(node["args"][1])
                    while tgt.get("k") == "Call":
                        tgt = strip(tgt["args"][0])
                    if tgt.get("k") == "Var":
                        env[tgt["var"]["id"]] = Tup([0, byte])
                    return ok(UNIT)
                if r.endswith("Properties::decode_async"):
                    return ok(Sym("PROPS"))
                if r.endswith("TryFrom<u16>>::try_from"):
                    return ok(Sym("PID"))
                if name == "encode_len":
                    return 1
                if name in ("new", "with_capacity") and "vec" in d.lower():
                    return Tup([])
                return None
            hdr = _hdr("v5", typ, rl)
            try:
                r = PE(F, call_hook=hook, cond_hook=TRY_OK, fuel=600).call_fn(fid, [Sym("READER"), hdr])
            except Undecided as e:
                raise AnchorLost("%s cannot be evaluated for the reason byte %#04x: %s" % (fid, byte, e))
            k = result_kind(r)
            if byte in table:
                # an accepted byte: the packet carries the variant the code table names (a list of them for SUBACK / UNSUBACK)
                good = k[0] == "ok" and isinstance(k[1], Adt)
                if good and fld is not None:
                    v = k[1].fields.get(fld["name"])
                    good = isinstance(v, Adt) and v.variant == table[byte]
                if not good:
                    bad.append((byte, "Ok with %s" % table[byte], repr(k[1] if len(k) > 1 else k)[:90]))
            else:
                good = k[0] == "err" and isinstance(k[1], Adt) and k[1].variant == "InvalidReasonCode" and \
                    k[1].fields.get("1") == byte and isinstance(k[1].fields.get("0"), Adt) and k[1].fields["0"].variant == typ
                if not good:
                    bad.append((byte, "InvalidReasonCode(%s, %#04x)" % (typ, byte), repr(k[1] if len(k) > 1 else k)[:90]))
        R.check(not bad, "H-raise", "reason-code/%s/rl%d" % (typ, rl),
                "%s with remaining length %d: reason byte %s gives %s (documented: %s); %d byte(s) disagree" % (
                    (fid, rl) + ((("%#04x" % bad[0][0]), bad[0][2], bad[0][1]) if bad else ("", "", "")) + (len(bad),)), where=fid)
    R.floor("H-raise", "reason-code cases", n, 14)


def _h_empty_acks(F, R):
    """The acknowledgements have no such rule: a SUBACK / UNSUBACK frame that ends after the packet identifier (and, in v5, an empty
    property block) is accepted with an empty list, nothing else is read."""
    for fam, typ in (("v3", "Suback"), ("v5", "Suback"), ("v5", "Unsuback")):
        fid = "%s::subscribe::%s::decode_async" % (fam, typ)
        if fid not in F.fns:
            raise AnchorLost(fid)
        reads = []

        def hook(d, res, args, node, env):
            r = res or d
            name = node["fn"].get("name")
            if r == "common::utils::read_u16":
                return ok(Sym("U16"))
            if r in ("common::utils::read_u8", "common::utils::read_string", "common::utils::read_bytes"):
                reads.append(r)
                return ok(Sym("X"))
            if r.endswith("Properties::decode_async"):
                return ok(Sym("PROPS"))
            if name == "encode_len":
                return 1
            if r.endswith("TryFrom<u16>>::try_from"):
                return ok(Sym("PID"))
            return None
        arg = 2 if fam == "v3" else _hdr("v5", typ, 3)
        try:
            r = PE(F, call_hook=hook, cond_hook=TRY_OK).call_fn(fid, [Sym("READER"), arg])
        except Undecided as e:
            raise AnchorLost("%s cannot be evaluated: %s" % (fid, e))
        k = result_kind(r)
        v = k[1] if k[0] == "ok" else None
        lst = v.fields.get("topics") if isinstance(v, Adt) else None
        empty = lst is None or (isinstance(lst, Tup) and not lst.items) or (isinstance(lst, Sym) and isinstance(lst.tag, tuple) and lst.tag[:1] == ("call",)
                                                                            and str(lst.tag[1]).rsplit("::", 1)[-1] in ("new", "with_capacity", "default"))
        good = isinstance(v, Adt) and not reads and empty
        R.check(good, "H-raise", "empty-acknowledgement/%s/%s" % (fam, typ),
                "%s on a frame that ends after the packet identifier%s returns %r after reading %s (expected: accepted with an empty list)" % (
                    fid, " and an empty property block" if fam == "v5" else "", r, reads), where=fid)


def h_empty_subscription(F, R):
    """SUBSCRIBE / UNSUBSCRIBE without any topic are rejected with EmptySubscription before a topic is read."""
    _h_empty_acks(F, R)
    for fam, typ in itertools.product(FAMS, ("Subscribe", "Unsubscribe")):
        fid = "%s::subscribe::%s::decode_async" % (fam, typ)
        reads = []

        def hook(d, res, args, node, env):
            r = res or d
            name = node["fn"].get("name")
            if r == "common::utils::read_u16":
                return ok(Sym("U16"))
            if r == "common::utils::read_string":
                reads.append("topic")
                return ok(Sym("TOPIC"))
            if r == "common::utils::decode_var_int":
                return ok(Tup([0, 1]))
            if r.endswith("Properties::decode_async"):
                return ok(Sym("PROPS"))
            if name == "encode_len":
                return 1
            if r.endswith("TryFrom<u16>>::try_from"):
                return ok(Sym("PID"))
            return None
        arg = 2 if fam == "v3" else _hdr("v5", typ, 3)
        try:
            r = PE(F, call_hook=hook, cond_hook=TRY_OK).call_fn(fid, [Sym("READER"), arg])
        except Undecided as e:
            raise AnchorLost("%s cannot be evaluated: %s" % (fid, e))
        k = result_kind(r)
        good = k[0] == "err" and isinstance(k[1], Adt) and k[1].variant == "EmptySubscription" and not reads
        # a remaining length that does not even cover the identifier (and the property block) is a length error, not an empty list
        del reads[:]
        small = 1 if fam == "v3" else _hdr("v5", typ, 2)
        try:
            r2 = PE(F, call_hook=hook, cond_hook=TRY_OK).call_fn(fid, [Sym("READER"), small])
            k2 = result_kind(r2)
        except Undecided as e:
            k2 = ("undecided", str(e))
        R.check(k2[0] == "err" and isinstance(k2[1], Adt) and k2[1].variant == "InvalidRemainingLength", "H-raise", "short-frame/%s/%s" % (fam, typ),
                "%s with a remaining length smaller than the packet identifier%s gives %r (documented: InvalidRemainingLength)" % (
                    fid, " plus the property block" if fam == "v5" else "", k2[1] if len(k2) > 1 else k2), where=fid)
        R.check(good, "H-raise", "empty-subscription/%s/%s" % (fam, typ),
                "%s on a frame that ends after the packet identifier%s returns %r after reading %s" % (fid, " and an empty property block" if fam == "v5" else "", r, reads), where=fid)
        # a frame whose only entry is the empty filter: the entry is read and the filter's constructor classifies it
        # (InvalidTopicFilter carrying the string read), whatever length bookkeeping surrounds the read
        def hook3(d, res, args, node, env):
            r_ = res or d
            if r_ == "common::utils::read_string":
                return ok(Sym("EMPTY"))
            if r_ == "common::utils::read_u8":
                return ok(0)
            if r_.endswith("TryFrom<alloc::string::String>>::try_from") and "TopicFilter" in r_:
                return err(Adt("common::error::Error", "InvalidTopicFilter", {"0": args[0]}))
            if node["fn"].get("name") == "len" and len(args) == 1 and args[0] == Sym("EMPTY"):
                return 0
            return hook(d, res, args, node, env)
        n3 = 2 + 2 + (1 if typ == "Subscribe" else 0) + (1 if fam == "v5" else 0)
        arg3 = n3 if fam == "v3" else _hdr("v5", typ, n3)
        try:
            k3 = result_kind(PE(F, call_hook=hook3, cond_hook=TRY_OK).call_fn(fid, [Sym("READER"), arg3]))
        except Undecided as e:
            k3 = ("undecided", str(e))
        e3 = unwrap_common(k3[1]) if len(k3) > 1 else None
        R.check(k3[0] == "err" and isinstance(e3, Adt) and e3.variant == "InvalidTopicFilter" and e3.fields.get("0") == Sym("EMPTY"),
                "H-raise", "empty-filter-entry/%s/%s" % (fam, typ),
                "%s on a frame whose only entry is the empty filter gives %r (documented: InvalidTopicFilter(the string read))" % (
                    fid, k3[1] if len(k3) > 1 else k3), where=fid)


# ---- short forms of the v5 acknowledgement family -------------------------------------------------------------------

SHORT_FORMS = {
    # decoder: (bytes before the reason code, [remaining lengths evaluated])
    "v5::publish::Puback::decode_async": ("Puback", 2), "v5::publish::Pubrec::decode_async": ("Pubrec", 2),
    "v5::publish::Pubrel::decode_async": ("Pubrel", 2), "v5::publish::Pubcomp::decode_async": ("Pubcomp", 2),
    "v5::connect::Disconnect::decode_async": ("Disconnect", 0), "v5::connect::Auth::decode_async": ("Auth", 0),
}


def h_shortform(F, R):
    """MQTT 5 short forms (3.4.2.1, 3.14.2.1, 3.15.2.1), decided by evaluating each decoder on concrete
    remaining lengths with byte-counting read hooks. With `pre` bytes before the reason code (2 for the PUBACK
    family, 0 for DISCONNECT/AUTH): remaining length pre -> nothing further read, reason Success/Normal and default
    properties; pre+1 -> exactly the reason byte (PUBACK family and DISCONNECT only; AUTH has no such form and
    must go on to the property length); >= pre+2 -> reason byte, then the property decoder. In every accepted
    fixed-size form the bytes read equal the remaining length (nothing is left for the next packet)."""
    n = 0
    for fid, (typ, pre) in sorted(SHORT_FORMS.items()):
        if fid not in F.fns:
            raise AnchorLost(fid)
        for rl in range(pre, pre + 7):
            n += 1
            st = {"read": 0, "props": 0, "after_props": 0}

            def hook(d, res, args, node, env):
                r = res or d
                name = node["fn"].get("name")
                size = {"common::utils::read_u8": 1, "common::utils::read_u16": 2, "common::utils::read_u32": 4}.get(r)
                if size:
                    st["after_props" if st["props"] else "read"] += size
                    return ok(0 if size == 1 else 7)
                if name == "read_exact":
                    buf = args[1] if len(args) > 1 else None
                    k = len(buf.items) if isinstance(buf, Tup) else None
                    if k is None:
                        raise Undecided("read_exact into a buffer of unknown size")
                    st["after_props" if st["props"] else "read"] += k
                    tgt = strip(node["args"][1])
                    while tgt.get("k") == "Call":
                        tgt = strip(tgt["args"][0])
                    if tgt.get("k") == "Var":
                        env[tgt["var"]["id"]] = Tup([0] * (k - 1) + [7 if k > 1 else 0])
                    return ok(UNIT)
                if r.endswith("Properties::decode_async"):
                    st["props"] += 1
                    return ok(Sym("PROPS"))
                if r in ("common::utils::read_bytes", "common::utils::read_string", "common::utils::decode_var_int"):
                    raise Undecided("unexpected read %s" % r)
                if r.endswith("TryFrom<u16>>::try_from"):
                    return ok(Sym("PID"))
                if name == "default" and not args:
                    return Sym("DEFAULT")
                return None
            hdr = _hdr("v5", typ, rl)
            try:
                r = PE(F, call_hook=hook, cond_hook=TRY_OK).call_fn(fid, [Sym("READER"), hdr])
            except Undecided as e:
                raise AnchorLost("%s cannot be evaluated for remaining length %d: %s" % (fid, rl, e))
            k = result_kind(r)
            key = "%s/rl%d" % (typ, rl)
            want_read = min(rl, pre + 1)
            want_props = 1 if (rl >= pre + 2 or (typ == "Auth" and rl == pre + 1)) else 0
            got = (k[0], st["read"], st["props"], st["after_props"])
            if want_props:
                good = got == ("ok", want_read, 1, 0) or (typ == "Auth" and rl == pre + 1 and k[0] == "err")
            else:
                good = got == ("ok", want_read, 0, 0)
            R.check(good, "H-shortform", key,
                    "%s with remaining length %d: result %s after reading %d fixed bytes, %d property-block decodes, %d bytes after them "
                    "(specified: %d fixed bytes, %s)" % (fid, rl, k[0], st["read"], st["props"], st["after_props"], want_read,
                                                        "then the property block" if want_props else "no property block, defaults"), where=fid)
            if good and k[0] == "ok" and isinstance(k[1], Adt):
                props = k[1].fields.get("properties")
                R.check(props == (Sym("PROPS") if want_props else Sym("DEFAULT")), "H-shortform", key + "/properties",
                        "%s with remaining length %d stores %r as properties" % (fid, rl, props), where=fid)
                rc = k[1].fields.get("reason_code")
                R.check(isinstance(rc, Adt) and rc.variant in ("Success", "NormalDisconnect", "NormalDisconnection"), "H-shortform", key + "/reason",
                        "%s with remaining length %d and reason byte 0 (or none) yields reason %r" % (fid, rl, rc), where=fid)
    R.floor("H-shortform", "decoder x remaining length", n, 42)


# ---- hand-written comparison impls of TopicFilter ------------------------------------------------------------------------

def h_fields_values(F, R):
    """TopicFilter's PartialEq::eq, Ord::cmp, PartialOrd::partial_cmp and Hash::hash evaluated on abstract values:
    the result is exactly the text's own eq / cmp / hash, for any value of the cached separator index."""
    adt = "common::types::TopicFilter"
    n = 0
    for seps in ((0, 0), (3, 5), (4, 0)):
        a = Adt(adt, "TopicFilter", {"inner": Sym("A"), "shared_filter_sep": seps[0]})
        b = Adt(adt, "TopicFilter", {"inner": Sym("B"), "shared_filter_sep": seps[1]})
        for tr, m in (("PartialEq", "eq"), ("Ord", "cmp"), ("PartialOrd", "partial_cmp"), ("Hash", "hash")):
            fid = F.impl_method(tr, adt, m)
            if fid is None:
                raise AnchorLost("impl %s for TopicFilter" % tr)
            n += 1
            calls = []

            def hook(d, res, args, node, env):
                fn = node["fn"]
                if (res or d) in F.fns:
                    return None
                if fn.get("krate") != F.data["crate"] and fn.get("name") in ("eq", "ne", "cmp", "partial_cmp", "hash", "lt", "le", "gt", "ge"):
                    calls.append((fn["name"], tuple(vkey(x) for x in args)))
                    return Sym((fn["name"],) + tuple(vkey(x) for x in args))
                if fn.get("krate") != F.data["crate"] and fn.get("name") in ("get", "get_unchecked", "index", "split_at", "len", "as_bytes") and args:
                    return Sym(("slice-of", vkey(args[0]), tuple(vkey(x) for x in args[1:])))
                return None

            def cond(what, node):
                if what[0] == "cmp" or what[0] == "truth":
                    return True
                return None
            try:
                pe = PE(F, call_hook=hook, cond_hook=cond)
                pe.symbolic_eq = True
                r = pe.call_fn(fid, [a, b if m != "hash" else Sym("STATE")])
                for ev in pe.events:
                    if ev[0] == "eq":
                        calls.append(("eq" if ev[1] == "Eq" else "ne", (ev[2], ev[3])))
            except Undecided as e:
                raise AnchorLost("%s::%s for TopicFilter cannot be evaluated: %s" % (tr, m, e))
            A, B = vkey(Sym("A")), vkey(Sym("B"))
            if m == "hash":
                good = calls == [("hash", (A, vkey(Sym("STATE"))))]
            elif m == "partial_cmp":
                good = (r == some(Sym(("cmp", A, B))) and calls == [("cmp", (A, B))]) or (r == Sym(("partial_cmp", A, B)) and len(calls) == 1)
            else:
                good = r == Sym((m, A, B)) and calls == [(m, (A, B))]
            R.check(good, "H-fields", "%s/value/sep-%d-%d" % (tr, seps[0], seps[1]),
                    "%s::%s for TopicFilter (cached separator indices %s) evaluates to %r via %s; it must be exactly the text's own %s" % (
                        tr, m, seps, r, calls[:3], m), where=fid)
    R.floor("H-fields", "comparison impl evaluations", n, 12)


# ---- protocol name / level ---------------------------------------------------------------------------------------------

def _bytes_of(v):
    if isinstance(v, tuple) and v and v[0] in ("bytes", "str"):
        return bytes(v[1]) if v[0] == "bytes" else v[1].encode()
    if isinstance(v, Tup) and all(isinstance(x, int) for x in v.items):
        return bytes(v.items)
    return None


def t_proto_values(F, R):
    """Protocol::new evaluated on every (name class, level 0..255): the two specified names, five near-miss names and
    an opaque 'any other name' (every comparison of which with a constant is false) -- accepts exactly (MQIsdp,3)
    (MQTT,4) (MQTT,5); everything else is InvalidProtocol(the name as text, the level), or InvalidString when the name
    is not UTF-8. Protocol::to_pair is the inverse; the discriminants are the levels (`protocol as u8` is the wire byte)."""
    enum_path = "common::types::Protocol"
    discr = enum_discriminants(F, enum_path)
    for v, (name, level) in S.PROTOCOLS.items():
        R.check(discr.get(v) == level, "T-proto", "discr/%s" % v, "Protocol::%s has discriminant %r, level is %d" % (v, discr.get(v), level))
    R.check(set(discr) == set(S.PROTOCOLS), "T-proto", "variants", "Protocol variants are %s" % sorted(discr))
    fid = "common::types::Protocol::new"
    want = {(n, l): v for v, (n, l) in S.PROTOCOLS.items()}
    names = [b"MQIsdp", b"MQTT", b"MQTt", b"MQIsdP", b"", b"MQTTX", b"MQIsd", None]
    n = 0
    bad = []
    for name in names:
        for utf8 in (True, False):
            for level in range(256):
                n += 1
                arg = ("bytes", tuple(name)) if name is not None else Sym("OTHERNAME")
                seen = []

                def hook(d, res, args, node, env):
                    r = res or d
                    if r == "simdutf8::basic::from_utf8" or (node["fn"].get("name") == "from_utf8"):
                        seen.append(args[0])
                        return ok(Sym(("text-of", vkey(args[0])))) if utf8 else err(Sym("UTF8ERR"))
                    if node["fn"].get("name") in ("into", "to_owned", "to_string", "from", "as_ref", "deref") and len(args) == 1 and \
                            isinstance(args[0], Sym) and isinstance(args[0].tag, tuple) and args[0].tag[0] == "text-of":
                        return args[0]
                    return None

                def cond(what, node):
                    if what[0] == "cmp" and what[1] in ("Eq", "Ne") and (("sym", "OTHERNAME") in what[2:]):
                        return what[1] == "Ne"
                    if what[0] in ("pat-const", "pat-slice") and what[1] == Sym("OTHERNAME"):
                        return False
                    if what[0] == "try-ok":
                        return None
                    return None
                try:
                    r = PE(F, call_hook=hook, cond_hook=cond).call_fn(fid, [arg, level])
                except Undecided as e:
                    raise AnchorLost("Protocol::new cannot be evaluated on (%r, %d): %s" % (name, level, e))
                k = result_kind(r)
                w = want.get((name, level))
                if w is not None:
                    good = k[0] == "ok" and isinstance(k[1], Adt) and k[1].variant == w
                elif not utf8:
                    good = k[0] == "err" and isinstance(k[1], Adt) and k[1].variant == "InvalidString"
                else:
                    good = k[0] == "err" and isinstance(k[1], Adt) and k[1].variant == "InvalidProtocol" and k[1].fields.get("1") == level and \
                        isinstance(k[1].fields.get("0"), Sym) and k[1].fields["0"].tag == ("text-of", vkey(arg))
                if not good:
                    bad.append(((name.decode() if name is not None else "<other>"), level, utf8, repr(r)[:120]))
    R.check(not bad, "T-proto", "new", "Protocol::new differs from the specification on %d (name, level) pairs, e.g. %s" % (len(bad), bad[:3]), where=fid)
    tp = "common::types::Protocol::to_pair"
    for v, (nm, lv) in S.PROTOCOLS.items():
        r = PE(F).call_fn(tp, [Adt(enum_path, v)])
        got = (_bytes_of(r.items[0]), r.items[1]) if isinstance(r, Tup) and len(r.items) == 2 else None
        R.check(got == (nm, lv), "T-proto", "to_pair/%s" % v, "Protocol::%s.to_pair() is %r, specification (%r, %d)" % (v, r, nm, lv), where=tp)
    R.sample({"rule": "T-proto", "name_classes": len(names), "evaluations": n})
    R.floor("T-proto", "evaluations of Protocol::new", n, 4096)


def h_protoread_values(F, R):
    """Protocol::decode_async reads the name (read_bytes) then the level (read_u8) and returns Protocol::new(name, level)
    of exactly those two values; Connect::decode_async of each family is Protocol::decode_async followed by
    decode_with_protocol(reader, header, that protocol)."""
    fid = "common::types::Protocol::decode_async"
    order = []
    newargs = []

    def hook(d, res, args, node, env):
        r = res or d
        if r == "common::utils::read_bytes":
            order.append("read_bytes")
            return ok(Sym("NAMEBUF"))
        if r == "common::utils::read_u8":
            order.append("read_u8")
            return ok(Sym("LEVEL"))
        if r.startswith("common::utils::read_") or r == "common::utils::decode_var_int":
            order.append(r)
            return ok(Sym("X"))
        if r == "common::types::Protocol::new":
            order.append("new")
            newargs.append(tuple(args))
            return ok(Sym("PROTOCOL"))
        if node["fn"].get("name") in ("deref", "as_ref", "as_slice", "borrow") and len(args) == 1:
            return args[0]
        return None
    try:
        r = PE(F, call_hook=hook, cond_hook=TRY_OK).call_fn(fid, [Sym("READER")])
    except Undecided as e:
        raise AnchorLost("Protocol::decode_async cannot be evaluated: %s" % e)
    R.check(order == ["read_bytes", "read_u8", "new"], "H-protoread", "reads", "Protocol::decode_async performs %s (expected read_bytes, read_u8, Protocol::new)" % order, where=fid)
    R.check(newargs == [(Sym("NAMEBUF"), Sym("LEVEL"))], "H-protoread", "args",
            "Protocol::new is called with %s (expected the name buffer and the level byte just read)" % (newargs,), where=fid)
    R.check(r == ok(Sym("PROTOCOL")), "H-protoread", "result", "Protocol::decode_async returns %r (expected what Protocol::new returned)" % (r,), where=fid)
    for fam in FAMS:
        cf = "%s::connect::Connect::decode_async" % fam
        seq = []

        def hook2(d, res, args, node, env):
            rr = res or d
            if rr == "common::types::Protocol::decode_async":
                seq.append("protocol")
                return ok(Sym("PROTOCOL"))
            if rr == "%s::connect::Connect::decode_with_protocol" % fam:
                seq.append(("with", tuple(_role(a, HDR) if a != Sym("PROTOCOL") else "PROTOCOL" for a in args)))
                return ok(Sym("CONNECT"))
            if rr.startswith("common::utils::read_"):
                seq.append(rr)
                return ok(Sym("X"))
            return None
        HDR = _hdr(fam, "Connect", 20)
        nparams = len([p for p in F.fns[cf]["thir"]["params"] if p.get("pat") is not None])
        try:
            r = PE(F, call_hook=hook2, cond_hook=TRY_OK).call_fn(cf, [Sym("READER"), HDR][:nparams])
        except Undecided as e:
            raise AnchorLost("%s cannot be evaluated: %s" % (cf, e))
        good = len(seq) == 2 and seq[0] == "protocol" and seq[1][0] == "with" and seq[1][1][0] == "READER" and seq[1][1][-1] == "PROTOCOL" and r == ok(Sym("CONNECT"))
        R.check(good, "H-compose", fam, "%s performs %s and returns %r (expected Protocol::decode_async, then decode_with_protocol(reader, header, that protocol))" % (cf, seq, r), where=cf)


# ---- map_err sites -------------------------------------------------------------------------------------------------------

def _map_fn_value(pe, node):
    node = strip(node)
    if node.get("k") == "Closure":
        return ("closure", node["def"], {})
    if node.get("k") == "Zst" and node.get("fn"):
        fn = node["fn"]
        return ("fn", fn.get("res") or fn.get("def"), fn)
    return None


def h_noswallow_maps(F, R):
    """Every `Result::map_err(f)` in the crate, with f *evaluated* on abstract errors (closure, function reference or
    constructor alike): on an io::Error the result is IoError(err.kind(), ..) (kind preserved); on a crate error, which can
    carry an I/O error, every IoError(kind) maps to IoError(same kind) and every other variant to itself (possibly wrapped in
    ErrorV5::Common), the one documented exception being InvalidTopicName -> InvalidResponseTopic; errors of pure computations
    (UTF-8 validation, integer conversion) may be replaced freely."""
    from r_io import all_bodies, _err_type, IO_CARRYING
    from r_pe import _error_variants, _err_value, _io, KINDS
    n = 0
    cats = {"io": 0, "crate-error": 0, "pure": 0}
    for fid, f, b in all_bodies(F):
        for x in walk_all(b):
            if x.get("k") != "Call" or x["fn"].get("name") != "map_err" or not (x["fn"].get("def") or "").startswith("core::result::Result"):
                continue
            n += 1
            root = f["root"]
            et = _err_type(x["args"][0].get("ty")) or ""
            key = "%s/map_err-%s" % (root, et.rsplit("::", 1)[-1] or "?")
            pe = None

            def hook(d, res, args, node, env):
                if d == "std::io::error::Error::kind" and args and args[0] == Sym("ioerr"):
                    return Sym("ioerr.kind")
                if node["fn"].get("name") in ("to_string", "to_owned") and len(args) == 1:
                    return Sym("text")
                return None
            pe = PE(F, call_hook=hook)
            fv = _map_fn_value(pe, x["args"][1])
            if fv is None:
                R.fail("H-noswallow", key, "%s: map_err with %s (neither a closure nor a function)" % (root, pp(x["args"][1])[:60]), where=loc(x))
                continue
            if et == "std::io::error::Error":
                cats["io"] += 1
                try:
                    r = unwrap_common(pe.apply(fv, [Sym("ioerr")]))
                except Undecided as e:
                    r = "undecided: %s" % e
                good = isinstance(r, Adt) and r.variant == "IoError" and r.fields.get("0") == Sym("ioerr.kind")
                R.check(good, "H-noswallow", key, "%s maps an I/O error to %r: the error kind of the transport is not preserved" % (root, r), where=loc(x))
            elif (et in IO_CARRYING or "::" not in et or et.startswith("<")) and \
                    any(y.get("k") == "Await" or (y.get("k") == "Call" and y["fn"].get("name") == "block_on") for y in walk_all(x["args"][0])):
                cats["crate-error"] += 1
                bad = []
                adts = ["common::error::Error"] + (["v5::error::ErrorV5"] if et != "common::error::Error" else [])
                for adt in adts:
                    for v in _error_variants(F, adt):
                        if v == "Common":
                            continue
                        vals = [_io(k) for k in KINDS] if v == "IoError" else [_err_value(F, adt, v)]
                        for val in vals:
                            arg = val if (et == "common::error::Error" or adt != "common::error::Error") else Adt("v5::error::ErrorV5", "Common", {"0": val})
                            try:
                                r = unwrap_common(pe.apply(fv, [arg]))
                            except Undecided as e:
                                bad.append((v, "undecided: %s" % str(e)[:80]))
                                continue
                            if r == val:
                                continue
                            if v == "InvalidTopicName" and isinstance(r, Adt) and r.variant == "InvalidResponseTopic" and "Properties::decode_async" in root:
                                continue
                            bad.append((v if v != "IoError" else "IoError(%s)" % val.fields["0"].variant, repr(r)[:80]))
                R.check(not bad, "H-noswallow", key,
                        "%s: map_err on a Result<_, %s> changes errors that may be I/O errors or must be reported as they are: %s" % (root, et, bad[:3]), where=loc(x))
            else:
                cats["pure"] += 1
                R.ok("H-noswallow", key, "error of a computation that performs no I/O (%s, no await in the receiver) replaced" % et)
    R.floor("H-noswallow", "map_err sites", n, 4)
    R.analysed["map_err_sites"] = dict(cats)


# ---- Display of the validated text types ----------------------------------------------------------------------------------

_DISPLAY_OK_CALLS = {
    "core::fmt::Formatter::<'a>::write_fmt": "write_fmt", "core::fmt::Formatter::<'a>::write_str": "write_str",
    "core::fmt::Formatter::<'a>::pad": "pad", "core::fmt::Write::write_str": "write_str",
    "core::fmt::rt::Argument::<'_>::new_display": "arg", "core::fmt::Arguments::<'a>::new": "args",
    "core::fmt::Display::fmt": "display",
}
_TEXT_VIEWS = ("deref", "as_str", "as_ref", "borrow", "as_bytes", "clone")


def h_display(F, R):
    """Display for TopicName / TopicFilter writes the text and nothing else: the body is `write!(f, "{}", text)`,
    `f.write_str(text)`, `f.pad(text)` or `Display::fmt(text, f)` on the text field; the format template is a single
    `{}`; no other call (escaping, character iteration, extra literals) occurs."""
    for adt, field in (("common::types::TopicName", "0"), ("common::types::TopicFilter", "inner")):
        name = adt.rsplit("::", 1)[1]
        fid = F.impl_method("Display", adt, "fmt")
        if fid is None:
            raise AnchorLost("impl Display for %s" % name)
        b = nbody(F, fid)
        bad = []
        sinks = 0
        for x in walk_all(b):
            if x.get("k") == "Call":
                d = x["fn"].get("def") or ""
                role = _DISPLAY_OK_CALLS.get(d)
                if role is None and x["fn"].get("name") in _TEXT_VIEWS and len(x["args"]) == 1:
                    continue
                if role is None and len(x["args"]) == 1 and _is_text_accessor(F, x["fn"].get("res") or d, adt, field):
                    continue          # a private accessor of the crate that, evaluated, returns the text field
                if role is None:
                    bad.append("calls %s" % d)
                    continue
                if role in ("write_str", "pad", "display", "arg"):
                    # the text operand: a path ending in the text field of self
                    ops = [a for a in x["args"] if "Formatter" not in (a.get("ty") or "")]
                    txt = strip(ops[0]) if ops else {}
                    while txt.get("k") == "Call" and txt["fn"].get("name") in _TEXT_VIEWS and len(txt["args"]) == 1:
                        txt = strip(txt["args"][0])
                    if txt.get("k") == "Call" and len(txt["args"]) == 1 and _is_text_accessor(F, txt["fn"].get("res") or txt["fn"].get("def"), adt, field) \
                            and pp(strip(txt["args"][0])).lstrip("&*") == "self":
                        continue_ok = True
                        if role != "arg":
                            sinks += 1
                        continue
                    if txt.get("k") == "Field" and txt.get("name") == "0" and txt.get("adt") is None and strip(txt["lhs"]).get("k") == "Var":
                        # `args.0` of the format_args! expansion: resolve the tuple binding
                        tup = _resolve_local(b, strip(txt["lhs"])["var"]["id"])
                        if tup is not None and tup.get("k") == "Tuple" and tup["items"]:
                            txt = strip(tup["items"][0])
                            while txt.get("k") == "Call" and txt["fn"].get("name") in _TEXT_VIEWS and len(txt["args"]) == 1:
                                txt = strip(txt["args"][0])
                            if txt.get("k") == "Call" and len(txt["args"]) == 1 and _is_text_accessor(F, txt["fn"].get("res") or txt["fn"].get("def"), adt, field) \
                                    and pp(strip(txt["args"][0])).lstrip("&*") == "self":
                                if role != "arg":
                                    sinks += 1
                                continue
                    okk = txt.get("k") == "Field" and txt.get("name") == field and (txt.get("adt") or "").endswith(name) and \
                        strip(txt["lhs"]).get("k") == "Var" and strip(txt["lhs"])["var"].get("name") == "self"
                    if not okk:
                        bad.append("%s of %s instead of the text field" % (role, pp(txt)[:60]))
                    if role != "arg":
                        sinks += 1
                if role == "write_fmt":
                    sinks += 1
                if role == "args":
                    lits = [y for y in walk_all(x["args"][0]) if y.get("k") == "Lit" and "bytes" in y]
                    tmpl = list(lits[0]["bytes"]) if lits else None
                    if tmpl != [0xC0, 0x00]:
                        bad.append("format template %r is not a single `{}`" % (tmpl,))
            elif x.get("k") in ("Loop", "While", "For", "Match", "If"):
                bad.append("control flow (%s)" % x["k"])
        R.check(not bad and sinks == 1, "H-display", name,
                "Display for %s does more than write the text once: %s" % (name, "; ".join(bad[:3]) or "%d output calls" % sinks), where=fid)


def _is_text_accessor(F, fid, adt, field):
    """a crate function of one argument that, evaluated on an abstract value of the type, returns its text field"""
    if fid not in F.fns or not F.fns[fid].get("thir"):
        return False
    cache = getattr(F, "_text_acc", None)
    if cache is None:
        cache = F._text_acc = {}
    key = (fid, adt)
    if key not in cache:
        try:
            v = PE(F).call_fn(fid, [Adt(adt, adt.rsplit("::", 1)[1], {field: Sym("TEXT"), "shared_filter_sep": Sym("SEP")})])
            cache[key] = (v == Sym("TEXT"))
        except Exception:
            cache[key] = False
    return cache[key]


def _resolve_local(b, vid):
    for n in walk_all(b):
        if n.get("k") == "Block":
            for s in n.get("stmts", []):
                if s["k"] == "Let" and s["pat"].get("k") == "Binding" and s["pat"]["var"]["id"] == vid and s.get("init") is not None:
                    return strip(s["init"])
        if n.get("k") == "Match":
            for arm in n.get("arms", []):
                p = arm["pat"]
                if p.get("k") == "Binding" and p["var"]["id"] == vid:
                    return strip(n["scrut"])
    return None


def h_tn_values(F, R):
    """TopicName accessors evaluated on an abstract name: deref returns the text; is_shared / is_sys are exactly
    text.starts_with("$share/") / text.starts_with("$SYS/")."""
    adt = "common::types::TopicName"
    tn = Adt(adt, "TopicName", {"0": Sym("TEXT")})

    def hook(d, res, args, node, env):
        if (res or d) in F.fns:
            return None
        if node["fn"].get("name") == "starts_with" and len(args) == 2:
            return Sym(("starts_with", vkey(args[0]), _str_of(args[1])))
        return None
    for m, want in (("is_shared", "$share/"), ("is_sys", "$SYS/")):
        fid = adt + "::" + m
        try:
            r = PE(F, call_hook=hook).call_fn(fid, [tn])
        except Undecided as e:
            raise AnchorLost("%s cannot be evaluated: %s" % (fid, e))
        R.check(r == Sym(("starts_with", vkey(Sym("TEXT")), want)), "H-tn-read", m,
                "TopicName::%s evaluates to %r (expected text.starts_with(%r))" % (m, r, want), where=fid)
    d = F.impl_method("Deref", adt, "deref")
    r = PE(F).call_fn(d, [tn])
    R.check(r == Sym("TEXT"), "H-tn-read", "deref", "TopicName::deref returns %r (expected the text)" % (r,), where=d)


def _str_of(v):
    if isinstance(v, tuple) and v and v[0] == "str":
        return v[1]
    if isinstance(v, tuple) and v and v[0] == "bytes":
        return bytes(v[1]).decode("latin1")
    if isinstance(v, str):
        return v
    return repr(v)


# ---- the version gate of CONNECT ---------------------------------------------------------------------------------------------

def s_gate_values(F, R):
    """decode_with_protocol of each family, evaluated for every Protocol variant with reads counted: a protocol of the other
    family is refused with UnexpectedProtocol(that protocol) before a single byte is read; a protocol of its own family is not
    refused by the gate (the decoder goes on to read the connect flags)."""
    accept = {"v3": {"V310", "V311"}, "v5": {"V500"}}
    variants = [v["name"] for v in F.adts["common::types::Protocol"]["variants"]]
    n = 0
    for fam in FAMS:
        fid = "%s::connect::Connect::decode_with_protocol" % fam
        if fid not in F.fns:
            raise AnchorLost(fid)
        for v in variants:
            n += 1
            reads = []

            class _Stop(Exception):
                pass

            def hook(d, res, args, node, env):
                r = res or d
                if r.startswith("common::utils::read_") or r == "common::utils::decode_var_int" or node["fn"].get("name") in ("read_exact", "read", "poll_read") \
                        or r.endswith("::decode_async"):
                    reads.append(r)
                    raise _Stop()
                return None
            proto = Adt("common::types::Protocol", v)
            nparams = len([p for p in F.fns[fid]["thir"]["params"] if p.get("pat") is not None])
            args = [Sym("READER")] + ([_hdr(fam, "Connect", 30)] if nparams == 3 else []) + [proto]
            try:
                r = PE(F, call_hook=hook, cond_hook=TRY_OK).call_fn(fid, args)
                k = result_kind(r)
            except _Stop:
                k = ("reads",)
            except Undecided as e:
                raise AnchorLost("%s cannot be evaluated for Protocol::%s: %s" % (fid, v, e))
            if v in accept[fam]:
                good = k == ("reads",)
                R.check(good, "S-gate", "%s/%s" % (fam, v), "%s with its own protocol %s: %s (expected: passes the gate and starts reading)" % (fid, v, k), where=fid)
            else:
                good = k[0] == "err" and isinstance(k[1], Adt) and k[1].variant == "UnexpectedProtocol" and k[1].fields.get("0") == proto and not reads
                R.check(good, "S-gate", "%s/%s" % (fam, v),
                        "%s with the other family's protocol %s: %s after %d read(s) (expected Err(UnexpectedProtocol(%s)) before any byte is read)" % (
                            fid, v, k if k[0] != "err" else repr(k[1]), len(reads), v), where=fid)
    R.floor("S-gate", "family x protocol evaluations", n, 6)


# ---- the async encoder entry points and VarBytes ---------------------------------------------------------------------------

def h_async1_values(F, R):
    """Packet::encode_async of each family, evaluated with its sink calls recorded: it computes self.encode() once, hands the
    *whole* encoded container (`data.as_ref()`) to exactly one write_all, returns Ok(()) when that succeeds, the encoder's
    error when encode fails (without touching the sink) and the sink's error (kind preserved) when the write fails."""
    for fam in FAMS:
        fid = "%s::packet::Packet::encode_async" % fam
        if fid not in F.fns:
            raise AnchorLost(fid)
        for scenario in ("ok", "encode-fails", "write-fails"):
            sink = []
            encs = []

            def hook(d, res, args, node, env):
                r = res or d
                name = node["fn"].get("name")
                if r == "%s::packet::Packet::encode" % fam:
                    encs.append(args[0])
                    return err(Sym("ENCERR")) if scenario == "encode-fails" else ok(Sym("DATA"))
                if name == "as_ref" and len(args) == 1 and args[0] == Sym("DATA"):
                    return Sym("DATA.as_ref")
                tr = node["fn"].get("trait") or ""
                if tr.endswith("AsyncWriteExt") or tr.endswith("AsyncWrite") or tr.endswith("io::Write") or name in ("poll_write", "poll_flush", "poll_fn"):
                    sink.append((name, args[1] if len(args) > 1 else None))
                    if scenario == "write-fails":
                        return err(Sym("ioerr"))
                    return ok(UNIT)
                if d == "std::io::error::Error::kind" and args and args[0] == Sym("ioerr"):
                    return Sym("ioerr.kind")
                if name in ("to_string", "to_owned") and len(args) == 1:
                    return Sym("text")
                return None
            try:
                r = PE(F, call_hook=hook).call_fn(fid, [Sym("SELF"), Sym("WRITER")])
            except Undecided as e:
                R.fail("H-async1", "%s/%s/undecided" % (fam, scenario),
                       "%s cannot be evaluated as `encode()?; write_all(data.as_ref())?; Ok(())` (%s): it takes another path to the sink" % (fid, str(e)[:160]), where=fid)
                continue
            k = result_kind(r)
            if scenario == "ok":
                good = encs == [Sym("SELF")] and sink == [("write_all", Sym("DATA.as_ref"))] and k[0] == "ok"
                R.check(good, "H-async1", "%s/one-write_all" % fam,
                        "%s: encode called on %s, sink calls %s, result %r (expected one encode of self, one write_all of the whole encoding, Ok)" % (
                            fid, encs, sink, r), where=fid)
            elif scenario == "encode-fails":
                good = not sink and k[0] == "err" and (k[1] == Sym("ENCERR") or (isinstance(k[1], Sym) and "ENCERR" in repr(k[1])))
                R.check(good, "H-async1", "%s/encode-error" % fam, "%s when encode fails: sink calls %s, result %r" % (fid, sink, r), where=fid)
            else:
                e = k[1] if k[0] == "err" else None
                good = len(sink) == 1 and isinstance(e, Adt) and e.variant == "IoError" and e.fields.get("0") == Sym("ioerr.kind")
                good = good or (len(sink) == 1 and k[0] == "err" and e == Sym("ioerr"))
                R.check(good, "H-async1", "%s/write-error" % fam, "%s when the write fails: sink calls %s, result %r (expected the I/O error, kind preserved)" % (fid, sink, r), where=fid)


def h_asref_values(F, R):
    """VarBytes::as_ref returns the whole container for every variant."""
    fid = "<common::types::VarBytes as core::convert::AsRef<[u8]>>::as_ref"
    if fid not in F.fns:
        raise AnchorLost(fid)
    names = [v["name"] for v in F.adts["common::types::VarBytes"]["variants"]]
    for v in names:
        def hook(d, res, args, node, env):
            name = node["fn"].get("name")
            if (res or d) in F.fns:
                return None
            if name in ("as_ref", "as_slice", "deref", "borrow", "as_mut", "iter") and len(args) == 1:
                return args[0]
            if name in ("index", "get", "split_at", "get_unchecked") and len(args) == 2:
                rng = args[1]
                if isinstance(rng, Adt) and rng.variant == "RangeFull":
                    return args[0]
                return Sym(("part-of", vkey(args[0]), vkey(rng)))
            return None
        val = Adt("common::types::VarBytes", v, {"0": Sym("CONTENT")})
        try:
            r = PE(F, call_hook=hook).call_fn(fid, [val])
        except Undecided as e:
            raise AnchorLost("VarBytes::as_ref cannot be evaluated for %s: %s" % (v, e))
        R.check(r == Sym("CONTENT"), "H-asref", v, "VarBytes::%s.as_ref() evaluates to %r, not the whole container" % (v, r), where=fid)
    R.floor("H-asref", "VarBytes variants", len(names), 3)


# ---- one way to obtain a header ---------------------------------------------------------------------------------------------

def h_hdr1_values(F, R):
    """decode_raw_header reads one byte then one variable byte integer and returns exactly (that byte, that value) without
    raising an error of its own; Header::decode_async of each family is Header::new_with(that byte, that value);
    PollHeader::new_with is the same Header::new_with; Header::decode is block_on(Header::decode_async)."""
    fid = "common::utils::decode_raw_header"
    if fid not in F.fns:
        raise AnchorLost(fid)
    order = []

    def hook(d, res, args, node, env):
        r = res or d
        if r == "common::utils::read_u8":
            order.append("read_u8")
            return ok(Sym("CONTROL"))
        if r == "common::utils::decode_var_int":
            order.append("decode_var_int")
            return ok(Tup([Sym("REMAINING"), Sym("WIDTH")]))
        if r.startswith("common::utils::read_") or node["fn"].get("name") == "read_exact":
            order.append(r)
            return ok(Sym("X"))
        return None
    try:
        r = PE(F, call_hook=hook, cond_hook=TRY_OK).call_fn(fid, [Sym("READER")])
    except Undecided as e:
        R.fail("H-hdr1", "decode_raw_header/no-own-errors",
               "decode_raw_header does more than read the control byte and the remaining length (%s): the async/blocking decoders would then "
               "classify a header differently from the poll decoder" % str(e)[:160], where=fid)
        r = None
    if r is not None:
        k = result_kind(r)
        R.check(order == ["read_u8", "decode_var_int"], "H-hdr1", "decode_raw_header/reads", "decode_raw_header performs %s (expected read_u8 then decode_var_int)" % order, where=fid)
        good = k[0] == "ok" and isinstance(k[1], Tup) and k[1].items[:2] == [Sym("CONTROL"), Sym("REMAINING")]
        R.check(good, "H-hdr1", "decode_raw_header/no-own-errors",
                "decode_raw_header returns %r for any control byte / remaining length (expected Ok((control byte, remaining length)): it raises nothing of its own)" % (r,), where=fid)
    for fam in FAMS:
        hdr = "%s::packet::Header" % fam
        da = hdr + "::decode_async"
        calls = []

        def hook2(d, res, args, node, env):
            rr = res or d
            if rr == "common::utils::decode_raw_header":
                calls.append("raw")
                return ok(Tup([Sym("CONTROL"), Sym("REMAINING")]))
            if rr == hdr + "::new_with":
                calls.append(("new_with", tuple(args)))
                return ok(Sym("HEADER"))
            if rr == da:
                calls.append("decode_async")
                return Sym("FUT")
            if node["fn"].get("name") == "block_on":
                calls.append(("block_on", args[0]))
                return ok(Sym("HEADER"))
            if rr.startswith("common::utils::read_"):
                calls.append(rr)
                return ok(Sym("X"))
            return None
        try:
            r = PE(F, call_hook=hook2, cond_hook=TRY_OK).call_fn(da, [Sym("READER")])
        except Undecided as e:
            raise AnchorLost("%s cannot be evaluated: %s" % (da, e))
        R.check(calls == ["raw", ("new_with", (Sym("CONTROL"), Sym("REMAINING")))] and r == ok(Sym("HEADER")), "H-hdr1", "%s/decode_async" % fam,
                "%s performs %s and returns %r (expected decode_raw_header, then Header::new_with(control byte, remaining length))" % (da, calls, r), where=da)
        del calls[:]
        pn = F.impl_method("PollHeader", hdr, "new_with")
        r = PE(F, call_hook=hook2, cond_hook=TRY_OK).call_fn(pn, [Sym("CONTROL"), Sym("REMAINING")])
        R.check(calls == [("new_with", (Sym("CONTROL"), Sym("REMAINING")))] and r == ok(Sym("HEADER")), "H-hdr1", "%s/poll-new_with" % fam,
                "PollHeader::new_with for %s performs %s and returns %r" % (hdr, calls, r), where=pn)
        del calls[:]
        hd = hdr + "::decode"
        r = PE(F, call_hook=hook2, cond_hook=TRY_OK).call_fn(hd, [Sym("BYTES")])
        good = calls[:1] == ["decode_async"] and len(calls) == 2 and calls[1] == ("block_on", Sym("FUT")) and r == ok(Sym("HEADER"))
        R.check(good, "H-hdr1", "%s/Header::decode" % fam, "%s performs %s and returns %r (expected block_on(Header::decode_async(..)))" % (hd, calls, r), where=hd)


# ---- the wire primitives of common::utils ------------------------------------------------------------------------------------

def _be_value_ok(val, bs):
    """val denotes the big-endian integer made of the symbolic bytes bs (from_be_bytes, or shifts / ors in any spelling)."""
    if val == Sym(("from_be", tuple(vkey(b) for b in bs))):
        return True
    from r_pollpe import digit_form, _unsym
    d = digit_form(val)
    n = len(bs)
    return d == {("atom", _unsym(vkey(b))): 256 ** (n - 1 - i) for i, b in enumerate(bs)}


def _byte_of(term, V, n):
    """index i (0 = most significant) if `term` is byte i of the n-byte opaque integer V, in any spelling; else None."""
    from r_pollpe import _unsym
    t = _unsym(vkey(term)) if not isinstance(term, tuple) else _unsym(term)
    v = _unsym(vkey(V))
    if isinstance(t, tuple) and len(t) == 4 and t[0] == "be" and _unsym(t[1]) == v and t[3] == n:
        return t[2]
    # byte k (k < n) of `x as uN` is byte k of x: widening / narrowing casts of the value itself do not matter below n bytes
    while isinstance(v, tuple) and v and v[0] == "cast":
        v = _unsym(v[1])
    # (V >> 8k) as u8, ((V >> 8k) & 0xFF) as u8, (V / 256^k) % 256 ...
    while isinstance(t, tuple) and t and t[0] == "cast":
        t = _unsym(t[1])
    if isinstance(t, tuple) and len(t) == 4 and t[0] == "bin" and t[1] == "Rem" and t[3] == 256:
        t = _unsym(t[2])
        while isinstance(t, tuple) and t and t[0] == "cast":
            t = _unsym(t[1])
    k = 0
    if isinstance(t, tuple) and len(t) == 4 and t[0] == "bin" and t[1] == "Div" and isinstance(t[3], int):
        sh = t[3]
        k = 0
        while sh > 1 and sh % 256 == 0:
            sh //= 256
            k += 1
        if sh != 1:
            return None
        t = _unsym(t[2])
        while isinstance(t, tuple) and t and t[0] == "cast":
            t = _unsym(t[1])
    if t == v:
        return n - 1 - k
    return None


class _Wire:
    """Transport model for the primitives: read_exact fills its buffer with fresh symbolic bytes, write_all records what it gets."""
    def __init__(self, F):
        self.F = F
        self.reads = []       # sizes
        self.read_vals = []   # the symbolic content handed out, per read
        self.writes = []      # values

    def _target(self, node, env, size_val):
        tgt = strip(node["args"][1])
        while tgt.get("k") == "Call" and tgt["fn"].get("name") in ("from_mut", "as_mut", "as_mut_slice", "deref_mut", "index_mut", "borrow_mut"):
            tgt = strip(tgt["args"][0])
        return tgt

    def hook(self, d, res, args, node, env):
        name = node["fn"].get("name")
        r = res or d
        if d == "alloc::vec::from_elem" and len(args) == 2:
            return Adt("vec", "Vec", {"len": args[1], "content": Sym("ZEROS")})
        if name in ("from_ref", "from_mut") and len(args) == 1 and "slice" in d:
            return Tup([args[0]])
        if name == "read_exact":
            buf = args[1] if len(args) > 1 else None
            tgt = self._target(node, env, None)
            k = len(self.reads)
            src = strip(node["args"][1])
            scalar = src.get("k") == "Call" and src["fn"].get("name") == "from_mut"
            if isinstance(buf, Tup):
                n = len(buf.items)
                content = Tup([Sym(("wire", k, i)) for i in range(n)])
                if scalar:
                    self.reads.append(1)
                    self.read_vals.append(content)
                    if tgt.get("k") == "Var":
                        env[tgt["var"]["id"]] = content.items[0]     # `slice::from_mut(&mut byte)`: the scalar itself is filled
                    return ok(UNIT)
            elif isinstance(buf, Adt) and buf.adt == "vec":
                n = buf.fields["len"]
                content = Adt("vec", "Vec", {"len": n, "content": Sym(("wire-block", k))})
            elif isinstance(buf, (int, Sym)) and strip(node["args"][1]).get("k") == "Call" and strip(node["args"][1])["fn"].get("name") == "from_mut":
                n = 1
                content = Sym(("wire", k, 0))
            else:
                raise Undecided("read_exact into %r" % (buf,))
            self.reads.append(n)
            self.read_vals.append(content)
            if tgt.get("k") == "Var":
                env[tgt["var"]["id"]] = content
            return ok(UNIT)
        if name in ("write_all",) and len(args) == 2:
            data = args[1]
            src = strip(node["args"][1])
            if src.get("k") == "Call" and src["fn"].get("name") == "from_ref" and not isinstance(data, Tup):
                data = Tup([data])
            self.writes.append(data)
            return ok(UNIT)
        if name in ("write", "read", "read_to_end", "write_vectored", "flush", "poll_read", "poll_write"):
            raise Undecided("transport call %s" % name)
        if name in ("as_ref", "as_slice", "deref", "borrow", "as_mut", "as_mut_slice", "deref_mut") and len(args) == 1 and (res or d) not in self.F.fns:
            return args[0]
        if name == "len" and len(args) == 1 and isinstance(args[0], Sym):
            return Sym(("len", vkey(args[0])))
        return None


def t_prims(F, R):
    """The wire primitives of common::utils, evaluated on symbolic values against a transport model: read_u8 / read_u16 /
    read_u32 read exactly 1 / 2 / 4 bytes and return them as a big-endian integer; read_bytes reads a u16 length n and then
    exactly n bytes, which it returns; write_u8 / write_u16 / write_u32 write exactly the big-endian bytes of their argument;
    write_bytes writes the length as a big-endian u16 and then the data, whole. (Engine L takes these facts as the summaries of
    the primitives, so it does not depend on how they are spelled.)"""
    U = "common::utils::"
    n = 0
    for fn, size in (("read_u8", 1), ("read_u16", 2), ("read_u32", 4)):
        n += 1
        w = _Wire(F)
        try:
            r = PE(F, call_hook=w.hook, cond_hook=TRY_OK).call_fn(U + fn, [Sym("READER")])
        except Undecided as e:
            raise AnchorLost("%s cannot be evaluated: %s" % (fn, e))
        k = result_kind(r)
        good = w.reads == [size] and k[0] == "ok"
        if good:
            bs = list(w.read_vals[0].items) if isinstance(w.read_vals[0], Tup) else [w.read_vals[0]]
            good = (k[1] == bs[0]) if size == 1 else _be_value_ok(k[1], bs)
        R.check(good, "T-prims", fn, "%s reads %s bytes and returns %r (expected one read of %d byte(s), returned as a big-endian integer)" % (fn, w.reads, r, size), where=U + fn)
    # read_bytes
    n += 1
    w = _Wire(F)
    try:
        r = PE(F, call_hook=w.hook, cond_hook=TRY_OK).call_fn(U + "read_bytes", [Sym("READER")])
    except Undecided as e:
        raise AnchorLost("read_bytes cannot be evaluated: %s" % e)
    k = result_kind(r)
    good = len(w.reads) == 2 and w.reads[0] == 2 and k[0] == "ok" and isinstance(k[1], Adt) and k[1].adt == "vec" and \
        k[1].fields.get("content") == Sym(("wire-block", 1))
    if good:
        ln = w.reads[1]
        inner = ln
        from r_pollpe import _unsym
        t = _unsym(vkey(inner))
        while isinstance(t, tuple) and t and t[0] == "cast":
            t = _unsym(t[1])
        good = _be_value_ok(Sym(t) if isinstance(t, tuple) else inner, list(w.read_vals[0].items))
    R.check(good, "T-prims", "read_bytes", "read_bytes performs reads of sizes %s and returns %r (expected a 2-byte big-endian length n, then exactly n bytes, returned whole)" % (w.reads, r), where=U + "read_bytes")
    for fn, size in (("write_u8", 1), ("write_u16", 2), ("write_u32", 4)):
        n += 1
        w = _Wire(F)
        V = Sym("V")
        try:
            r = PE(F, call_hook=w.hook, cond_hook=TRY_OK).call_fn(U + fn, [Sym("WRITER"), V])
        except Undecided as e:
            raise AnchorLost("%s cannot be evaluated: %s" % (fn, e))
        flat = []
        for d in w.writes:
            flat += list(d.items) if isinstance(d, Tup) else [("opaque", d)]
        if size == 1 and flat == [V]:
            good = True
        else:
            good = [_byte_of(b, V, size) if not (isinstance(b, tuple) and b and b[0] == "opaque") else None for b in flat] == list(range(size))
        R.check(good and result_kind(r)[0] == "ok", "T-prims", fn,
                "%s writes %s and returns %r (expected exactly the %d big-endian byte(s) of its argument)" % (fn, [repr(x) for x in w.writes], r, size), where=U + fn)
    # write_bytes
    n += 1
    w = _Wire(F)
    D = Sym("DATA")
    try:
        r = PE(F, call_hook=w.hook, cond_hook=TRY_OK).call_fn(U + "write_bytes", [Sym("WRITER"), D])
    except Undecided as e:
        raise AnchorLost("write_bytes cannot be evaluated: %s" % e)
    flat = []
    for d in w.writes:
        flat += list(d.items) if isinstance(d, Tup) else [d]
    good = len(flat) == 3 and flat[2] == D and result_kind(r)[0] == "ok"
    if good:
        L16 = Sym(("cast", ("len", vkey(D)), "u16"))
        good = [_byte_of(flat[0], L16, 2), _byte_of(flat[1], L16, 2)] == [0, 1]
    R.check(good, "T-prims", "write_bytes", "write_bytes writes %s (expected the length as a big-endian u16, then the data, whole)" % ([repr(x) for x in flat],), where=U + "write_bytes")
    R.floor("T-prims", "primitives evaluated", n, 8)
    # read_string is read_bytes followed by UTF-8 validation of exactly that buffer, which it returns as the String
    h_utf8_values(F, R)


# ---- L-entries: values of list entries, both directions -----------------------------------------------------------------

_CODE_LISTS = [("v5", "Suback", "v5::subscribe::SubscribeReasonCode"), ("v5", "Unsuback", "v5::subscribe::UnsubscribeReasonCode"),
               ("v3", "Suback", "v3::subscribe::SubscribeReturnCode")]


def _list_decode(F, fam, typ, byte=None):
    """Evaluate a list-carrying body decoder as a whole on a frame with exactly one entry: a code byte (`byte`) or a 3-byte
    filter. Returns the result kind."""
    fid = "%s::subscribe::%s::decode_async" % (fam, typ)
    if fid not in F.fns:
        raise AnchorLost(fid)

    def hook(d, res, args, node, env):
        r = res or d
        name = node["fn"].get("name")
        if r == "common::utils::read_u8":
            return ok(byte if byte is not None else 0)
        if r == "common::utils::read_u16":
            return ok(Sym("U16"))
        if r == "common::utils::read_string":
            return ok(Sym("TOPIC"))
        if r == "common::utils::decode_var_int":
            return ok(Tup([0, 1]))
        if r.endswith("Properties::decode_async"):
            return ok(Sym("PROPS"))
        if name == "encode_len" and len(args) == 1:
            return 1
        if r.endswith("TryFrom<u16>>::try_from"):
            return ok(Sym("PID"))
        if r.endswith("TryFrom<alloc::string::String>>::try_from"):
            return ok(Sym("FILTER"))
        if name == "len" and len(args) == 1 and isinstance(args[0], Sym):
            return 3
        if name in ("deref", "as_ref", "as_str", "clone") and len(args) == 1 and r not in F.fns:
            return args[0]
        if name in ("new", "with_capacity") and "vec" in d.lower():
            return Tup([])
        return None
    entry = 1 if byte is not None else 5
    rl = 2 + (1 if fam == "v5" else 0) + entry
    arg = rl if fam == "v3" else _hdr("v5", typ, rl)
    try:
        r = PE(F, call_hook=hook, cond_hook=TRY_OK, fuel=600).call_fn(fid, [Sym("READER"), arg])
    except Undecided as e:
        raise AnchorLost("%s cannot be evaluated on a one-entry frame%s: %s" % (fid, "" if byte is None else " (code byte %#04x)" % byte, e))
    return result_kind(r)


def _list_encode(F, fam, typ, entry):
    fid = F.impl_method("Encodable", "%s::subscribe::%s" % (fam, typ), "encode")
    if fid is None:
        raise AnchorLost("Encodable for %s::subscribe::%s" % (fam, typ))
    trace = []

    def hook(d, res, args, node, env):
        r = res or d
        name = node["fn"].get("name")
        if r in ("common::utils::write_u8", "common::utils::write_u16", "common::utils::write_u32", "common::utils::write_bytes"):
            trace.append((r.rsplit("_", 1)[1], args[1]))
            return ok(UNIT)
        if name == "encode" and len(args) == 2 and isinstance(args[0], Sym):
            trace.append(("encode", args[0]))
            return ok(UNIT)
        if name in ("as_bytes", "as_str", "deref", "as_ref") and len(args) == 1 and r not in F.fns:
            return args[0]
        return None
    fields = {"pid": Adt("common::types::Pid", "Pid", {"0": 7}), "topics": Tup([entry])}
    if fam == "v5":
        fields["properties"] = Sym("PROPS")
    try:
        r = PE(F, call_hook=hook, cond_hook=TRY_OK, fuel=600).call_fn(fid, [Adt("%s::subscribe::%s" % (fam, typ), typ, fields), Sym("WRITER")])
    except Undecided as e:
        raise AnchorLost("%s cannot be evaluated on a one-entry packet (%r): %s" % (fid, entry, e))
    if result_kind(r)[0] != "ok":
        return None
    skip = 1 + (1 if fam == "v5" else 0)          # packet identifier, property block
    return trace[skip:] if trace[:1] == [("u16", 7)] else None


def l_entries(F, R):
    """List entries carry their value in both directions, evaluated on one-entry packets: a SUBACK / UNSUBACK code byte is
    decoded to the variant its from_u8 table names and every variant is written as its discriminant; an UNSUBSCRIBE /
    SUBSCRIBE filter is stored as the constructor returned it and written as it is (all 256 bytes / every variant)."""
    from r_tables import code_enums
    from r_pe import pe_from_u8_table
    from tables import enum_discriminants
    fu8 = dict(code_enums(F))
    n = 0
    for fam, typ, enum in _CODE_LISTS:
        if enum not in fu8:
            raise AnchorLost("from_u8 of %s" % enum)
        table, _rej = pe_from_u8_table(F, fu8[enum], enum)
        bad = []
        for byte in range(256):
            n += 1
            k = _list_decode(F, fam, typ, byte)
            if byte in table:
                good = k[0] == "ok" and isinstance(k[1], Adt) and isinstance(k[1].fields.get("topics"), Tup) and \
                    [getattr(x, "variant", None) for x in k[1].fields["topics"].items] == [table[byte]] and k[1].fields.get("pid") == Sym("PID")
                if not good:
                    bad.append((byte, table[byte], repr(k[1] if len(k) > 1 else k)[:100]))
            elif k[0] != "err":
                bad.append((byte, "an error", repr(k[1] if len(k) > 1 else k)[:100]))
        R.check(not bad, "L-entries", "%s/%s/decode" % (fam, typ),
                "%s %s: a frame whose only entry is the code byte %s decodes to %s (the code table gives %s)" % (
                    (fam, typ) + ((("%#04x" % bad[0][0]), bad[0][2], bad[0][1]) if bad else ("", "", ""))), where="%s::subscribe::%s::decode_async" % (fam, typ))
        disc = enum_discriminants(F, enum)
        ebad = []
        for v, dv in sorted(disc.items()):
            n += 1
            got = _list_encode(F, fam, typ, Adt(enum, v))
            if got != [("u8", dv)]:
                ebad.append((v, dv, got))
        R.check(not ebad, "L-entries", "%s/%s/encode" % (fam, typ),
                "%s %s: the entry %s is written as %s (its code is %s)" % ((fam, typ) + (ebad[0][0], ebad[0][2], "%#04x" % ebad[0][1]) if ebad else (fam, typ, "", "", "")),
                where="%s::subscribe::%s::encode" % (fam, typ))
    for fam in FAMS:
        n += 2
        k = _list_decode(F, fam, "Unsubscribe")
        good = k[0] == "ok" and isinstance(k[1], Adt) and k[1].fields.get("topics") == Tup([Sym("FILTER")]) and k[1].fields.get("pid") == Sym("PID")
        R.check(good, "L-entries", "%s/Unsubscribe/decode" % fam,
                "%s UNSUBSCRIBE with one filter decodes to %s (expected the one filter the constructor returned, and the identifier read)" % (
                    fam, repr(k[1] if len(k) > 1 else k)[:140]), where="%s::subscribe::Unsubscribe::decode_async" % fam)
        filt = Adt("common::types::TopicFilter", "TopicFilter", {"inner": Sym("FILTER"), "shared_filter_sep": 0})
        got = _list_encode(F, fam, "Unsubscribe", filt)
        R.check(got == [("bytes", filt)] or got == [("bytes", Sym("FILTER"))], "L-entries", "%s/Unsubscribe/encode" % fam,
                "%s UNSUBSCRIBE writes its one filter as %s" % (fam, got), where="%s::subscribe::Unsubscribe::encode" % fam)
    R.floor("L-entries", "one-entry evaluations", n, 700)


# ---- error values compare by variant and payload -------------------------------------------------------------------------

def h_erreq(F, R):
    """Equality of the codec's error values is by variant *and* payload (derived, or hand-written and evaluated): two
    UnexpectedProtocol / InvalidQos / .. errors carrying different values are different errors -- callers dispatch on them."""
    n = 0
    for adt in ("common::error::Error", "v5::error::ErrorV5"):
        a = F.adts.get(adt)
        if a is None:
            raise AnchorLost(adt)
        imps = [i for i in F.impls if (i.get("trait") or "").endswith("cmp::PartialEq") and i.get("self_adt") == adt]
        if not imps:
            continue
        n += 1
        short = adt.rsplit("::", 1)[1]
        if imps[0].get("derived"):
            R.ok("H-erreq", short, "derived PartialEq")
            continue
        fid = next((it["def"] for it in imps[0]["items"] if it["name"] == "eq"), None)
        bad = []
        for v in a["variants"]:
            if not v.get("fields"):
                continue
            fa = {str(i) if not f.get("name") or f["name"].isdigit() else f["name"]: Sym(("a", i)) for i, f in enumerate(v["fields"])}
            fb = {k: Sym(("b", i)) for i, k in enumerate(fa)}
            pe = PE(F)
            pe.symbolic_eq = True
            try:
                r = pe.call_fn(fid, [Adt(adt, v["name"], fa), Adt(adt, v["name"], fb)])
            except Undecided:
                continue            # the comparison goes into the payloads: not a constant
            if r is True:
                bad.append(v["name"])
        R.check(not bad, "H-erreq", short,
                "the hand-written PartialEq of %s calls two %s values equal whatever they carry (%s): errors naming different offending "
                "values compare equal" % (short, bad[0] if bad else "", ", ".join(bad[:4])), where=fid)
    R.floor("H-erreq", "error types with PartialEq", n, 1)
