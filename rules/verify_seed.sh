#!/bin/bash
# verify_seed.sh <seed-dir with patch.diff demo.rs> : checks in a scratch worktree of /repo HEAD that
#  (1) demo passes + 73 tests pass on the clean tree, (2) with the patch: 73 tests pass, demo fails.
set -u
D="$1"; NAME=$(basename "$D")
W=$(mktemp -d /tmp/seedchk.XXXXXX)
git -C /repo worktree add -q --detach "$W/wt" HEAD || exit 3
cd "$W/wt"
export CARGO_TARGET_DIR="$W/target" CARGO_NET_OFFLINE=true
mkdir -p tests && cp "$D/demo.rs" tests/demo.rs
r1=$(cargo test --offline 2>&1 | grep "^test result" | tr '\n' ';')
clean_lib=$(echo "$r1" | grep -c "73 passed; 0 failed")
clean_demo_fail=$(echo "$r1" | grep -c "FAILED")
git apply "$D/patch.diff" || { echo "$NAME APPLY-FAILED"; cd /; git -C /repo worktree remove --force "$W/wt"; rm -rf "$W"; exit 4; }
r2=$(cargo test --offline 2>&1 | grep "^test result" | tr '\n' ';')
pat_lib=$(echo "$r2" | grep -c "73 passed; 0 failed")
pat_demo_fail=$(echo "$r2" | grep -c "FAILED")
echo "$NAME clean_lib_ok=$clean_lib clean_failed=$clean_demo_fail patched_lib_ok=$pat_lib patched_failed=$pat_demo_fail"
echo "  clean:   $r1"
echo "  patched: $r2"
cd /; git -C /repo worktree remove --force "$W/wt"; rm -rf "$W"
