"""A partial evaluator over normalised THIR.

Used to *extract tables* from pure, finite-domain functions (u8 -> enum tables, flag predicates,
wrappers mapping an abstract result to an outcome) independently of how they are written: if/else chains,
match with ranges / or-patterns / guards, `matches!`, early returns, named constants, local bindings,
small private helpers (crate-local calls are inlined), flipped or negated conditions.

Values: Python ints / bools, Adt (enum or struct values incl. Option/Result/tuples), Sym (opaque).
Anything the evaluator cannot decide from the given inputs raises Undecided: rules then fail closed.
Nothing of the program under analysis is executed; this is constant folding of its type-checked tree.
"""
from facts import strip, lit_value, pp
from norm import nbody, unblock

INT_BITS = {"u8": 8, "u16": 16, "u32": 32, "u64": 64, "usize": 64, "u128": 128,
            "i8": 8, "i16": 16, "i32": 32, "i64": 64, "isize": 64}


_HARMLESS_MUT = {"as_mut", "as_mut_slice", "as_mut_ptr", "deref_mut", "borrow_mut", "iter_mut", "by_ref", "get_mut", "first_mut", "last_mut",
                 "index_mut", "fmt", "hash", "new", "pin", "get_unchecked_mut", "poll_read", "read_exact", "read", "write_all", "write", "flush",
                 "block_on", "next", "reserve", "shrink_to_fit", "from_mut", "from_ref", "from_raw_parts_mut", "uninit", "split_at_mut", "chunks_mut",
                 "chunks_exact_mut", "as_deref_mut", "as_pin_mut", "get_or_insert_with", "poll"}
_OP_METHODS = {"add": "Add", "sub": "Sub", "mul": "Mul", "div": "Div", "rem": "Rem", "bitor": "BitOr", "bitand": "BitAnd",
               "bitxor": "BitXor", "shl": "Shl", "shr": "Shr"}


class Undecided(Exception):
    pass


class _Ret(Exception):
    def __init__(self, v):
        self.v = v


class _Brk(Exception):
    def __init__(self, v):
        self.v = v


class _Cont(Exception):
    pass


class Sym:
    """Opaque value. `tag` identifies its origin (parameter name, call result..)."""
    def __init__(self, tag, ty=None):
        self.tag = tag
        self.ty = ty

    def __repr__(self):
        return "Sym(%s)" % (self.tag,)

    def __eq__(self, o):
        return isinstance(o, Sym) and o.tag == self.tag

    def __hash__(self):
        return hash(("Sym", self.tag))


class Lin:
    """a*n + b for an unknown non-negative integer n with a concrete witness value: comparisons against
    constants are decided by the witness and recorded, so that a function that touches n only through
    comparisons with constants and +/- constants is reconstructed exactly as a piecewise-linear table."""
    def __init__(self, a, b, w, log):
        self.a, self.b, self.w, self.log = a, b, w, log

    def val(self):
        return self.a * self.w + self.b

    def __repr__(self):
        return "Lin(%d*n%+d)" % (self.a, self.b)


class Wx:
    """A term in the unknown non-negative integer n (the same unknown as Lin's) with the concrete witness value of n.
    Terms: ('lin', a, b) | ('bin', op, term, k) | ('rbin', op, k, term) | ('cast', bits, term).  Arithmetic keeps the term;
    a comparison of a *monotone* term with a constant is turned into a comparison of n with the exact threshold (found by
    bisection on the term), decided by the witness and logged like Lin's comparisons -- so a function that compares only
    monotone terms of n with constants is still reconstructed exactly, piece by piece, and within a piece every value it
    produces is one term."""
    def __init__(self, term, w, log):
        self.term, self.w, self.log = term, w, log

    def val(self):
        return wx_eval(self.term, self.w)

    def __repr__(self):
        return "Wx(%r)" % (self.term,)


def wx_term(v):
    return ("lin", v.a, v.b) if isinstance(v, Lin) else v.term


def wx_eval(t, n):
    if t[0] == "lin":
        return t[1] * n + t[2]
    if t[0] == "cast":
        return wx_eval(t[2], n) % (1 << t[1])
    if t[0] == "neg":
        return -wx_eval(t[1], n)
    if t[0] == "lz":
        v = wx_eval(t[2], n)
        return t[1] - v.bit_length() if 0 <= v < (1 << t[1]) else 0
    if t[0] == "bin":
        a, b = wx_eval(t[2], n), t[3]
    else:
        a, b = t[2], wx_eval(t[3], n)
    op = t[1]
    if op in ("Div", "Rem") and b == 0:
        raise Undecided("division by zero in a term of the argument")
    return {"Add": lambda: a + b, "Sub": lambda: a - b, "Mul": lambda: a * b, "Div": lambda: a // b, "Rem": lambda: a % b,
            "BitAnd": lambda: a & b, "BitOr": lambda: a | b, "BitXor": lambda: a ^ b, "Shl": lambda: a << b, "Shr": lambda: a >> b}[op]()


def wx_direction(t):
    """+1 when the term is non-decreasing in n (n >= 0, no wrap-around), -1 when non-increasing, 0 otherwise."""
    if t[0] == "lin":
        return 1 if t[1] >= 0 else -1
    if t[0] == "neg":
        return -wx_direction(t[1])
    if t[0] == "lz":
        return -wx_direction(t[2])
    if t[0] == "cast":
        return 0
    if t[0] == "bin" and isinstance(t[3], int):
        if t[1] in ("Add", "Sub"):
            return wx_direction(t[2])
        if t[1] in ("Mul", "Div") and t[3] > 0:
            return wx_direction(t[2])
        if t[1] in ("Shl", "Shr") and t[3] >= 0:
            return wx_direction(t[2])
    if t[0] == "rbin" and isinstance(t[2], int):
        if t[1] == "Sub":
            return -wx_direction(t[3])
    return 0


def wx_monotone(t):
    """True when the term is non-decreasing in n (for n >= 0, no wrap-around)."""
    return wx_direction(t) == 1


def wx_threshold(t, c, limit=1 << 64):
    """smallest n >= 0 with term(n) >= c, or None when no n <= limit reaches c (term non-decreasing)."""
    if wx_eval(t, 0) >= c:
        return 0
    if wx_eval(t, limit) < c:
        return None
    lo, hi = 0, limit            # term(lo) < c <= term(hi)
    while hi - lo > 1:
        mid = (lo + hi) // 2
        if wx_eval(t, mid) >= c:
            hi = mid
        else:
            lo = mid
    return hi


def wx_compare(op, v, c):
    """Decide `v <op> c` for a Lin / Wx v and a constant c by the witness; log the thresholds on n."""
    t = wx_term(v)
    if wx_direction(t) == -1:
        # a non-increasing term: compare its negation the other way round
        t = ("neg", t)
        c = -c
        op = {"Lt": "Gt", "Gt": "Lt", "Le": "Ge", "Ge": "Le", "Eq": "Eq", "Ne": "Ne"}[op]
    if not wx_monotone(t):
        raise Undecided("comparison of a non-monotone term of the argument (%r) with a constant" % (t,))
    need = {"Lt": (c,), "Ge": (c,), "Le": (c + 1,), "Gt": (c + 1,), "Eq": (c, c + 1), "Ne": (c, c + 1)}[op]
    for k in need:
        th = wx_threshold(t, k)
        if th is not None:
            v.log.append((op, th))
    x = wx_eval(t, v.w)
    return {"Lt": x < c, "Le": x <= c, "Gt": x > c, "Ge": x >= c, "Eq": x == c, "Ne": x != c}[op]


class Adt:
    def __init__(self, adt, variant, fields=None):
        self.adt = adt
        self.variant = variant
        self.fields = fields or {}

    def __repr__(self):
        if self.fields:
            return "%s::%s{%s}" % (self.adt.rsplit("::", 1)[-1], self.variant, ", ".join("%s: %r" % kv for kv in sorted(self.fields.items())))
        return "%s::%s" % (self.adt.rsplit("::", 1)[-1], self.variant)

    def key(self):
        return (self.adt, self.variant, tuple(sorted((k, vkey(v)) for k, v in self.fields.items())))

    def __eq__(self, o):
        return isinstance(o, Adt) and self.key() == o.key()

    def __hash__(self):
        return hash(self.key())


class Tup:
    def __init__(self, items):
        self.items = list(items)

    def __repr__(self):
        return "(%s)" % ", ".join(map(repr, self.items))

    def __eq__(self, o):
        return isinstance(o, Tup) and [vkey(x) for x in self.items] == [vkey(x) for x in o.items]

    def __hash__(self):
        return hash(tuple(vkey(x) for x in self.items))


def vkey(v):
    if isinstance(v, Adt):
        return v.key()
    if isinstance(v, Tup):
        return ("tup",) + tuple(vkey(x) for x in v.items)
    if isinstance(v, Sym):
        return ("sym", v.tag)
    if isinstance(v, Future):
        return ("future", (v.node.get("fn") or {}).get("res") or (v.node.get("fn") or {}).get("def"), tuple(vkey(a) for a in v.args))
    if isinstance(v, Ref):
        return vkey(v.get())
    return v


def some(v):
    return Adt("core::option::Option", "Some", {"0": v})


NONE = Adt("core::option::Option", "None")


def ok(v):
    return Adt("core::result::Result", "Ok", {"0": v})


def err(v):
    return Adt("core::result::Result", "Err", {"0": v})


UNIT = Tup([])


def wrap(v, ty):
    bits = INT_BITS.get(ty)
    if bits is not None and isinstance(v, int) and not isinstance(v, bool) and not ty.startswith("i"):
        return v & ((1 << bits) - 1)
    return v


class Future:
    """The value of calling an `async fn` of the crate: nothing has happened yet. The call (hooks, inlining) is performed when
    the future is awaited -- or handed to block_on -- so that effects are ordered as in the program
    (`helper(check_first, read_u16(reader))` reads only when the helper awaits its argument)."""
    __slots__ = ("node", "args", "env")

    def __init__(self, node, args, env):
        self.node, self.args, self.env = node, args, env

    def __repr__(self):
        return "Future(%s)" % ((self.node.get("fn") or {}).get("res") or (self.node.get("fn") or {}).get("def"))


class Ref:
    """A reference to a place inside a mutable aggregate (a field of an Adt, an element of a Tup): what a `ref mut` / default
    binding-mode binding denotes. Reading a variable bound to a Ref yields the current content of the place; assigning
    through it (`*x = v`, `*x += 1`) updates the aggregate, so that state reached through `&mut self` is observable afterwards."""
    __slots__ = ("obj", "key")

    def __init__(self, obj, key):
        self.obj, self.key = obj, key

    def get(self):
        if isinstance(self.obj, dict):
            v = self.obj[self.key]              # a local variable of the borrowing frame
            return v.get() if isinstance(v, Ref) else v
        return self.obj.fields[self.key] if isinstance(self.obj, Adt) else self.obj.items[self.key]

    def set(self, v):
        if isinstance(self.obj, dict):
            cur = self.obj.get(self.key)
            if isinstance(cur, Ref):
                cur.set(v)
            else:
                self.obj[self.key] = v
        elif isinstance(self.obj, Adt):
            self.obj.fields[self.key] = v
        else:
            self.obj.items[self.key] = v


class PE:
    def __init__(self, F, call_hook=None, cond_hook=None, fuel=200, inline=True):
        self.F = F
        self.call_hook = call_hook      # (def, resolved, args values, node, env) -> value or None
        self.cond_hook = cond_hook      # (value, node) -> bool or None
        self.events = []
        self.fuel = fuel
        self.depth = 0
        self.inline = inline
        self.overflow = []

    # ---- entry
    def call_fn(self, fid, args):
        f = self.F.fns.get(fid)
        if f is None or not f.get("thir"):
            raise Undecided("no body for %s" % fid)
        body = nbody(self.F, fid) if f["kind"] != "Closure" else self._closure_body(fid)
        params = list(f["thir"]["params"])
        if f["kind"] == "Closure" and params and params[0].get("pat") is None:
            params = params[1:]
        if len(params) != len(args):
            raise Undecided("arity mismatch calling %s (%d vs %d)" % (fid, len(params), len(args)))
        env = {}
        for p, a in zip(params, args):
            if p.get("pat") is not None:
                if not self.match(p["pat"], a, env):
                    raise Undecided("parameter pattern of %s" % fid)
        self.depth += 1
        if self.depth > 16:
            raise Undecided("call depth")
        try:
            return self.ev(body, env)
        except _Ret as r:
            return r.v
        finally:
            self.depth -= 1

    def _tymap(self):
        st = getattr(self, "_tystack", [])
        return st[-1] if st else {}

    def _closure_body(self, fid):
        from norm import norm
        c = getattr(self.F, "_pe_closures", None)
        if c is None:
            c = self.F._pe_closures = {}
        if fid not in c:
            c[fid] = norm(self.F.fns[fid]["thir"]["root"])
        return c[fid]

    # ---- patterns
    def match(self, p, v, env, place=None):
        """True/False if decidable (binding into env), raises Undecided otherwise. `place` = (aggregate, key) when the value
        matched is the content of a field / element, so that by-reference bindings can alias it."""
        k = p.get("k")
        if k == "Wild":
            return True
        if k == "Binding":
            if p.get("sub") and not self.match(p["sub"], v, env):
                return False
            mode = p.get("mode") or ""
            if place is not None and mode.startswith("BindingMode(Yes(") and ", Mut)" in mode:
                env[p["var"]["id"]] = Ref(place[0], place[1])
            else:
                env[p["var"]["id"]] = v        # aggregates are shared objects already
            return True
        if k in ("Deref", "DerefPattern"):
            return self.match(p["sub"], v, env, place)
        if k == "Const" and isinstance(v, (Lin, Wx)):
            pv = p.get("val")
            if isinstance(pv, dict) and "char" in pv:
                pv = pv["char"]
            if isinstance(pv, bool):
                pv = int(pv)
            return wx_compare("Eq", v, pv)
        if k == "Const":
            pv = p.get("val")
            if isinstance(pv, dict) and "char" in pv:
                pv = pv["char"]
            if isinstance(pv, dict) and "bytes" in pv:
                pv = ("bytes", tuple(pv["bytes"]))
            if isinstance(pv, dict) and "str" in pv:
                pv = ("str", pv["str"])
            if isinstance(v, Sym):
                return self.decide(("pat-const", v, pv), p)
            if isinstance(v, bool) or isinstance(pv, bool):
                return bool(v) == bool(pv)
            return v == pv
        if k == "Range" and isinstance(v, (Lin, Wx)):
            lo, hi = p["lo"], p["hi"]
            res = True
            if lo != "-inf":
                res = wx_compare("Ge", v, lo) and res
            if hi != "+inf":
                res = wx_compare("Le" if p["end"] == "Included" else "Lt", v, hi) and res
            return res
        if k == "Range":
            if isinstance(v, Sym):
                return self.decide(("pat-range", v, p["lo"], p["hi"], p["end"]), p)
            lo, hi = p["lo"], p["hi"]
            if lo != "-inf" and v < lo:
                return False
            if hi != "+inf" and (v > hi or (v == hi and p["end"] != "Included")):
                return False
            return True
        if k == "Or":
            for q in p["pats"]:
                e2 = dict(env)
                if self.match(q, v, e2):
                    env.update(e2)
                    return True
            return False
        if k == "Variant":
            if isinstance(v, Sym):
                return self.decide(("pat-variant", v, p["adt"], p["variant"]), p)
            if not isinstance(v, Adt):
                raise Undecided("variant pattern on %r" % (v,))
            if v.variant != p["variant"]:
                return False
            for s in p["subs"]:
                key = s["field"] if s["field"] in v.fields else str(s["idx"])
                fv = v.fields.get(key)
                if fv is None:
                    fv = Sym("field:%s" % s["field"])
                    if not self.match(s["pat"], fv, env):
                        return False
                    continue
                if not self.match(s["pat"], fv, env, (v, key)):
                    return False
            return True
        if k == "Leaf":
            for s in p["subs"]:
                if isinstance(v, Tup):
                    fv = v.items[int(s["idx"])]
                elif isinstance(v, Adt):
                    key = s["field"] if s["field"] in v.fields else str(s["idx"])
                    if key in v.fields:
                        if not self.match(s["pat"], v.fields[key], env, (v, key)):
                            return False
                        continue
                    fv = Sym("field:%s" % s["field"])
                elif isinstance(v, Sym):
                    fv = Sym(("field", v.tag, s["field"]))
                else:
                    raise Undecided("leaf pattern on %r" % (v,))
                if not self.match(s["pat"], fv, env):
                    return False
            return True
        if k in ("Slice", "Array"):
            if isinstance(v, Tup) or (isinstance(v, tuple) and v and v[0] == "bytes"):
                items = list(v.items) if isinstance(v, Tup) else list(v[1])
                pre, suf = p["prefix"], p["suffix"]
                if p.get("slice") is None and len(items) != len(pre) + len(suf):
                    return False
                if len(items) < len(pre) + len(suf):
                    return False
                for q, x in zip(pre, items):
                    if not self.match(q, x, env):
                        return False
                for q, x in zip(reversed(suf), reversed(items)):
                    if not self.match(q, x, env):
                        return False
                return True
            if isinstance(v, Sym):
                return self.decide(("pat-slice", v, len(p["prefix"]) + len(p["suffix"])), p)
            raise Undecided("slice pattern on %r" % (v,))
        raise Undecided("pattern kind %s" % k)

    def decide(self, what, node):
        if self.cond_hook is not None:
            r = self.cond_hook(what, node)
            if r is not None:
                return r
        raise Undecided("cannot decide %r" % (what,))

    def truth(self, v, node):
        if isinstance(v, bool):
            return v
        if isinstance(v, int):
            return bool(v)
        return self.decide(("truth", v), node)

    # ---- expressions
    def ev(self, e, env):
        if e is None:
            return UNIT
        self.fuel -= 0
        k = e.get("k")
        m = getattr(self, "x_" + k, None)
        if m is None:
            raise Undecided("expression kind %s" % k)
        return m(e, env)

    def x_Lit(self, e, env):
        v = lit_value(e)
        if isinstance(v, tuple) and v[0] == "char":
            return v[1]
        if v is None:
            return Sym("lit")
        return v

    def x_NamedConst(self, e, env):
        v = lit_value(e)
        if isinstance(v, tuple) and v[0] == "char":
            return v[1]
        if v is None or (isinstance(v, str) and v.startswith("<indirect")):
            # a constant the exporter could not decode (arrays of enums, ..): evaluate its initialiser
            d = e.get("def")
            f = self.F.fns.get(d)
            if f is not None and f.get("thir"):
                cache = getattr(self.F, "_pe_consts", None)
                if cache is None:
                    cache = self.F._pe_consts = {}
                if d not in cache:
                    cache[d] = PE(self.F).call_fn(d, [])
                return cache[d]
            return Sym(("const", d))
        if isinstance(v, list):
            def conv(x):
                if isinstance(x, dict) and "char" in x:
                    return x["char"]
                if isinstance(x, dict) and "bytes" in x:
                    return ("bytes", tuple(x["bytes"]))
                if isinstance(x, dict) and "str" in x:
                    return ("str", x["str"])
                if isinstance(x, list):
                    return Tup([conv(y) for y in x])
                return x
            return Tup([conv(x) for x in v])        # a constant array of integers / characters, decoded by the exporter
        return v

    def x_Zst(self, e, env):
        fn = e.get("fn")
        if fn:
            return ("fn", fn.get("res") or fn.get("def"), fn)
        return Sym("zst")

    def x_Var(self, e, env):
        vid = e["var"]["id"]
        if vid in env:
            v = env[vid]
            return v.get() if isinstance(v, Ref) else v
        return Sym(("var", e["var"]["name"]), e.get("ty"))

    x_Upvar = x_Var

    def x_Borrow(self, e, env):
        if e.get("mut"):
            inner = e["e"]
            while inner.get("k") in ("Deref", "Borrow", "Scope", "Use") and inner.get("e") is not None and inner.get("k") != "Field":
                nxt = inner["e"]
                if inner.get("k") == "Deref" and nxt.get("k") == "Borrow":
                    inner = nxt["e"]
                    continue
                break
            if inner.get("k") == "Field":
                # `&mut place.field` of a concrete aggregate: a reference through which the callee can update the field
                try:
                    base = self.ev(inner["lhs"], env)
                except Undecided:
                    base = None
                if isinstance(base, Adt) and inner["name"] in base.fields:
                    return Ref(base, inner["name"])
            if inner.get("k") in ("Var", "Upvar") and inner["var"]["id"] in env:
                cur = env[inner["var"]["id"]]
                if isinstance(cur, Ref):
                    return cur
                if isinstance(cur, (int, bool, Sym, Lin, Wx)) or cur is None or isinstance(cur, tuple):
                    # `&mut local` of a scalar: what the callee stores through it is the local's new value
                    return Ref(env, inner["var"]["id"])
        return self.ev(e["e"], env)

    def x_Deref(self, e, env):
        return self.ev(e["e"], env)

    x_PtrCoerce = x_Deref

    def x_Try(self, e, env):
        v = self.ev(e["e"], env)
        if isinstance(v, Adt) and v.adt in ("core::result::Result", "core::option::Option"):
            if v.variant in ("Ok", "Some"):
                return v.fields.get("0", UNIT)
            # From conversion of the error: ErrorV5::from(Error) wraps into Common
            inner = v.fields.get("0")
            rf = (e.get("residual_fn") or {})
            out = rf.get("sig_out") or rf.get("self_ty") or ""
            if isinstance(inner, Adt) and inner.adt == "common::error::Error" and "ErrorV5" in out:
                inner = Adt("v5::error::ErrorV5", "Common", {"0": inner})
            raise _Ret(Adt(v.adt, v.variant, {"0": inner} if inner is not None else {}))
        if isinstance(v, Sym):
            d = self.decide(("try-ok", v), e)
            if d:
                return Sym(("ok-of", v.tag))
            raise _Ret(err(Sym(("err-of", v.tag))))
        raise Undecided("? on %r" % (v,))

    def x_Await(self, e, env):
        v = self.ev(e["e"], env)
        return self.force(v)

    def force(self, v):
        if isinstance(v, Future):
            return self._call_now(v.node, v.args, v.env)
        if isinstance(v, tuple) and v and v[0] == "closure":
            # an `async { .. }` / `async move { .. }` block handed to .await or block_on: its body runs now
            try:
                cf = self.F.fns.get(v[1]) or {}
                allp = (cf.get("thir") or {}).get("params", [])
                is_block = bool(allp) and "async block" in (allp[0].get("ty") or "")
                params = [q for q in allp if q.get("pat") is not None]
                if is_block:
                    return self.apply(v, [Sym("TASK_CONTEXT")] * len(params))
                if not params:
                    return self.apply(v, [])
            except _Ret as r:
                return r.v
        return v

    def x_Cast(self, e, env):
        v = self.ev(e["e"], env)
        if isinstance(v, bool):
            v = int(v)
        if isinstance(v, int):
            return wrap(v, e["ty"])
        if isinstance(v, (Lin, Wx)):
            fb, tb = INT_BITS.get(e.get("from_ty") or "", 64), INT_BITS.get(e.get("ty") or "", 64)
            if tb < fb:
                # truncation: kept as a term; it is no longer monotone, so comparing it afterwards is Undecided
                # (the function no longer touches its argument only through monotone terms)
                return Wx(("cast", tb, wx_term(v)), v.w, v.log)
            return v
        if isinstance(v, Adt):
            a = self.F.adts.get(v.adt)
            if a and a["kind"] == "enum":
                for vv in a["variants"]:
                    if vv["name"] == v.variant:
                        return wrap(vv["discr"], e["ty"])
        if isinstance(v, Sym):
            return Sym(("cast", v.tag, e["ty"]), e["ty"])
        return v

    def x_Tuple(self, e, env):
        return Tup([self.ev(x, env) for x in e["items"]])

    def x_Array(self, e, env):
        return Tup([self.ev(x, env) for x in e["items"]])

    def x_Repeat(self, e, env):
        n = e.get("n")
        if not isinstance(n, int):
            consts = self._tymap().get("#const") or []
            if len(consts) == 1:
                n = consts[0]          # `[0u8; N]` inside `f::<T, 2>`: the single const generic of this instantiation
        if isinstance(n, int) and n <= 64:
            v = self.ev(e["e"], env)
            return Tup([v] * n)
        return Sym(("array", n))

    def x_Adt(self, e, env):
        fields = {f["name"]: self.ev(f["e"], env) for f in e["fields"]}
        if e.get("base") and isinstance(e["base"], dict):
            b = self.ev(e["base"], env)
            if isinstance(b, Adt):
                for k2, v2 in b.fields.items():
                    fields.setdefault(k2, v2)
        return Adt(e["adt"], e["variant"], fields)

    def x_Field(self, e, env):
        b = self.ev(e["lhs"], env)
        name = e["name"]
        if isinstance(b, Adt):
            if name in b.fields:
                return b.fields[name]
            return Sym(("field", repr(b), name))
        if isinstance(b, Tup):
            return b.items[int(e["idx"])]
        if isinstance(b, Sym):
            return Sym(("field", b.tag, name), e.get("ty"))
        raise Undecided("field of %r" % (b,))

    def x_Index(self, e, env):
        b = self.ev(e["lhs"], env)
        i = self.ev(e["index"], env)
        if isinstance(b, Tup) and isinstance(i, int):
            if not 0 <= i < len(b.items):
                self.events.append(("panic", "index out of bounds"))
                raise Undecided("index %d out of bounds of a %d-element sequence" % (i, len(b.items)))
            return b.items[i]
        if isinstance(b, tuple) and b and b[0] == "bytes" and isinstance(i, int):
            return b[1][i]
        return Sym(("index", getattr(b, "tag", repr(b)), getattr(i, "tag", i)))

    def x_Unary(self, e, env):
        v = self.ev(e["e"], env)
        if e["op"] == "Not":
            if isinstance(v, bool):
                return not v
            if isinstance(v, int):
                bits = INT_BITS.get(e["ty"], 64)
                return (~v) & ((1 << bits) - 1)
            if isinstance(v, Sym):
                return Sym(("not", v.tag), "bool")
        if e["op"] == "Neg" and isinstance(v, int):
            return -v
        raise Undecided("unary %s on %r" % (e["op"], v))

    def x_Logical(self, e, env):
        l = self.truth(self.ev(e["l"], env), e["l"])
        if e["op"] == "And":
            if not l:
                return False
            return self.truth(self.ev(e["r"], env), e["r"])
        if l:
            return True
        return self.truth(self.ev(e["r"], env), e["r"])

    def x_Binary(self, e, env):
        a = self.ev(e["l"], env)
        b = self.ev(e["r"], env)
        op = e["op"]
        if op in ("Shl", "Shr") and isinstance(b, int) and not isinstance(b, bool):
            bits_ = INT_BITS.get(e.get("ty") or "")
            if bits_ and (b < 0 or b >= bits_):
                self.overflow.append((op, "shift amount", b, e.get("sp")))
        if isinstance(a, (Lin, Wx)) or isinstance(b, (Lin, Wx)):
            return self.lin_binary(op, a, b, e)
        if isinstance(a, bool):
            a = int(a) if op not in ("Eq", "Ne") else a
        if isinstance(b, bool):
            b = int(b) if op not in ("Eq", "Ne") else b
        if op in ("Eq", "Ne"):
            if isinstance(a, Sym) or isinstance(b, Sym):
                if getattr(self, "symbolic_eq", False) and isinstance(a, Sym) and isinstance(b, Sym):
                    # the rule wants to see the comparison itself (an overloaded `==` is the operands' own eq)
                    self.events.append(("eq", op, vkey(a), vkey(b)))
                    return Sym(("eq" if op == "Eq" else "ne", vkey(a), vkey(b)))
                if vkey(a) == vkey(b):
                    return op == "Eq"           # the same symbol on both sides is the same value
                r = self.decide(("cmp", op, vkey(a), vkey(b)), e)
                return r
            r = (vkey(a) == vkey(b))
            return r if op == "Eq" else not r
        if isinstance(a, int) and isinstance(b, int):
            if op in ("Lt", "Le", "Gt", "Ge"):
                return {"Lt": a < b, "Le": a <= b, "Gt": a > b, "Ge": a >= b}[op]
            try:
                r = {"Add": lambda: a + b, "Sub": lambda: a - b, "Mul": lambda: a * b, "Div": lambda: a // b,
                     "Rem": lambda: a % b, "BitAnd": lambda: a & b, "BitOr": lambda: a | b, "BitXor": lambda: a ^ b,
                     "Shl": lambda: a << b, "Shr": lambda: a >> b}[op]()
            except (KeyError, ZeroDivisionError):
                raise Undecided("binary %s" % op)
            bits = INT_BITS.get(e["ty"])
            if bits and (r < 0 or r >= (1 << bits)):
                self.overflow.append((op, a, b, e.get("sp")))
            return wrap(r, e["ty"])
        if op in ("Lt", "Le", "Gt", "Ge"):
            return self.decide(("cmp", op, vkey(a), vkey(b)), e)
        # canonical spelling of power-of-two arithmetic and of commutative operators (constant last):
        # x & (2^k - 1) == x % 2^k, x >> k == x / 2^k, x << k == x * 2^k for unsigned x
        if op in ("BitAnd", "BitOr", "BitXor", "Add", "Mul") and isinstance(a, int) and not isinstance(b, int):
            a, b = b, a
        if isinstance(b, int) and not isinstance(b, bool) and (e.get("ty") or "").startswith("u"):
            if op == "BitAnd" and b > 0 and (b & (b + 1)) == 0:
                op, b = "Rem", b + 1
            elif op == "Shr":
                op, b = "Div", 1 << b
            elif op == "Shl":
                op, b = "Mul", 1 << b
        return Sym(("bin", op, vkey(a), vkey(b)), e.get("ty"))

    def lin_binary(self, op, a, b, e):
        CMP = ("Lt", "Le", "Gt", "Ge", "Eq", "Ne")
        la, lb = isinstance(a, (Lin, Wx)), isinstance(b, (Lin, Wx))
        if la and lb:
            if isinstance(a, Lin) and isinstance(b, Lin):
                if op == "Add":
                    return Lin(a.a + b.a, a.b + b.b, a.w, a.log)
                if op == "Sub":
                    return Lin(a.a - b.a, a.b - b.b, a.w, a.log)
                if op in CMP and a.a == b.a:
                    x, y = a.b, b.b
                    return {"Lt": x < y, "Le": x <= y, "Gt": x > y, "Ge": x >= y, "Eq": x == y, "Ne": x != y}[op]
            raise Undecided("relation between two terms of the symbolic argument")
        if la:
            k = b
            if isinstance(k, bool):
                k = int(k)
            if not isinstance(k, int):
                raise Undecided("symbolic length combined with %r" % (k,))
            if isinstance(a, Lin):
                if op == "Add":
                    return Lin(a.a, a.b + k, a.w, a.log)
                if op == "Sub":
                    return Lin(a.a, a.b - k, a.w, a.log)
                if op == "Mul":
                    return Lin(a.a * k, a.b * k, a.w, a.log)
                if op == "Shl":
                    return Lin(a.a << k, a.b << k, a.w, a.log)
            if op in CMP:
                return wx_compare(op, a, k)
            if op in ("Add", "Sub", "Mul", "Div", "Rem", "BitAnd", "BitOr", "BitXor", "Shl", "Shr"):
                if op in ("Div", "Rem") and k == 0:
                    raise Undecided("division of the symbolic argument by zero")
                return Wx(("bin", op, wx_term(a), k), a.w, a.log)
            raise Undecided("operation %s on a symbolic length" % op)
        # constant <op> Lin/Wx
        flip = {"Lt": "Gt", "Le": "Ge", "Gt": "Lt", "Ge": "Le", "Eq": "Eq", "Ne": "Ne", "Add": "Add", "Mul": "Mul",
                "BitAnd": "BitAnd", "BitOr": "BitOr", "BitXor": "BitXor"}
        if op in flip:
            return self.lin_binary(flip[op], b, a, e)
        k = a if not isinstance(a, bool) else int(a)
        if not isinstance(k, int):
            raise Undecided("%r combined with a symbolic length" % (k,))
        if op == "Sub" and isinstance(b, Lin):
            return Lin(-b.a, k - b.b, b.w, b.log)
        if op in ("Sub", "Div", "Rem", "Shl", "Shr"):
            return Wx(("rbin", op, k, wx_term(b)), b.w, b.log)
        raise Undecided("operation %s on a symbolic length" % op)

    def x_Block(self, e, env):
        for s in e.get("stmts", []):
            if s["k"] == "Let":
                v = self.ev(s["init"], env) if s.get("init") is not None else Sym("uninit")
                if s.get("init") is not None and s["pat"].get("k") == "Binding":
                    src = strip(s["init"])
                    if src.get("k") in ("Var", "Upvar") and isinstance(env.get(src["var"]["id"]), Ref):
                        v = env[src["var"]["id"]]          # moving / re-binding a reference keeps it a reference
                if not self.match(s["pat"], v, env):
                    if s.get("else"):
                        self.ev(s["else"], env)
                    raise Undecided("refutable let")
            else:
                self.ev(s["e"], env)
        if e.get("expr") is not None:
            return self.ev(e["expr"], env)
        return UNIT

    def x_If(self, e, env):
        c = e["cond"]
        if c.get("k") == "Let":
            v = self.ev(c["e"], env)
            e2 = dict(env)
            if self.match(c["pat"], v, e2):
                env.update(e2)
                return self.ev(e["then"], env)
            return self.ev(e["else"], env) if e.get("else") else UNIT
        if self.truth(self.ev(c, env), c):
            return self.ev(e["then"], env)
        return self.ev(e["else"], env) if e.get("else") else UNIT

    def x_Let(self, e, env):
        v = self.ev(e["e"], env)
        e2 = dict(env)
        if self.match(e["pat"], v, e2):
            env.update(e2)
            return True
        return False

    def x_Match(self, e, env):
        v = self.ev(e["scrut"], env)
        for arm in e["arms"]:
            e2 = dict(env)
            if self.match(arm["pat"], v, e2):
                if arm.get("guard"):
                    if not self.truth(self.ev(arm["guard"], e2), arm["guard"]):
                        continue
                env.update(e2)
                return self.ev(arm["body"], env)
        raise Undecided("no arm matched %r" % (v,))

    def x_Return(self, e, env):
        raise _Ret(self.ev(e["e"], env) if e.get("e") else UNIT)

    def x_Break(self, e, env):
        raise _Brk(self.ev(e["e"], env) if e.get("e") else UNIT)

    def x_Continue(self, e, env):
        raise _Cont()

    def x_Loop(self, e, env):
        while True:
            self.fuel -= 1
            if self.fuel < 0:
                raise Undecided("loop fuel")
            try:
                self.ev(e["body"], env)
            except _Brk as b:
                return b.v
            except _Cont:
                continue

    def x_While(self, e, env):
        while True:
            self.fuel -= 1
            if self.fuel < 0:
                raise Undecided("loop fuel")
            if not self.truth(self.ev(e["cond"], env), e["cond"]):
                return UNIT
            try:
                self.ev(e["body"], env)
            except _Brk:
                return UNIT
            except _Cont:
                continue

    def x_For(self, e, env):
        it = self.ev(e["iter"], env)
        by_mut = False
        if isinstance(it, Adt) and it.adt == "seq-iter":
            by_mut = bool(it.fields.get("mut"))
            it = it.fields["0"]
        if isinstance(it, Adt) and it.adt.startswith("core::ops::range::Range") and it.variant in ("Range", "RangeInclusive"):
            lo, hi = it.fields.get("start"), it.fields.get("end")
            if isinstance(lo, int) and isinstance(hi, int) and hi - lo <= 4096:
                it = Tup(list(range(lo, hi + (1 if it.variant == "RangeInclusive" else 0))))
        if not isinstance(it, Tup):
            raise Undecided("for over %r" % (it,))
        for i_, x in enumerate(list(it.items)):
            e2 = env
            if by_mut and e["pat"].get("k") == "Binding" and not e["pat"].get("sub"):
                env[e["pat"]["var"]["id"]] = Ref(it, i_)       # `for slot in arr.iter_mut()`: slot aliases the element
                ok_ = True
            else:
                ok_ = self.match(e["pat"], x, e2)
            if not ok_:
                raise Undecided("for pattern")
            try:
                self.ev(e["body"], env)
            except _Brk:
                break
            except _Cont:
                continue
        return UNIT

    def x_Assign(self, e, env):
        v = self.ev(e["r"], env)
        self.store(e["l"], v, env)
        return UNIT

    def x_AssignOp(self, e, env):
        cur = self.ev(e["l"], env)
        r = self.ev(e["r"], env)
        op = e["op"].replace("Assign", "")
        fake = {"k": "Binary", "op": op, "ty": (strip(e["l"]).get("ty") or e["l"].get("ty")), "sp": e.get("sp"),
                "l": {"k": "__val", "v": cur}, "r": {"k": "__val", "v": r}}
        v = self.x_Binary(fake, env)
        self.store(e["l"], v, env)
        return UNIT

    def x___val(self, e, env):
        return e["v"]

    def store(self, l, v, env):
        base = strip(l)
        if base.get("k") in ("Var", "Upvar"):
            cur = env.get(base["var"]["id"])
            if isinstance(cur, Ref):
                cur.set(v)          # assignment through a by-reference binding
                return
            if l.get("k") == "Deref" and isinstance(cur, Sym) and isinstance(cur.tag, tuple) and cur.tag and cur.tag[0] == "field":
                # assignment through a `&mut place` parameter: record which place is written
                self.events.append(("store", cur.tag, v))
                return
            env[base["var"]["id"]] = v
            return
        if base.get("k") == "Field":
            try:
                obj = self.ev(base["lhs"], env)
            except Undecided:
                obj = None
            if isinstance(obj, Sym):
                self.events.append(("store", ("field", obj.tag, base["name"]), v))
                return
        if base.get("k") == "Field":
            obj = self.ev(base["lhs"], env)
            if isinstance(obj, Adt):
                obj.fields[base["name"]] = v
                return
        if base.get("k") == "Index":
            obj = self.ev(base["lhs"], env)
            idx = self.ev(base["index"], env)
            if isinstance(obj, Tup) and isinstance(idx, int) and not isinstance(idx, bool):
                if 0 <= idx < len(obj.items):
                    obj.items[idx] = v          # arrays are updated in place (`table[i] = x` while a constant table is built)
                else:
                    self.events.append(("panic", "index %d out of bounds (len %d)" % (idx, len(obj.items))))
                return
            if isinstance(obj, Tup):
                raise Undecided("store to element %r of an array" % (idx,))
        self.events.append(("store", pp(l), v))

    def x_Closure(self, e, env):
        return ("closure", e["def"], dict(env))

    # ---- calls
    def x_Call(self, e, env):
        fn = e["fn"]
        d = fn.get("def", "") or ""
        res = fn.get("res") or d
        name = fn.get("name")
        args = [self._arg(a, env) for a in e["args"]]
        if not d and e.get("fun") is not None:
            # indirect call through a value: a function item / closure passed as an argument
            fv = self.ev(e["fun"], env)
            if isinstance(fv, tuple) and fv and fv[0] == "fn" and isinstance(fv[2], dict):
                # re-enter as a direct call so that hooks and builtins see the real callee
                e2 = dict(e)
                e2["fn"] = fv[2]
                e2.pop("fun", None)
                e2["args"] = [{"k": "__val", "v": a} for a in args]
                return self.x_Call(e2, env)
            if isinstance(fv, tuple) and fv and fv[0] in ("closure", "fn"):
                return self.apply(fv, args)
            raise Undecided("indirect call through %r" % (fv,))
        callee0 = self.F.fns.get(res)
        if callee0 is not None and callee0.get("is_async") and callee0.get("kind") in ("Fn", "AssocFn"):
            return Future(e, args, env)          # an async fn of the crate: performed when awaited
        return self._call_now(e, args, env)

    def _arg(self, a, env):
        """An argument value; a (re)borrow of a variable that holds a place reference passes the reference on."""
        s_ = a
        while isinstance(s_, dict) and s_.get("k") in ("Borrow", "Deref", "Scope", "Use", "PtrCoerce") and isinstance(s_.get("e"), dict):
            s_ = s_["e"]
        if isinstance(s_, dict) and s_.get("k") in ("Var", "Upvar") and isinstance(env.get(s_["var"]["id"]), Ref):
            return env[s_["var"]["id"]]
        return self.ev(a, env)

    def _call_now(self, e, args, env):
        fn = e["fn"]
        raw_args = args
        callee_is_crate = ((fn.get("res") or fn.get("def") or "") in self.F.fns)
        if not callee_is_crate:
            args = [a.get() if isinstance(a, Ref) else a for a in args]        # foreign code sees values
        d = fn.get("def", "") or ""
        res = fn.get("res") or d
        name = fn.get("name")
        if name == "block_on":
            args = [self.force(a) for a in args]
        if self.call_hook is not None:
            r = self.call_hook(d, res, [a.get() if isinstance(a, Ref) else a for a in args], e, env)
            if r is not None:
                return r[0] if isinstance(r, list) else r
        # std helpers on concrete values
        r = self.builtin(d, res, name, args, e)
        if r is not NotImplemented:
            return r
        callee = self.F.fns.get(res)
        if callee is None and fn.get("res_kind") == "Unresolved" and fn.get("krate") == self.F.data["crate"]:
            # a trait method called on a type parameter inside a generic helper: dispatch on the instantiation we are in
            conc = self._tymap().get((fn.get("self_ty") or "").lstrip("&").replace("mut ", ""))
            if not conc and args and isinstance(args[0], Adt) and args[0].adt in self.F.adts:
                conc = args[0].adt              # the receiver is a concrete value of a crate type: dispatch on it
            if conc:
                for imp in self.F.impls:
                    if imp.get("trait") == fn.get("trait") and imp.get("self_ty") == conc:
                        for it in imp["items"]:
                            if it["name"] == name and it["def"] in self.F.fns:
                                res, callee = it["def"], self.F.fns[it["def"]]
        if self.inline and callee is not None and callee.get("thir"):
            # remember which concrete types the callee's type parameters stand for (from the argument types at this call site)
            tm = {}
            params = [q for q in callee["thir"]["params"] if q.get("pat") is not None or q.get("ty")]
            for q, a in zip(params, e["args"]):
                pt = (q.get("ty") or "").replace("&mut ", "").replace("&", "").strip()
                at = (a.get("ty") or "").replace("&mut ", "").replace("&", "").strip()
                if pt and at and pt.isidentifier() and len(pt) <= 3 and pt != at:
                    tm[pt] = self._tymap().get(at, at)
            cg = [int(a) for a in (fn.get("args") or []) if isinstance(a, str) and a.isdigit()]
            if cg:
                tm["#const"] = cg
            self._tystack = getattr(self, "_tystack", []) + [tm]
            try:
                return self.call_fn(res, args)
            finally:
                self._tystack = self._tystack[:-1]
        # tuple-struct / enum-variant constructor used as a function
        ctor = self._ctor(res, args)
        if ctor is not None:
            return ctor
        # an unmodelled foreign call that receives `&mut` of something this evaluation tracks concretely may change it behind
        # our back: the evaluation cannot go on as if nothing happened
        for an, av in zip(e.get("args") or [], raw_args):
            if isinstance(an, dict) and ((an.get("k") == "Borrow" and an.get("mut")) or (an.get("ty") or "").startswith("&mut ")):
                tracked = isinstance(av, Ref) or (isinstance(av, (Adt, Tup)) and not (isinstance(av, Adt) and av.adt == "seq-iter"))
                if tracked and name not in _HARMLESS_MUT:
                    raise Undecided("unmodelled call %s receives a mutable reference to a tracked value" % (res or name))
        return Sym(("call", res, tuple(vkey(a) for a in args)), e.get("ty"))

    def _ctor(self, res, args):
        if "::" not in res:
            return None
        parent, vname = res.rsplit("::", 1)
        a = self.F.adts.get(parent)
        if a is not None and a["kind"] == "enum":
            for v in a["variants"]:
                if v["name"] == vname and v.get("ctor") == "Fn":
                    return Adt(parent, vname, {str(i): x for i, x in enumerate(args)})
        a = self.F.adts.get(res)
        if a is not None and a["kind"] == "struct" and a["variants"][0].get("ctor") == "Fn":
            return Adt(res, a["variants"][0]["name"], {str(i): x for i, x in enumerate(args)})
        return None

    def builtin(self, d, res, name, args, e):
        a0 = args[0] if args else None
        if d.startswith("core::option::Option") or d.startswith("core::result::Result"):
            if isinstance(a0, Adt):
                v = a0.variant
                inner = a0.fields.get("0", UNIT)
                if name == "is_some":
                    return v == "Some"
                if name == "is_none":
                    return v == "None"
                if name == "is_ok":
                    return v == "Ok"
                if name == "is_err":
                    return v == "Err"
                if name in ("unwrap", "expect"):
                    if v in ("Some", "Ok"):
                        return inner
                    self.events.append(("panic", name))
                    raise Undecided("unwrap of %r" % (a0,))
                if name == "ok_or":
                    return ok(inner) if v == "Some" else err(args[1])
                if name == "unwrap_or" and len(args) == 2:
                    return inner if v in ("Some", "Ok") else args[1]
                if name == "unwrap_or_else" and len(args) == 2:
                    return inner if v in ("Some", "Ok") else self.apply(args[1], [] if v == "None" else [inner])
                if name in ("map_or", "map_or_else") and len(args) == 3:
                    if v in ("Some", "Ok"):
                        return self.apply(args[2], [inner])
                    return args[1] if name == "map_or" else self.apply(args[1], [] if v == "None" else [inner])
                if name in ("is_some_and", "is_ok_and") and len(args) == 2:
                    return self.truth(self.apply(args[1], [inner]), e) if v in ("Some", "Ok") else False
                if name == "filter" and len(args) == 2:
                    return a0 if v == "Some" and self.truth(self.apply(args[1], [inner]), e) else NONE
                if name == "or" and len(args) == 2:
                    return a0 if v in ("Some", "Ok") else args[1]
                if name == "or_else" and len(args) == 2:
                    return a0 if v in ("Some", "Ok") else self.apply(args[1], [] if v == "None" else [inner])
                if name == "and" and len(args) == 2:
                    return args[1] if v in ("Some", "Ok") else a0
                if name == "xor" and len(args) == 2 and isinstance(args[1], Adt):
                    o = args[1]
                    return a0 if (v == "Some" and o.variant == "None") else o if (v == "None" and o.variant == "Some") else NONE
                if name in ("unwrap_or_default",) and len(args) == 1 and v in ("Some", "Ok"):
                    return inner
                if name == "flatten" and len(args) == 1:
                    return inner if v in ("Some", "Ok") and isinstance(inner, Adt) else a0
                if name == "zip" and len(args) == 2 and isinstance(args[1], Adt) and d.startswith("core::option"):
                    o = args[1]
                    return some(Tup([inner, o.fields.get("0", UNIT)])) if v == "Some" and o.variant == "Some" else NONE
                if name == "err":
                    return some(inner) if v == "Err" else NONE
                if name == "ok":
                    return some(inner) if v == "Ok" else NONE
                if name in ("map", "map_err", "ok_or_else", "and_then"):
                    hit = {"map": ("Some", "Ok"), "and_then": ("Some", "Ok"), "map_err": ("Err",), "ok_or_else": ("None",)}[name]
                    if v not in hit:
                        if name == "ok_or_else":
                            return ok(inner)
                        return a0
                    f = args[1]
                    r = self.apply(f, [inner] if name != "ok_or_else" else [])
                    if name == "map":
                        return Adt(a0.adt, v, {"0": r})
                    if name == "map_err":
                        return err(r)
                    if name == "ok_or_else":
                        return err(r)
                    return r
                if name in ("as_ref", "as_mut", "as_deref", "cloned", "copied"):
                    return a0
            return NotImplemented
        if name == "from" and len(args) == 1 and (isinstance(a0, (int, bool))):
            return wrap(int(a0), e.get("ty") or "")
        if name == "from" and len(args) == 1 and isinstance(a0, Sym) and (e.get("ty") or "") in INT_BITS:
            return a0      # integer widening of an opaque value
        if name == "from" and len(args) == 1 and isinstance(a0, (Lin, Wx)):
            return a0
        if name in ("into", "from") and len(args) == 1 and isinstance(a0, (int, bool)) and (e.get("ty") or "") in INT_BITS:
            return wrap(int(a0), e.get("ty") or "")
        if name in ("into", "from") and len(args) == 1 and not self.F.fns.get(res):
            # a blanket Into / generic From: dispatch to the crate's own `impl From<Arg> for Target`
            r = self._from_dispatch((e["args"][0].get("ty") or "").lstrip("&"), e.get("ty") or "", a0)
            if r is not NotImplemented:
                return r
        if name in ("then_some", "then") and len(args) == 2 and isinstance(a0, bool) and d.startswith("core::bool"):
            if not a0:
                return NONE
            return some(args[1] if name == "then_some" else self.apply(args[1], []))
        if name in ("checked_sub", "checked_add", "checked_mul") and len(args) == 2 and all(isinstance(x, int) and not isinstance(x, bool) for x in args):
            bits = INT_BITS.get(e["fn"].get("impl_self") or "", 64)
            v = {"checked_sub": a0 - args[1], "checked_add": a0 + args[1], "checked_mul": a0 * args[1]}[name]
            return some(v) if 0 <= v < (1 << bits) else NONE
        if name in ("into", "from") and len(args) == 1:
            # From<Error> for ErrorV5
            if isinstance(a0, Adt) and a0.adt == "common::error::Error" and (e.get("ty") or "").endswith("ErrorV5"):
                return Adt("v5::error::ErrorV5", "Common", {"0": a0})
            if isinstance(a0, (Adt, Tup)) and not self.F.fns.get(res):
                if (e.get("ty") or "").endswith("std::io::error::Error"):
                    return Adt("std::io::error::Error", "from_kind", {"0": a0})
                return a0
        if name in ("clone", "to_owned", "borrow", "as_ref", "deref", "as_str", "as_bytes", "to_string", "as_slice") and len(args) == 1:
            return a0
        if name == "default" and not args:
            import re as _re
            m_ = _re.fullmatch(r"\[(.*); (\d+)\]", e.get("ty") or "")
            if m_ and int(m_.group(2)) <= 16:
                return Tup([Sym(("default", m_.group(1)), m_.group(1)) for _ in range(int(m_.group(2)))])
            dv = self._default_of(e.get("ty") or "")
            if dv is not None:
                return dv
            return Sym(("default", e.get("ty")), e.get("ty"))
        if name == "new" and d.startswith("core::ops::range::RangeInclusive") and len(args) == 2:
            return Adt("core::ops::range::RangeInclusive", "RangeInclusive", {"start": args[0], "end": args[1]})
        if name in _OP_METHODS and len(args) == 2 and ("core::ops::" in d or "core::ops::" in (e["fn"].get("trait") or "")):
            # an operator used through its trait on primitive operands (`flags | mask` with mask: &u8)
            ty_ = e.get("ty") or ""
            if ty_ in INT_BITS or ty_ == "bool":
                fake = {"k": "Binary", "op": _OP_METHODS[name], "ty": ty_, "sp": e.get("sp"),
                        "l": {"k": "__val", "v": args[0]}, "r": {"k": "__val", "v": args[1]}}
                return self.x_Binary(fake, {})
        if name == "discriminant" and d.startswith("core::mem") and len(args) == 1 and isinstance(a0, Adt):
            return Adt("core::mem::Discriminant", "%s::%s" % (a0.adt, a0.variant))
        if name in ("leading_zeros",) and len(args) == 1 and isinstance(a0, (Lin, Wx)):
            bits_ = INT_BITS.get(e["fn"].get("impl_self") or "", 64)
            return Wx(("lz", bits_, wx_term(a0)), a0.w, a0.log)
        if name in ("leading_zeros",) and len(args) == 1 and isinstance(a0, int) and not isinstance(a0, bool):
            bits_ = INT_BITS.get(e["fn"].get("impl_self") or "", 64)
            return bits_ - a0.bit_length()
        if name == "len_utf8" and len(args) == 1 and isinstance(a0, int) and not isinstance(a0, bool):
            return 1 if a0 < 0x80 else 2 if a0 < 0x800 else 3 if a0 < 0x10000 else 4
        if name == "len_utf16" and len(args) == 1 and isinstance(a0, int) and not isinstance(a0, bool):
            return 1 if a0 < 0x10000 else 2
        if name in ("is_ascii",) and len(args) == 1 and isinstance(a0, int) and not isinstance(a0, bool):
            return a0 < 0x80
        if name == "max_value" and not args:
            bits = INT_BITS.get((e.get("ty") or ""))
            if bits:
                return (1 << bits) - 1
        if name == "len" and len(args) == 1:
            if isinstance(a0, tuple) and a0 and a0[0] in ("bytes", "str"):
                return len(a0[1]) if a0[0] == "bytes" else len(a0[1].encode())
            if isinstance(a0, Tup):
                return len(a0.items)
        if "NonZero" in d and name == "new" and len(args) == 1:
            if isinstance(a0, int):
                return some(Adt("nonzero", "NZ", {"0": a0})) if a0 != 0 else NONE
            if isinstance(a0, (Lin, Wx)):
                return NONE if wx_compare("Eq", a0, 0) else some(Adt("nonzero", "NZ", {"0": a0}))
        if "NonZero" in d and name == "get" and isinstance(a0, Adt) and a0.adt == "nonzero":
            return a0.fields["0"]
        if name == "to_be_bytes" and isinstance(a0, Sym):
            bits = INT_BITS.get(e["fn"].get("impl_self") or "", 0)
            if bits:
                n = bits // 8
                return Tup([Sym(("be", vkey(a0), i, n)) for i in range(n)])     # byte i (most significant first) of an opaque integer
        if name in ("try_into", "try_from") and len(args) == 1 and isinstance(a0, Tup) and "; " in (e.get("ty") or "") and "[" in (e.get("ty") or ""):
            return ok(a0)                 # slice -> array of the same length (the length is the slice's own)
        if name in ("from_be_bytes", "from_le_bytes", "from_ne_bytes") and isinstance(a0, Tup) and a0.items and \
                all(isinstance(x, int) and not isinstance(x, bool) for x in a0.items):
            bs = list(a0.items) if name == "from_be_bytes" else list(reversed(a0.items))
            v_ = 0
            for x in bs:
                v_ = (v_ << 8) | (x & 0xFF)
            return v_
        if name in ("wrapping_sub", "wrapping_add", "wrapping_mul") and len(args) == 2 and all(isinstance(x, int) and not isinstance(x, bool) for x in args):
            bits_ = INT_BITS.get(e["fn"].get("impl_self") or e.get("ty") or "", 64)
            r_ = {"wrapping_sub": a0 - args[1], "wrapping_add": a0 + args[1], "wrapping_mul": a0 * args[1]}[name]
            return r_ % (1 << bits_)
        if name == "from_be_bytes" and isinstance(a0, Tup) and a0.items and all(isinstance(x, Sym) for x in a0.items):
            return Sym(("from_be", tuple(vkey(x) for x in a0.items)))
        if name == "to_be_bytes" and isinstance(a0, int):
            bits = INT_BITS.get(e["fn"].get("impl_self") or "", 0)
            if bits:
                return Tup([(a0 >> (8 * i)) & 0xFF for i in reversed(range(bits // 8))])
        if name == "from_be_bytes" and isinstance(a0, Tup) and all(isinstance(x, int) for x in a0.items):
            v = 0
            for x in a0.items:
                v = (v << 8) | x
            return v
        r = self._seq_builtin(d, name, args, e)
        if r is not NotImplemented:
            return r
        if d.startswith("core::panicking"):
            self.events.append(("panic", "explicit"))
            raise Undecided("panic reached")
        return NotImplemented

    def _seq_builtin(self, d, name, args, e):
        """Slices / arrays / iterators over concrete sequences (Tup): the operations a table lookup is written with."""
        a0 = args[0] if args else None
        if isinstance(a0, Adt) and a0.adt == "seq-iter":
            a0 = a0.fields["0"]
            is_iter = True
        else:
            is_iter = False
        if not isinstance(a0, Tup) or not (d.startswith("core::slice") or d.startswith("core::iter") or d.startswith("core::array")
                                           or d.startswith("<") or "IntoIterator" in d or "Iterator" in d or d.startswith("alloc::vec")
                                           or (d.startswith("core::ops::index::Index::") and name == "index")):
            return NotImplemented
        items = a0.items
        if name in ("iter", "into_iter", "copied", "cloned", "as_slice", "by_ref") and len(args) == 1:
            return Adt("seq-iter", "It", {"0": a0})
        if name == "iter_mut" and len(args) == 1:
            return Adt("seq-iter", "It", {"0": a0, "mut": True})
        if name == "push" and len(args) == 2 and not is_iter and d.startswith("alloc::vec"):
            a0.items.append(args[1])
            return UNIT
        if name == "index" and len(args) == 2 and not is_iter and isinstance(args[1], Adt) and args[1].adt.startswith("core::ops::range::") \
                and args[1].variant in ("Range", "RangeFrom", "RangeTo", "RangeFull"):
            lo, hi = args[1].fields.get("start", 0), args[1].fields.get("end", len(items))
            if isinstance(lo, int) and isinstance(hi, int) and not isinstance(lo, bool) and not isinstance(hi, bool):
                if not (0 <= lo <= hi <= len(items)):
                    self.events.append(("panic", "range %d..%d out of bounds (len %d)" % (lo, hi, len(items))))
                    raise Undecided("panic reached")
                return a0 if (lo, hi) == (0, len(items)) else Tup(items[lo:hi])      # a shared view: never written through
        if name == "get" and len(args) == 2 and isinstance(args[1], int) and not is_iter:
            return some(items[args[1]]) if 0 <= args[1] < len(items) else NONE
        if name in ("first", "last") and len(args) == 1 and not is_iter:
            return (some(items[0 if name == "first" else -1]) if items else NONE)
        if name in ("chunks", "chunks_exact") and len(args) == 2 and isinstance(args[1], int) and args[1] > 0 and not is_iter:
            k_ = args[1]
            full = len(items) // k_ * k_
            parts = [Tup(items[i:i + k_]) for i in range(0, full, k_)]
            rem = items[full:]
            if name == "chunks" and rem:
                parts.append(Tup(rem))
                rem = []
            return Adt("seq-iter", "It", {"0": Tup(parts), "rem": Tup(rem)})
        if name in ("remainder", "into_remainder") and len(args) == 1 and is_iter:
            return args[0].fields.get("rem", Tup([]))
        if name in ("try_into", "try_from") and len(args) == 1 and not is_iter and "[" in (e.get("ty") or ""):
            return ok(a0)                 # slice -> array of the same length
        if name in ("binary_search", "binary_search_by_key") and len(args) in (2, 3) and not is_iter:
            keys = [self.apply(args[2], [x]) for x in items] if name == "binary_search_by_key" else list(items)
            k_ = args[1]
            if all(isinstance(x, int) and not isinstance(x, bool) for x in keys) and isinstance(k_, int) and keys == sorted(keys):
                if k_ in keys:
                    return ok(keys.index(k_))
                return err(sum(1 for x in keys if x < k_))
            raise Undecided("binary search over %r" % (keys[:4],))
        if name in ("fold", "try_fold") and len(args) == 3:
            acc = args[1]
            for x in items:
                acc = self.apply(args[2], [acc, x])
                if name == "try_fold":
                    if isinstance(acc, Adt) and acc.variant in ("Err", "None"):
                        return acc
                    if isinstance(acc, Adt) and acc.variant in ("Ok", "Some"):
                        acc = acc.fields.get("0", UNIT)
            return acc if name == "fold" else ok(acc)
        if name in ("sum", "product") and len(args) == 1 and all(isinstance(x, int) and not isinstance(x, bool) for x in items):
            if name == "sum":
                return sum(items)
            r_ = 1
            for x in items:
                r_ *= x
            return r_
        if name in ("try_for_each", "for_each") and len(args) == 2:
            for x in items:
                r = self.apply(args[1], [x])
                if name == "try_for_each":
                    if isinstance(r, Adt) and r.variant in ("Err", "None", "Break"):
                        return r
                    if not (isinstance(r, Adt) and r.variant in ("Ok", "Some", "Continue")):
                        if not self.decide(("try-ok", r), e):
                            return r
            return ok(UNIT) if name == "try_for_each" else UNIT
        if name == "enumerate" and len(args) == 1:
            return Adt("seq-iter", "It", {"0": Tup([Tup([i, x]) for i, x in enumerate(items)])})
        if name == "rev" and len(args) == 1:
            return Adt("seq-iter", "It", {"0": Tup(list(reversed(items)))})
        if name in ("skip", "take") and len(args) == 2 and isinstance(args[1], int):
            return Adt("seq-iter", "It", {"0": Tup(items[args[1]:] if name == "skip" else items[:args[1]])})
        if name == "zip" and len(args) == 2:
            o = args[1]
            if isinstance(o, Adt) and o.adt == "seq-iter":
                o = o.fields["0"]
            if isinstance(o, Tup):
                return Adt("seq-iter", "It", {"0": Tup([Tup([x, y]) for x, y in zip(items, o.items)])})
        if name == "is_empty" and len(args) == 1:
            return not items
        if name in ("len", "count") and len(args) == 1:
            return len(items)
        if name == "contains" and len(args) == 2:
            return any(vkey(x) == vkey(args[1]) for x in items)
        if name in ("find", "position", "any", "all", "find_map", "map", "filter") and len(args) == 2:
            out = []
            for i, x in enumerate(items):
                r = self.apply(args[1], [x])
                if name == "map":
                    out.append(r)
                    continue
                if name == "find_map":
                    if isinstance(r, Adt) and r.variant == "Some":
                        return r
                    if isinstance(r, Adt) and r.variant == "None":
                        continue
                    raise Undecided("find_map closure result %r" % (r,))
                t = self.truth(r, e)
                if name == "find" and t:
                    return some(x)
                if name == "position" and t:
                    return some(i)
                if name == "any" and t:
                    return True
                if name == "all" and not t:
                    return False
                if name == "filter" and t:
                    out.append(x)
            if name in ("map", "filter"):
                return Adt("seq-iter", "It", {"0": Tup(out)})
            return {"find": NONE, "position": NONE, "find_map": NONE, "any": False, "all": True}[name]
        if name in ("take_while", "skip_while") and len(args) == 2:
            k = 0
            while k < len(items) and self.truth(self.apply(args[1], [items[k]]), e):
                k += 1
            return Adt("seq-iter", "It", {"0": Tup(items[:k] if name == "take_while" else items[k:])})
        if name == "rposition" and len(args) == 2:
            for i in range(len(items) - 1, -1, -1):
                if self.truth(self.apply(args[1], [items[i]]), e):
                    return some(i)
            return NONE
        if name == "filter_map" and len(args) == 2:
            out = []
            for x in items:
                r = self.apply(args[1], [x])
                if isinstance(r, Adt) and r.variant == "Some":
                    out.append(r.fields.get("0", UNIT))
                elif not (isinstance(r, Adt) and r.variant == "None"):
                    raise Undecided("filter_map closure result %r" % (r,))
            return Adt("seq-iter", "It", {"0": Tup(out)})
        if name == "last" and len(args) == 1:
            return some(items[-1]) if items else NONE
        if name in ("min", "max") and len(args) == 1 and all(isinstance(x, int) and not isinstance(x, bool) for x in items):
            return some((min if name == "min" else max)(items)) if items else NONE
        if name in ("collect", "to_vec", "into_vec") and len(args) == 1:
            return a0
        if name == "nth" and len(args) == 2 and isinstance(args[1], int):
            return some(items[args[1]]) if 0 <= args[1] < len(items) else NONE
        if name == "next" and len(args) == 1:
            return some(items[0]) if items else NONE
        return NotImplemented

    def _default_of(self, ty, depth=0):
        """Default::default() of std types and of crate structs whose Default is derived (field by field)."""
        if ty.startswith("core::option::Option<"):
            return NONE
        if ty.startswith("alloc::vec::Vec<"):
            return Tup([])
        if ty == "bool":
            return False
        if ty in INT_BITS:
            return 0
        a = self.F.adts.get(ty)
        if a and a["kind"] == "struct" and depth < 4:
            imp = [i for i in self.F.impls if (i.get("trait") or "").endswith("default::Default") and i.get("self_adt") == ty]
            if imp and imp[0].get("derived"):
                fields = {}
                for f in a["variants"][0]["fields"]:
                    dv = self._default_of(f["ty"], depth + 1)
                    fields[f["name"]] = dv if dv is not None else Sym(("default", f["ty"]), f["ty"])
                return Adt(ty, ty.rsplit("::", 1)[1], fields)
        return None

    def _from_dispatch(self, aty, target, a0):
        cands = []
        for imp in self.F.impls:
            if (imp.get("trait") or "").endswith("convert::From") and imp["self_ty"] == target and (imp.get("trait_args") or [None])[0] == aty:
                for it in imp["items"]:
                    if it["name"] == "from" and it["def"] in self.F.fns:
                        return self.call_fn(it["def"], [a0])
            # inside a generic helper the types are parameters: dispatch on the value when exactly one crate impl converts it
            if (imp.get("trait") or "").endswith("convert::From") and isinstance(a0, Adt) and (imp.get("trait_args") or [None])[0] == a0.adt \
                    and ("::" not in target or "::" not in aty):
                cands += [it["def"] for it in imp["items"] if it["name"] == "from" and it["def"] in self.F.fns]
        if len(cands) == 1:
            return self.call_fn(cands[0], [a0])
        return NotImplemented

    def apply(self, f, args):
        if isinstance(f, tuple) and f and f[0] == "closure":
            cf = self.F.fns[f[1]]
            body = self._closure_body(f[1])
            params = list(cf["thir"]["params"])
            if params and params[0].get("pat") is None:
                params = params[1:]
            env = dict(f[2])
            for p, a in zip(params, args):
                if p.get("pat") is not None:
                    self.match(p["pat"], a, env)
            try:
                return self.ev(body, env)
            except _Ret as r:
                return r.v
        if isinstance(f, tuple) and f and f[0] == "fn":
            c = self._ctor(f[1], args)
            if c is not None:
                return c
            if len(args) == 1 and f[1] in ("core::option::Option::Some", "core::result::Result::Ok", "core::result::Result::Err"):
                return {"Some": some, "Ok": ok, "Err": err}[f[1].rsplit("::", 1)[1]](args[0])
            if f[1] in self.F.fns:
                if self.call_hook is not None:
                    # a function of the crate used as a value (`.and_then(TopicName::try_from)`): the rule's model of it applies
                    # exactly as for a direct call
                    rec_ = f[2] if len(f) > 2 and isinstance(f[2], dict) else {}
                    fnrec = dict(rec_)
                    fnrec.setdefault("def", f[1])
                    fnrec["res"] = f[1]
                    fnrec.setdefault("name", f[1].rsplit("::", 1)[-1])
                    node = {"k": "Call", "fn": fnrec, "args": [{"k": "__val", "v": a} for a in args], "ty": fnrec.get("sig_out")}
                    h = self.call_hook(fnrec["def"], f[1], [a.get() if isinstance(a, Ref) else a for a in args], node, {})
                    if h is not None:
                        return h
                return self.call_fn(f[1], args)
            rec = f[2] if len(f) > 2 and isinstance(f[2], dict) else {}
            fd = rec.get("def") or f[1]
            if fd.endswith("convert::Into::into") or fd.endswith("convert::From::from"):
                ga = rec.get("args") or []
                if len(ga) == 2 and len(args) == 1:
                    src, dst = (ga[0], ga[1]) if fd.endswith("Into::into") else (ga[1], ga[0])
                    r = self._from_dispatch(src.lstrip("&"), dst, args[0])
                    if r is not NotImplemented:
                        return r
                return args[0]
            if rec.get("def"):
                # a foreign function used as a value (`.map(Arc::new)`): the same model as a direct call
                fake = {"k": "Call", "fn": rec, "ty": rec.get("sig_out"), "args": [{"k": "__val", "v": a} for a in args]}
                return self.ev(fake, {})
        raise Undecided("apply %r" % (f,))


def canon(e):
    """pp() with evaluated constants folded in and reference noise removed: stable under introducing named
    constants, `&`/`*` adjustments."""
    from tables import const_eval
    if not isinstance(e, dict):
        return str(e)
    e = strip(e)
    v = const_eval(e)
    if v is not None and not isinstance(v, bool):
        return str(v)
    k = e.get("k")
    if k == "Binary":
        return "(%s %s %s)" % (canon(e["l"]), e["op"], canon(e["r"]))
    if k == "Cast":
        return "(%s as %s)" % (canon(e["e"]), e["ty"])
    if k == "Call":
        fn = e["fn"]
        return "%s(%s)" % (fn.get("res") or fn.get("def"), ", ".join(canon(a) for a in e["args"]))
    if k == "Field":
        return "%s.%s" % (canon(e["lhs"]), e["name"])
    if k == "Unary":
        return "%s(%s)" % (e["op"], canon(e["e"]))
    return pp(e).lstrip("*&")
