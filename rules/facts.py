"""Loader and helpers for the facts exported by mqfacts (THIR trees, MIR CFGs, ADTs, impls).

No rule in this package looks at source text or line numbers: spans are carried only
for diagnostics.
"""
import json
import os
import subprocess
import sys
import tempfile
import time

HERE = os.path.dirname(os.path.abspath(__file__))
VERIF = os.path.dirname(HERE)
REPO = os.environ.get("MQ_REPO", "/repo")


class Facts:
    def __init__(self, data, config="default"):
        self.data = data
        self.config = config
        self.fns = {}
        self.fn_list = data["fns"]
        for f in data["fns"]:
            # AnonConst/Const bodies can share ids with nothing else; keep first
            self.fns.setdefault(f["id"], f)
        self.adts = {a["path"]: a for a in data["adts"]}
        self.adt_by_name = {}
        for a in data["adts"]:
            self.adt_by_name.setdefault(a["name"], []).append(a)
        self.impls = data["impls"]
        self.consts = data["consts"]
        self.inventory = data.get("inventory", {})

    # ---- functions -------------------------------------------------------
    def fn(self, fid):
        return self.fns.get(fid)

    def body_of(self, fid):
        """THIR root of a function; for `async fn` the coroutine body `{closure#0}`."""
        f = self.fns.get(fid)
        if f is None:
            return None
        if f.get("is_async") and f["kind"] in ("Fn", "AssocFn"):
            inner = self.fns.get(fid + "::{closure#0}")
            if inner is not None and inner.get("thir"):
                return inner["thir"]["root"]
        t = f.get("thir")
        return t["root"] if t else None

    def body_fn(self, fid):
        """The fn record holding the real body (coroutine closure for async fns)."""
        f = self.fns.get(fid)
        if f is None:
            return None
        if f.get("is_async") and f["kind"] in ("Fn", "AssocFn"):
            inner = self.fns.get(fid + "::{closure#0}")
            if inner is not None:
                return inner
        return f

    def impls_of(self, trait_suffix=None, self_adt=None):
        out = []
        for i in self.impls:
            if trait_suffix is not None:
                t = i.get("trait")
                if t is None or not (t == trait_suffix or t.endswith("::" + trait_suffix)):
                    continue
            if self_adt is not None and i.get("self_adt") != self_adt:
                continue
            out.append(i)
        return out

    def impl_method(self, trait_suffix, self_adt, method):
        for i in self.impls_of(trait_suffix, self_adt):
            for it in i["items"]:
                if it["name"] == method:
                    return it["def"]
        return None

    def inherent_method(self, self_adt, method):
        for i in self.impls:
            if i.get("trait") is None and i.get("self_adt") == self_adt:
                for it in i["items"]:
                    if it["name"] == method:
                        return it["def"]
        return None

    def const_value(self, path):
        for c in self.consts:
            if c["path"] == path:
                return c["val"]
        return None


# ---- building facts ---------------------------------------------------------

CONFIGS = {
    "default": [],
    "no-default-features": ["--no-default-features"],
    "arbitrary": ["--features", "arbitrary"],
    "no-debug-assertions": [],
}
CONFIG_RUSTFLAGS = {"no-debug-assertions": "-C debug-assertions=off -C overflow-checks=off"}


def build_facts(repo=None, config="default", rustflags=""):
    rustflags = rustflags or CONFIG_RUSTFLAGS.get(config, "")
    """Run the driver on `repo`'s current working tree and load the result.
    The facts file lives in a temp dir that is removed before returning."""
    repo = repo or REPO
    d = tempfile.mkdtemp(prefix="mqfacts-out.")
    out = os.path.join(d, "facts.json")
    env = dict(os.environ)
    env["MQFACTS_RUSTFLAGS"] = rustflags
    t0 = time.time()
    try:
        r = subprocess.run(
            [os.path.join(HERE, "mkfacts.sh"), repo, out] + CONFIGS[config],
            env=env, stdout=subprocess.PIPE, stderr=subprocess.PIPE, text=True)
        if r.returncode != 0 or not os.path.exists(out):
            sys.stderr.write(r.stderr[-4000:])
            raise RuntimeError("facts extraction failed for config %s" % config)
        # the facts file must have been written by this run
        if os.path.getmtime(out) < t0 - 1:
            raise RuntimeError("stale facts file")
        with open(out) as fh:
            data = json.load(fh)
    finally:
        subprocess.run(["rm", "-rf", d])
    f = Facts(data, config)
    f.build_wall_s = time.time() - t0
    return f


def load_facts(path, config="default"):
    with open(path) as fh:
        return Facts(json.load(fh), config)


# ---- THIR traversal -----------------------------------------------------------

CHILD_KEYS = ("cond", "then", "else", "e", "l", "r", "body", "scrut", "lhs", "index",
              "base", "expr", "init", "fun", "guard", "sub")
LIST_KEYS = ("args", "items", "upvars", "stmts", "arms", "fields", "pats", "prefix", "suffix", "subs")


def children(node):
    """Immediate child nodes (expressions, statements, arms, field inits, patterns excluded)."""
    if not isinstance(node, dict):
        return
    for k in CHILD_KEYS:
        v = node.get(k)
        if isinstance(v, dict) and ("k" in v):
            yield v
    for k in ("args", "items", "upvars"):
        v = node.get(k)
        if isinstance(v, list):
            for x in v:
                if isinstance(x, dict):
                    yield x
    v = node.get("stmts")
    if isinstance(v, list):
        for s in v:
            yield s
    v = node.get("arms")
    if isinstance(v, list):
        for a in v:
            yield a
    v = node.get("fields")
    if isinstance(v, list) and node.get("k") == "Adt":
        for fl in v:
            yield fl["e"]


def walk(node, pre=None):
    """Pre-order walk over every expression / statement / arm node."""
    stack = [node]
    while stack:
        n = stack.pop()
        if not isinstance(n, dict):
            continue
        yield n
        ch = list(children(n))
        # arms are dicts without "k": descend into guard/body
        if "pat" in n and "body" in n and "k" not in n:
            pass
        stack.extend(reversed(ch))


def is_expr(n):
    return isinstance(n, dict) and "k" in n and "ty" in n


def calls(node):
    for n in walk(node):
        if n.get("k") == "Call":
            yield n


def callee(n):
    """Canonical callee id of a Call node: impl-resolved def when known, else the def."""
    fn = n.get("fn") or {}
    return fn.get("res") or fn.get("def")


def strip(e):
    """Peel borrows / derefs / coercions / casts that do not change the denoted value."""
    while isinstance(e, dict) and e.get("k") in ("Borrow", "Deref", "PtrCoerce", "RawBorrow"):
        e = e["e"]
    return e


def peel_calls(e, names):
    """Peel method calls whose callee *name* is in `names` (as_ref, as_str, ...) taking the receiver."""
    while True:
        e = strip(e)
        if isinstance(e, dict) and e.get("k") == "Call" and (e["fn"].get("name") in names) and e["args"]:
            e = e["args"][0]
            continue
        return e


def path_of(e):
    """Access path of a place-like expression: ('self','properties','reason_string') or None."""
    e = strip(e)
    if not isinstance(e, dict):
        return None
    k = e.get("k")
    if k in ("Var", "Upvar"):
        return (e["var"]["name"],)
    if k == "Field":
        p = path_of(e["lhs"])
        if p is None:
            return None
        return p + (e["name"],)
    return None


def lit_value(e):
    """Integer/bool/char value of a literal or evaluated named const, else None."""
    e = strip(e)
    if not isinstance(e, dict):
        return None
    k = e.get("k")
    if k == "Lit":
        if "v" in e:
            v = e["v"]
            if isinstance(v, bool):
                return v
            return -v if e.get("neg") else v
        if "char" in e:
            return ("char", e["char"])
        if "str" in e:
            return ("str", e["str"])
        if "bytes" in e:
            return ("bytes", tuple(e["bytes"]))
    if k == "NamedConst":
        v = e.get("val")
        if isinstance(v, dict):
            if "char" in v:
                return ("char", v["char"])
            if "str" in v:
                return ("str", v["str"])
            if "bytes" in v:
                return ("bytes", tuple(v["bytes"]))
            return None
        return v
    if k == "Cast":
        return lit_value(e["e"])
    if k == "Block" and not e.get("stmts") and e.get("expr"):
        return lit_value(e["expr"])
    return None


# ---- pretty printer (diagnostics / evidence samples only) -----------------------

def pp(e, depth=0):
    if e is None:
        return "_"
    if not isinstance(e, dict):
        return str(e)
    k = e.get("k")
    if k is None:
        if "pat" in e and "body" in e:
            g = (" if " + pp(e["guard"])) if e.get("guard") else ""
            return "%s%s => %s" % (pp_pat(e["pat"]), g, pp(e["body"]))
        return "?"
    if k == "Var" or k == "Upvar":
        return e["var"]["name"]
    if k == "Lit":
        if "v" in e:
            return ("-" if e.get("neg") else "") + str(e["v"]).lower()
        if "char" in e:
            return repr(chr(e["char"]))
        if "str" in e:
            return json.dumps(e["str"])
        if "bytes" in e:
            return "b" + json.dumps(bytes(e["bytes"]).decode("latin1"))
        return "lit"
    if k == "NamedConst":
        return e["name"]
    if k == "Zst":
        fn = e.get("fn")
        return fn["def"] if fn else "zst"
    if k == "Field":
        return "%s.%s" % (pp(e["lhs"]), e["name"])
    if k == "Borrow":
        return ("&mut " if e["mut"] else "&") + pp(e["e"])
    if k == "Deref":
        return "*" + pp(e["e"])
    if k == "Call":
        fn = e["fn"]
        name = fn.get("res") or fn.get("def") or "<fnptr>"
        return "%s(%s)" % (name, ", ".join(pp(a) for a in e["args"]))
    if k == "Binary":
        return "(%s %s %s)" % (pp(e["l"]), e["op"], pp(e["r"]))
    if k == "Logical":
        return "(%s %s %s)" % (pp(e["l"]), "&&" if e["op"] == "And" else "||", pp(e["r"]))
    if k == "Unary":
        return "%s(%s)" % (e["op"], pp(e["e"]))
    if k == "Cast":
        return "(%s as %s)" % (pp(e["e"]), e["ty"])
    if k == "PtrCoerce":
        return pp(e["e"])
    if k == "If":
        s = "if %s { %s }" % (pp(e["cond"]), pp(e["then"]))
        if e.get("else"):
            s += " else { %s }" % pp(e["else"])
        return s
    if k == "Let":
        return "let %s = %s" % (pp_pat(e["pat"]), pp(e["e"]))
    if k == "Match":
        return "match[%s] %s { %s }" % (e["src"], pp(e["scrut"]), "; ".join(pp(a) for a in e["arms"]))
    if k == "Block":
        parts = []
        for s in e.get("stmts", []):
            if s["k"] == "Let":
                parts.append("let %s = %s" % (pp_pat(s["pat"]), pp(s.get("init"))))
            else:
                parts.append(pp(s["e"]))
        if e.get("expr"):
            parts.append(pp(e["expr"]))
        pre = "unsafe " if e.get("safety") == "ExplicitUnsafe" else ""
        return pre + "{ " + "; ".join(parts) + " }"
    if k == "Assign":
        return "%s = %s" % (pp(e["l"]), pp(e["r"]))
    if k == "AssignOp":
        return "%s %s= %s" % (pp(e["l"]), e["op"], pp(e["r"]))
    if k == "Return":
        return "return %s" % pp(e.get("e"))
    if k == "Break":
        return "break %s" % (pp(e["e"]) if e.get("e") else "")
    if k == "Continue":
        return "continue"
    if k == "Loop":
        return "loop %s" % pp(e["body"])
    if k == "Adt":
        fs = ", ".join("%s: %s" % (f["name"], pp(f["e"])) for f in e["fields"])
        base = (", ..%s" % pp(e["base"])) if e.get("base") else ""
        return "%s::%s{%s%s}" % (e["adt"].split("::")[-1], e["variant"], fs, base)
    if k == "Tuple":
        return "(%s)" % ", ".join(pp(x) for x in e["items"])
    if k == "Array":
        return "[%s]" % ", ".join(pp(x) for x in e["items"])
    if k == "Repeat":
        return "[%s; %s]" % (pp(e["e"]), e.get("n", e.get("count")))
    if k == "Index":
        return "%s[%s]" % (pp(e["lhs"]), pp(e["index"]))
    if k == "Closure":
        return "closure<%s>" % e["def"]
    if k == "Yield":
        return "yield %s" % pp(e["e"])
    if k == "Expr":
        return pp(e["e"])
    if k == "Try":
        return pp(e["e"]) + "?"
    if k == "Await":
        return pp(e["e"]) + ".await"
    if k == "For":
        return "for %s in %s %s" % (pp_pat(e["pat"]), pp(e["iter"]), pp(e["body"]))
    if k == "While":
        return "while %s %s" % (pp(e["cond"]), pp(e["body"]))
    return "<%s>" % k


def pp_pat(p):
    if p is None:
        return "_"
    k = p.get("k")
    if k == "Wild":
        return "_"
    if k == "Binding":
        s = p["name"]
        if p.get("sub"):
            s += " @ " + pp_pat(p["sub"])
        return s
    if k == "Const":
        v = p.get("val")
        return (p.get("named_const") or "") + "=" + json.dumps(v)
    if k == "Variant":
        subs = ", ".join(pp_pat(s["pat"]) for s in p["subs"])
        return "%s::%s(%s)" % (p["adt"].split("::")[-1], p["variant"], subs)
    if k == "Leaf":
        return "(%s)" % ", ".join(pp_pat(s["pat"]) for s in p["subs"])
    if k == "Deref":
        return "&" + pp_pat(p["sub"])
    if k == "Or":
        return " | ".join(pp_pat(x) for x in p["pats"])
    if k == "Range":
        return "%s..%s%s" % (p["lo"], "=" if p["end"] == "Included" else "", p["hi"])
    if k in ("Slice", "Array"):
        return "[%s%s%s]" % (",".join(pp_pat(x) for x in p["prefix"]),
                             (", .." if p.get("slice") else ""),
                             ",".join(pp_pat(x) for x in p["suffix"]))
    return k or "?"


def loc(node):
    """file:line:col (call site) of a node, for diagnostics only."""
    if isinstance(node, dict):
        s = node.get("sp")
        if s:
            if node.get("exp") and node.get("isp"):
                return "%s (in %s at %s)" % (s, "/".join(node["exp"]), node["isp"])
            return s
    return "?"
