"""The documented malformation -> error-variant catalogue (oracle for C20), written from the doc comments of
common/error.rs and v5/error.rs and the text of property C20. For each variant: the role of each payload
value ("tested" = the offending value that the guarding condition tested; "context" = packet type /
property id of the place; "kind" = I/O kinds), the kind of place where it may be raised, and the minimum
number of raise sites confirmed by reading on today's tree."""

CONTEXT_PAYLOADS = {"header.typ", "packet_type", "property_id"}
ALWAYS_OK = set()

VARIANTS = {
    # common::Error
    "InvalidRemainingLength": {"payload": [], "where": ["v3::*", "v5::*", "*::poll"], "min_sites": 1},
    "EmptySubscription": {"payload": [], "where": ["v3::subscribe::*", "v5::subscribe::*"], "min_sites": 1},
    "ZeroPid": {"payload": [], "where": ["common::types::*", "<common::types::Pid*"], "min_sites": 1},
    "InvalidQos": {"payload": ["tested"], "where": ["common::types::*", "v3::subscribe::*"], "min_sites": 1},
    "InvalidConnectFlags": {"payload": ["tested"], "where": ["v3::connect::*", "v5::connect::*"], "min_sites": 1},
    "InvalidConnackFlags": {"payload": ["tested"], "where": ["v3::connect::*", "v5::connect::*"], "min_sites": 1},
    "InvalidConnectReturnCode": {"payload": ["tested"], "where": ["v3::connect::*"], "min_sites": 1},
    "InvalidProtocol": {"payload": ["tested", "tested"], "where": ["common::types::*"], "min_sites": 1},
    "UnexpectedProtocol": {"payload": ["tested"], "where": ["v3::connect::*", "v5::connect::*"], "min_sites": 1},
    "InvalidHeader": {"payload": [], "where": ["v3::packet::*", "v5::packet::*"], "min_sites": 1},
    "InvalidVarByteInt": {"payload": [], "where": ["common::utils::*", "v5::types::*", "<v5::types::*", "*::poll", "common::poll::*"], "min_sites": 1},
    "InvalidTopicName": {"payload": ["tested"], "where": ["common::types::*", "<common::types::*"], "min_sites": 1},
    "InvalidTopicFilter": {"payload": ["tested"], "where": ["common::types::*", "<common::types::*"], "min_sites": 1},
    "InvalidString": {"payload": [], "where": ["common::utils::*", "common::types::*"], "min_sites": 1},
    "IoError": {"payload": ["kind", "kind"], "where": ["*"], "min_sites": 1},
    # v5::ErrorV5
    "InvalidReasonCode": {"payload": ["context", "tested"], "where": ["v5::*"], "min_sites": 1},
    "InvalidSubscriptionOption": {"payload": ["tested"], "where": ["v5::subscribe::*"], "min_sites": 1},
    "InvalidPayloadFormat": {"payload": [], "where": ["v5::publish::*", "v5::connect::*"], "min_sites": 1},
    "InvalidResponseTopic": {"payload": [], "where": ["v5::*"], "min_sites": 1},
    "InvalidPropertyId": {"payload": ["tested"], "where": ["v5::types::*"], "min_sites": 1},
    "InvalidPropertyLength": {"payload": ["tested"], "where": ["v5::*"], "min_sites": 1},
    "InvalidByteProperty": {"payload": ["context", "tested"], "where": ["v5::*"], "min_sites": 1},
    "DuplicatedProperty": {"payload": ["context"], "where": ["v5::*"], "min_sites": 1},
    "InvalidProperty": {"payload": ["context", "context"], "where": ["v5::*"], "min_sites": 1},
    "InvalidWillProperty": {"payload": ["context"], "where": ["v5::connect::*"], "min_sites": 1},
}

# error raised by each from_u8 table on an unknown byte (None: the table returns Option and the caller raises)
FROM_U8_ERRORS = {
    "QoS": "InvalidQos",
    "ConnectReturnCode": "InvalidConnectReturnCode",
    "SubscribeReturnCode": "InvalidQos",        # pinned quirk Q2
    "PropertyId": "InvalidPropertyId",
}

# (function [suffix* allowed], first event, second event): the first must be evaluated before the second
ORDER_PAIRS = [
    # the version gate and the reserved flag bit come before anything else is read
    ("v3::connect::Connect::decode_with_protocol", "raise:UnexpectedProtocol", "read:any"),
    ("v5::connect::Connect::decode_with_protocol", "raise:UnexpectedProtocol", "read:any"),
    ("v3::connect::Connect::decode_with_protocol", "raise:InvalidConnectFlags", "call:common::utils::read_u16"),
    ("v5::connect::Connect::decode_with_protocol", "raise:InvalidConnectFlags", "call:common::utils::read_u16"),
    # (duplicate detection before any read is decided by H-dup, which evaluates each decoder with the target already set)
    ("v5::types::PropertyValue::decode_bool", "raise:DuplicatedProperty", "raise:InvalidByteProperty"),
    # UTF-8 validation (inside read_string) before topic validation
    ("v5::types::PropertyValue::decode_topic_name", "call:common::utils::read_string", "call:<common::types::TopicName as core::convert::TryFrom<alloc::string::String>>::try_from"),
    # reason byte is classified before the properties are decoded
    ("v5::publish::Puback::decode_async", "raise:InvalidReasonCode", "call:v5::publish::PubackProperties::decode_async"),
    ("v5::publish::Pubrec::decode_async", "raise:InvalidReasonCode", "call:v5::publish::PubrecProperties::decode_async"),
    ("v5::publish::Pubrel::decode_async", "raise:InvalidReasonCode", "call:v5::publish::PubrelProperties::decode_async"),
    ("v5::publish::Pubcomp::decode_async", "raise:InvalidReasonCode", "call:v5::publish::PubcompProperties::decode_async"),
    ("v5::connect::Disconnect::decode_async", "raise:InvalidReasonCode", "call:v5::connect::DisconnectProperties::decode_async"),
    ("v5::connect::Auth::decode_async", "raise:InvalidReasonCode", "call:v5::connect::AuthProperties::decode_async"),
    ("v5::connect::Connack::decode_async", "raise:InvalidConnackFlags", "raise:InvalidReasonCode"),
    ("v5::connect::Connack::decode_async", "raise:InvalidReasonCode", "call:v5::connect::ConnackProperties::decode_async"),
    ("v3::connect::Connack::decode_async", "raise:InvalidConnackFlags", "call:v3::connect::ConnectReturnCode::from_u8"),
    # packet identifier is validated as soon as it is read
    ("v5::publish::Puback::decode_async", "call:<common::types::Pid as core::convert::TryFrom<u16>>::try_from", "call:common::utils::read_u8"),
    ("v5::subscribe::Subscribe::decode_async", "call:<common::types::Pid as core::convert::TryFrom<u16>>::try_from", "call:v5::subscribe::SubscribeProperties::decode_async"),
    ("v3::subscribe::Subscribe::decode_async", "call:<common::types::Pid as core::convert::TryFrom<u16>>::try_from", "raise:EmptySubscription"),
    # per topic: filter validity, then options / QoS, then remaining-length accounting
    ("v5::subscribe::Subscribe::decode_async", "call:<common::types::TopicFilter as core::convert::TryFrom<alloc::string::String>>::try_from", "raise:InvalidSubscriptionOption"),
    ("v5::subscribe::Subscribe::decode_async", "raise:EmptySubscription", "call:<common::types::TopicFilter as core::convert::TryFrom<alloc::string::String>>::try_from"),
    ("v3::subscribe::Subscribe::decode_async", "call:<common::types::TopicFilter as core::convert::TryFrom<alloc::string::String>>::try_from", "call:common::types::QoS::from_u8"),
    ("v3::subscribe::Subscribe::decode_async", "raise:EmptySubscription", "call:<common::types::TopicFilter as core::convert::TryFrom<alloc::string::String>>::try_from"),
    ("v3::subscribe::Unsubscribe::decode_async", "raise:EmptySubscription", "call:<common::types::TopicFilter as core::convert::TryFrom<alloc::string::String>>::try_from"),
    ("v5::subscribe::Unsubscribe::decode_async", "raise:InvalidPropertyLength", "raise:EmptySubscription"),
    # unknown property id before "not allowed here"
    ("v5::publish::PublishProperties::decode_async", "call:v5::types::PropertyId::from_u8", "raise:InvalidProperty"),
    ("v5::connect::WillProperties::decode_async", "call:v5::types::PropertyId::from_u8", "raise:InvalidWillProperty"),
    # protocol: name/level classification uses the bytes read, in that order
    ("common::types::Protocol::decode_async", "call:common::utils::read_bytes", "call:common::utils::read_u8"),
    ("common::types::Protocol::decode_async", "call:common::utils::read_u8", "call:common::types::Protocol::new"),
]
