"""Rules on the poll-based (strict) decoder `GenericPollPacket::poll` and its two `PollHeader` impls."""
import spec_mqtt as S
from facts import strip, lit_value, pp, loc, path_of
from norm import nbody, walk_all, unblock
from report import AnchorLost
from tables import const_eval
from r_tables import poll_fn_id

STATE_ADTS = ("common::poll::GenericPollPacketState", "common::poll::PollHeaderState", "common::poll::GenericPollBodyState")


def _poll(F):
    fid = poll_fn_id(F)
    b = nbody(F, fid)
    if b is None:
        raise AnchorLost("body of poll")
    return fid, b


def _ready_nodes(b):
    """Every construction of Poll::Ready / Poll::Pending in poll."""
    out = []
    for n in walk_all(b):
        if n.get("k") == "Adt" and n.get("adt") == "core::task::poll::Poll":
            out.append(n)
    return out


def _parents(b):
    """child id -> parent node map (normalised tree)."""
    par = {}
    stack = [b]
    while stack:
        n = stack.pop()
        if not isinstance(n, dict):
            continue
        for key, v in n.items():
            if key in ("fn", "var", "pat", "poll_fn", "iter_fn", "next_fn", "eq_fn", "residual_fn"):
                continue
            if isinstance(v, dict):
                par[id(v)] = n
                stack.append(v)
            elif isinstance(v, list):
                for x in v:
                    if isinstance(x, dict):
                        par[id(x)] = n
                        stack.append(x)
    return par


def _ancestors(par, n):
    while id(n) in par:
        n = par[id(n)]
        yield n


# ---- H-borrow ---------------------------------------------------------------------------------------

def h_borrow(F, R):
    """The future holds only two `&mut` borrows (caller-owned state, reader), has no Drop impl, and its
    constructor only stores its two arguments: dropping / re-creating the future loses nothing."""
    a = F.adts.get("common::poll::GenericPollPacket")
    if a is None:
        raise AnchorLost("struct GenericPollPacket")
    fields = a["variants"][0]["fields"]
    R.check(len(fields) == 2 and all(f["ty"].startswith("&'a mut ") for f in fields), "H-borrow", "fields",
            "GenericPollPacket fields are %s (expected exactly two &mut borrows)" % [(f["name"], f["ty"]) for f in fields], where=a["sp"])
    tys = sorted(f["ty"] for f in fields)
    R.check(any("GenericPollPacketState" in t for t in tys), "H-borrow", "state-is-borrowed",
            "GenericPollPacket does not borrow the caller-owned GenericPollPacketState", where=a["sp"])
    drops = [i for i in F.impls if (i.get("trait") or "").endswith("ops::drop::Drop") and i.get("self_adt") in
             ("common::poll::GenericPollPacket",) + STATE_ADTS]
    R.check(not drops, "H-borrow", "no-drop", "a Drop impl exists for the poll future or its state", where=drops[0]["sp"] if drops else "?")
    # every function other than poll that can touch the state through the future: constructors
    n = 0
    for fid, f in F.fns.items():
        if f.get("impl_adt") == "common::poll::GenericPollPacket" and f["kind"] == "AssocFn" and f.get("name") != "poll":
            n += 1
            b = nbody(F, fid)
            bb = unblock(b)
            ok = bb.get("k") == "Adt" and bb.get("adt") == "common::poll::GenericPollPacket" and \
                sorted(pp(strip(x["e"])) for x in bb["fields"]) == ["reader", "state"]
            writes = [x for x in walk_all(b) if x.get("k") in ("Assign", "AssignOp")]
            R.check(ok and not writes, "H-borrow", "ctor/%s" % f.get("name"),
                    "GenericPollPacket::%s does more than store its two borrows (%s): caller-held progress may be altered when the future is re-created" % (
                        f.get("name"), pp(b)[:120]), where=f["sp"])
    R.floor("H-borrow", "constructors", n, 1)
    # Default of the state is the empty header state
    R.sample({"rule": "H-borrow", "fields": [(f["name"], f["ty"]) for f in fields]})


# ---- S-persist ---------------------------------------------------------------------------------------

def s_persist(F, R):
    """All decoding progress lives behind the `state` borrow: inside `poll`, no local variable declared
    outside a loop is assigned inside it (such a value would be lost when poll returns Pending and is
    re-entered), and every place updated with data from the reader is a projection of `state`."""
    fid, b = _poll(F)
    par = _parents(b)
    # locals bound from destructuring `state` (pattern bindings under the match on state) are state places
    state_bound = set()
    STATE_TYPES = ("GenericPollPacketState", "PollHeaderState", "GenericPollBodyState")

    def is_state_ty(e):
        return any(t in ((e or {}).get("ty") or "") for t in STATE_TYPES)
    for n in walk_all(b):
        # bindings obtained by destructuring a value of one of the caller-owned state types (whatever the local is called)
        if n.get("k") == "Match" and (is_state_ty(n["scrut"]) or is_state_ty(strip(n["scrut"]))):
            for arm in n["arms"]:
                _collect_bindings(arm["pat"], state_bound)
        if n.get("k") == "Block":
            for st in n.get("stmts", []):
                if st.get("k") == "Let" and st.get("init") is not None and (is_state_ty(st["init"]) or is_state_ty(strip(st["init"]))):
                    _collect_bindings(st["pat"], state_bound)
        if n.get("k") == "If" and unblock(n["cond"]).get("k") == "Let" and is_state_ty(unblock(n["cond"])["e"]):
            _collect_bindings(unblock(n["cond"])["pat"], state_bound)
    R.check(len(state_bound) >= 1, "S-persist", "state-bindings",
            "poll never destructures the caller-owned state (%d bindings found)" % len(state_bound), where=fid)
    # declaration site of each local
    decl_loop_depth = {}
    n_assign = 0
    for n in walk_all(b):
        if n.get("k") in ("Assign", "AssignOp"):
            l = n["l"]
            base = strip(l)
            while base.get("k") in ("Field", "Index"):
                base = strip(base["lhs"])
            if base.get("k") != "Var":
                continue
            vid = base["var"]["id"]
            name = base["var"]["name"]
            n_assign += 1
            if vid in state_bound or name == "state":
                R.ok("S-persist", "write/%s" % pp(l), "state place")
                continue
            # a plain local: where is it declared relative to the enclosing loops of the assignment?
            loops = [a for a in _ancestors(par, n) if a.get("k") in ("Loop", "While", "For")]
            declared_inside = False
            for lp in loops[:1]:
                for m in walk_all(lp):
                    if m.get("k") == "Let" and _binds(m["pat"], vid):
                        declared_inside = True
            if loops and not declared_inside:
                R.fail("S-persist", "local-progress/%s" % name,
                       "poll keeps progress in local `%s` (assigned inside a loop, declared outside it): it is lost when "
                       "poll returns Pending or the future is dropped and re-created from the caller-held state" % name, where=loc(n))
            else:
                R.ok("S-persist", "write/%s" % pp(l), "loop-local")
    R.floor("S-persist", "assignments in poll", n_assign, 1)      # helpers taking `&mut state` may hold most of them
    # values taken from the reader (`byte`, `size`) flow only into state places or are used in the same iteration
    for n in walk_all(b):
        if n.get("k") == "Block":
            for s in n.get("stmts", []):
                if s["k"] == "Let" and s["pat"].get("k") == "Binding" and s["pat"].get("mode", "").endswith("Mut)"):
                    nm = s["pat"]["name"]
                    ty = s["pat"]["ty"]
                    if nm in ("buf", "readbuf", "readbuf_refmut", "buf_ref"):
                        continue
                    # any other `let mut` in poll is reported: scratch buffers are the only mutable locals
                    R.fail("S-persist", "mutable-local/%s" % nm,
                           "poll declares mutable local `%s: %s`; decoding progress must live in the caller-held state" % (nm, ty), where=loc(s))


def _collect_bindings(p, out):
    k = p.get("k")
    if k == "Binding":
        out.add(p["var"]["id"])
        if p.get("sub"):
            _collect_bindings(p["sub"], out)
    elif k in ("Deref", "DerefPattern"):
        _collect_bindings(p["sub"], out)
    elif k in ("Leaf", "Variant"):
        for s in p["subs"]:
            _collect_bindings(s["pat"], out)
    elif k == "Or":
        for q in p["pats"]:
            _collect_bindings(q, out)


def _binds(p, vid):
    s = set()
    _collect_bindings(p, s)
    return vid in s


# ---- H-pending ---------------------------------------------------------------------------------------

def h_pending(F, R):
    """Poll::Pending is produced only as the arm for a Poll::Pending result of the transport's poll_read."""
    fid, b = _poll(F)
    par = _parents(b)
    n = 0
    for node in _ready_nodes(b):
        if node["variant"] != "Pending":
            continue
        n += 1
        ok = False
        for a in _ancestors(par, node):
            if "pat" in a and "body" in a and "k" not in a:
                p = a["pat"]
                m = par.get(id(a))
                if p.get("k") == "Variant" and p.get("variant") == "Pending" and m is not None and m.get("k") == "Match":
                    sc = strip(m["scrut"])
                    ok = sc.get("k") == "Call" and sc["fn"].get("name") == "poll_read"
                break
        R.check(ok, "H-pending", "pending-%d" % n, "poll returns Pending other than in response to the transport's Pending", where=loc(node))
    R.floor("H-pending", "Pending returns", n, 2)
    wakes = [x for x in walk_all(b) if x.get("k") == "Call" and x["fn"].get("name") in ("wake", "wake_by_ref", "waker")]
    R.check(not wakes, "H-pending", "no-waker", "poll touches the waker", where=loc(wakes[0]) if wakes else fid)
    # zero-length read is EOF, never Pending / spinning
    n_eof = 0
    for x in walk_all(b):
        if x.get("k") == "If":
            c = unblock(x["cond"])
            if c.get("k") == "Binary" and c["op"] == "Eq" and const_eval(c["r"]) == 0 and pp(strip(c["l"])) == "size":
                errs = [y for y in walk_all(x["then"]) if y.get("k") == "Adt" and y.get("adt") == "common::error::Error"]
                kinds = [y for y in walk_all(x["then"]) if y.get("k") == "Adt" and (y.get("adt") or "").endswith("io::error::ErrorKind")]
                rets = [y for y in walk_all(x["then"]) if y.get("k") == "Return"]
                ok = len(errs) == 1 and errs[0]["variant"] == "IoError" and len(kinds) == 1 and kinds[0]["variant"] == "UnexpectedEof" and rets
                n_eof += 1
                R.check(ok, "H-pending", "zero-read-is-eof/%d" % n_eof,
                        "a zero-length read does not return IoError(UnexpectedEof, ..)", where=loc(x))
    R.floor("H-pending", "zero-length-read sites", n_eof, 2)


# ---- H-cap -------------------------------------------------------------------------------------------

def h_cap(F, R):
    """The decoder never asks the transport for bytes beyond the current frame: header reads use a 1-byte
    scratch array; body reads go into buf[idx..] of a Vec whose capacity and length are the header's
    remaining length."""
    fid, b = _poll(F)
    reads = [x for x in walk_all(b) if x.get("k") == "Call" and x["fn"].get("name") == "poll_read"]
    R.floor("H-cap", "poll_read sites", len(reads), 2)
    par = _parents(b)
    seen = {"header": 0, "body": 0}
    for rd in reads:
        rb = strip(rd["args"][2])
        if rb.get("k") != "Var":
            R.fail("H-cap", "readbuf-not-local", "poll_read target is %s" % pp(rb), where=loc(rd))
            continue
        # find the Let of that ReadBuf
        init = None
        for a in _ancestors(par, rd):
            if a.get("k") == "Block":
                for s in a.get("stmts", []):
                    if s["k"] == "Let" and _binds(s["pat"], rb["var"]["id"]):
                        init = s["init"]
                if init is not None:
                    break
        if init is None or init.get("k") != "Call" or init["fn"].get("name") not in ("new", "uninit") or "ReadBuf" not in init["fn"].get("def", ""):
            R.fail("H-cap", "readbuf-init", "cannot find the ReadBuf construction for %s" % pp(rb), where=loc(rd))
            continue
        src = strip(init["args"][0])
        while src.get("k") == "Block" and src.get("expr"):
            src = strip(src["expr"])
        if src.get("k") == "Var" and (src.get("ty") or "").replace("&mut ", "") == "[u8; 1]":
            seen["header"] += 1
            R.ok("H-cap", "header-read", "ReadBuf over [u8; 1]")
        elif src.get("k") == "Call" and src["fn"].get("name") in ("index_mut",):
            rng = strip(src["args"][1])
            ok = rng.get("k") == "Adt" and rng.get("adt", "").endswith("RangeFrom") and pp(strip(rng["fields"][0]["e"])).lstrip("*") == "idx"
            base = pp(strip(src["args"][0])).lstrip("*")
            R.check(ok and base == "buf", "H-cap", "body-read-range",
                    "body bytes are read into %s[%s]; expected buf[idx..] so that bytes already received are kept and no more than the frame is requested" % (
                        base, pp(rng)), where=loc(init))
            seen["body"] += 1
            R.check(init["fn"].get("name") == "uninit" or "MaybeUninit" not in (src.get("ty") or ""), "H-cap", "body-read-init",
                    "uninitialised body buffer is handed to the reader as initialised memory", where=loc(init))
        else:
            R.fail("H-cap", "readbuf-source", "ReadBuf is built over %s" % pp(src)[:100], where=loc(init))
    R.check(seen["header"] == 1 and seen["body"] == 1, "H-cap", "one-header-one-body-read",
            "poll has %d header and %d body read sites" % (seen["header"], seen["body"]), where=fid)
    # buffer size: with_capacity(header.remaining_len()) and set_len(header.remaining_len())
    sized = {"with_capacity": None, "set_len": None}
    for x in walk_all(b):
        if x.get("k") == "Call" and x["fn"].get("name") in sized and "Vec" in x["fn"].get("def", ""):
            sized[x["fn"]["name"]] = pp(strip(x["args"][-1]))
    want = "common::poll::PollHeader::remaining_len(&header)"
    R.check(sized["with_capacity"] == want and sized["set_len"] == want, "H-cap", "buffer-size",
            "body buffer capacity/length are %s (expected the header's remaining length for both)" % sized, where=fid)
    # the state keeps that very buffer: Body{.. idx: 0, buf}
    for x in walk_all(b):
        if x.get("k") == "Adt" and x.get("adt") == "common::poll::GenericPollBodyState":
            fl = {f["name"]: f["e"] for f in x["fields"]}
            R.check(const_eval(fl["idx"]) == 0 and pp(strip(fl["buf"])) == "buf", "H-cap", "body-state-init",
                    "body state starts with idx=%s buf=%s" % (pp(fl["idx"]), pp(fl["buf"])), where=loc(x))


# ---- H-total -----------------------------------------------------------------------------------------

def h_total(F, R):
    """On success the decoder reports the bytes it consumed: 1 control byte + (1 + var_idx) length bytes
    + remaining length; the empty-packet return reports 1 + 1 + var_idx."""
    fid, b = _poll(F)
    want_hdr = "((1 Add 1) Add (*var_idx as usize))"
    want_body = "(%s Add common::poll::PollHeader::remaining_len(&header))" % want_hdr
    ok_body = False
    for x in walk_all(b):
        if x.get("k") == "Adt" and x.get("adt") == "common::poll::GenericPollBodyState":
            fl = {f["name"]: f["e"] for f in x["fields"]}
            got = _norm_total(fl["total"])
            ok_body = got == {"const": 2, "var_idx": 1, "remaining_len": 1}
            R.check(ok_body, "H-total", "body-total",
                    "the total stored for a packet with a body is %s (expected 1 + 1 + var_idx + remaining length)" % pp(fl["total"]), where=loc(x))
    # Ok returns
    par = _parents(b)
    n_ok = 0
    for node in _ready_nodes(b):
        if node["variant"] != "Ready":
            continue
        inner = unblock(node["fields"][0]["e"])
        if inner.get("k") == "Adt" and inner.get("variant") == "Ok":
            n_ok += 1
            tup = unblock(inner["fields"][0]["e"])
            if tup.get("k") != "Tuple":
                R.fail("H-total", "ok-shape", "Ready(Ok(..)) payload is not a tuple", where=loc(node))
                continue
            tot = tup["items"][0]
            got = _norm_total(_resolve_local(b, tot))
            R.check(got == {"const": 2, "var_idx": 1}, "H-total", "empty-total",
                    "an empty packet reports %s bytes (expected 1 + 1 + var_idx: the control byte and every length byte read)" % pp(tot), where=loc(node))
        elif inner.get("k") == "Call" and inner["fn"].get("name") == "map":
            n_ok += 1
            clo = inner["args"][1]
            cb = nbody(F, clo["def"]) if clo.get("k") == "Closure" else None
            good = False
            if cb is not None:
                t = unblock(cb)
                if t.get("k") == "Tuple" and len(t["items"]) == 3:
                    good = pp(strip(t["items"][0])).lstrip("*") == "total" and "take" in pp(t["items"][1]) and "buf" in pp(t["items"][1])
            R.check(good, "H-total", "body-return", "the body path does not return (state.total, state.buf, packet)", where=loc(node))
    R.floor("H-total", "success returns", n_ok, 2)


def _resolve_local(b, e):
    e2 = strip(e)
    if e2.get("k") == "Var":
        for n in walk_all(b):
            if n.get("k") == "Block":
                for s in n.get("stmts", []):
                    if s["k"] == "Let" and _binds(s["pat"], e2["var"]["id"]) and s.get("init"):
                        return s["init"]
    return e


def _norm_total(e):
    """Linear form of a `1 + 1 + *var_idx as usize + header.remaining_len()` expression."""
    out = {}

    def add(x, sign=1):
        x = strip(x)
        if x.get("k") == "Binary" and x["op"] == "Add":
            add(x["l"], sign)
            add(x["r"], sign)
            return
        if x.get("k") == "Cast":
            add(x["e"], sign)
            return
        v = const_eval(x)
        if v is not None:
            out["const"] = out.get("const", 0) + sign * v
            return
        s = pp(x).lstrip("*")
        if s == "var_idx":
            out["var_idx"] = out.get("var_idx", 0) + sign
        elif x.get("k") == "Call" and x["fn"].get("name") == "remaining_len" and pp(strip(x["args"][0])) == "header":
            out["remaining_len"] = out.get("remaining_len", 0) + sign
        else:
            out["other:" + s[:60]] = 1
    add(e)
    return out


# ---- H-exactfill / H-strict --------------------------------------------------------------------------

def h_exactfill(F, R):
    """Every success return of the strict decoder is dominated by an exact-fill test tied to the header's
    remaining length, and the only errors it substitutes are InvalidRemainingLength (left-over bytes, inner
    EOF, empty packet with a body)."""
    fid, b = _poll(F)
    text = pp(b)
    par = _parents(b)
    # (a) empty-packet path
    found_empty = False
    for x in walk_all(b):
        if x.get("k") == "If" and unblock(x["cond"]).get("k") == "Let":
            c = unblock(x["cond"])
            if c["e"].get("k") == "Call" and c["e"]["fn"].get("name") == "build_empty_packet":
                found_empty = True
                thn = x["then"]
                guard = False
                for y in walk_all(thn):
                    if y.get("k") == "If":
                        cc = unblock(y["cond"])
                        if cc.get("k") == "Binary" and cc["op"] in ("Ne", "Gt") and const_eval(cc["r"]) == 0 and \
                                strip(cc["l"]).get("k") == "Call" and strip(cc["l"])["fn"].get("name") == "remaining_len":
                            errs = [z for z in walk_all(y["then"]) if z.get("k") == "Adt" and z.get("adt") == "common::error::Error"]
                            if len(errs) == 1 and errs[0]["variant"] == "InvalidRemainingLength" and any(z.get("k") == "Return" for z in walk_all(y["then"])):
                                guard = True
                        break
                R.check(guard, "H-exactfill", "empty-packet",
                        "a packet without body is accepted whatever its remaining length says (no `remaining_len != 0 -> InvalidRemainingLength` before the return)", where=loc(x))
    R.check(found_empty, "H-exactfill", "empty-packet/anchor", "poll does not consult build_empty_packet", where=fid)
    # (b) zero remaining length for a packet that needs a body
    z = [x for x in walk_all(b) if x.get("k") == "If" and unblock(x["cond"]).get("k") == "Binary" and unblock(x["cond"])["op"] == "Eq"
         and const_eval(unblock(x["cond"])["r"]) == 0 and "remaining_len" in pp(unblock(x["cond"])["l"])]
    okz = any(any(e.get("k") == "Adt" and e.get("variant") == "InvalidRemainingLength" for e in walk_all(x["then"])) for x in z)
    R.check(okz, "H-exactfill", "zero-length-body", "a body packet with remaining length 0 is not rejected with InvalidRemainingLength", where=fid)
    # (c) body path: decode only when idx == buf.len(); leftover -> error; inner EOF -> error
    dec = [x for x in walk_all(b) if x.get("k") == "Call" and x["fn"].get("name") == "block_decode"]
    R.check(len(dec) == 1, "H-exactfill", "one-block-decode", "poll calls block_decode %d times" % len(dec), where=fid)
    if dec:
        full = False
        for a in _ancestors(par, dec[0]):
            if a.get("k") == "If":
                c = unblock(a["cond"])
                if c.get("k") == "Binary" and c["op"] == "Eq" and {pp(strip(c["l"])).lstrip("*"), pp(strip(c["r"])).lstrip("*")} == {"idx", "alloc::vec::Vec::<T, A>::len(&*buf)"}:
                    full = True
        R.check(full, "H-exactfill", "decode-only-when-full",
                "block_decode runs before the body buffer is completely filled (no dominating `idx == buf.len()`)", where=loc(dec[0]))
        arg = strip(dec[0]["args"][1])
        R.check(pp(arg) == "buf_ref", "H-exactfill", "decode-input", "block_decode reads from %s" % pp(arg), where=loc(dec[0]))
    leftover = False
    eof = False
    for x in walk_all(b):
        if x.get("k") == "If":
            c = unblock(x["cond"])
            s = pp(c)
            errs = [e["variant"] for e in walk_all(x["then"]) if e.get("k") == "Adt" and e.get("adt") == "common::error::Error"]
            if "is_ok" in s and "is_empty" in s and c.get("k") == "Logical" and c["op"] == "And" and errs == ["InvalidRemainingLength"]:
                r = unblock(c["r"])
                if r.get("k") == "Unary" and r["op"] == "Not" and "buf_ref" in pp(r):
                    leftover = True
            if c.get("k") == "Call" and c["fn"].get("name") == "is_eof_error" and errs == ["InvalidRemainingLength"]:
                eof = True
    R.check(leftover, "H-exactfill", "leftover-bytes",
            "a body that decodes without consuming the whole frame is not rejected with InvalidRemainingLength", where=fid)
    R.check(eof, "H-exactfill", "inner-eof",
            "running past the end of the frame inside the body is not reported as InvalidRemainingLength", where=fid)
    # (d) H-strict: the only crate errors constructed in poll
    errs = sorted({e["variant"] for e in walk_all(b) if e.get("k") == "Adt" and e.get("adt") == "common::error::Error"})
    R.check(errs == ["InvalidRemainingLength", "InvalidVarByteInt", "IoError"], "H-strict", "poll-errors",
            "poll itself raises %s (expected only IoError(eof), InvalidVarByteInt and the InvalidRemainingLength substitutions)" % errs, where=fid)
    # other errors pass through unchanged: header error `Err(err) => return Ready(Err(err))`, transport `Err(err.into())`
    R.sample({"rule": "H-exactfill", "errors_raised_by_poll": errs})


# ---- G-dispatch ----------------------------------------------------------------------------------------

def g_dispatch(F, R):
    """The unreachable!() arms of block_decode are reachable only for packet types for which
    build_empty_packet returns Some *unconditionally* (poll calls block_decode only after it returned None)."""
    n = 0
    for fam in ("v3", "v5"):
        hdr = "%s::packet::Header" % fam
        be = F.impl_method("PollHeader", hdr, "build_empty_packet")
        bd = F.impl_method("PollHeader", hdr, "block_decode")
        if be is None or bd is None:
            raise AnchorLost("impl PollHeader for %s" % hdr)
        uncond, cond = empty_packet_table(F, be)
        b = nbody(F, bd)
        m = next((x for x in walk_all(b) if x.get("k") == "Match" and x.get("src") == "Normal" and "typ" in pp(x["scrut"])), None)
        if m is None:
            raise AnchorLost("%s: match self.typ" % bd)
        for arm in m["arms"]:
            body = unblock(arm["body"])
            panics = any(x.get("k") == "Call" and (x["fn"].get("def") or "").startswith("core::panicking") for x in walk_all(arm["body"]))
            if not panics:
                continue
            vs = _pat_variants(arm["pat"])
            for v in vs:
                n += 1
                R.check(v in uncond, "G-dispatch", "%s/%s" % (fam, v),
                        "%s block_decode panics (unreachable!) for %s, but build_empty_packet returns None for it %s: a frame of that type with its body present reaches the panic" % (
                            fam, v, "when its guard fails" if v in cond else "always"), where=loc(arm))
        R.sample({"rule": "G-dispatch", "family": fam, "unconditional_empty": sorted(uncond), "conditional_empty": sorted(cond)})
    R.floor("G-dispatch", "unreachable arms", n, 5)


def _pat_variants(p):
    out = []
    while p.get("k") == "Deref":
        p = p["sub"]
    if p.get("k") == "Or":
        for q in p["pats"]:
            out += _pat_variants(q)
    elif p.get("k") == "Variant":
        out.append(p["variant"])
    elif p.get("k") in ("Wild", "Binding"):
        out.append("*")
    return out


def empty_packet_table(F, fid):
    """(variants returned unconditionally, variants returned under a guard) by build_empty_packet."""
    b = nbody(F, fid)
    m = next((x for x in walk_all(b) if x.get("k") == "Match" and x.get("src") == "Normal" and "typ" in pp(x["scrut"])), None)
    if m is None:
        raise AnchorLost("%s: match self.typ" % fid)
    uncond, cond = set(), set()
    for arm in m["arms"]:
        body = unblock(arm["body"])
        nones = any(x.get("k") == "Adt" and x.get("adt") == "core::option::Option" and x["variant"] == "None" for x in walk_all(arm["body"]))
        if nones:
            continue
        for v in _pat_variants(arm["pat"]):
            if v == "*":
                raise AnchorLost("%s: catch-all arm returns a packet" % fid)
            (cond if arm.get("guard") else uncond).add(v)
    return uncond, cond - uncond


def h_stateclone(F, R):
    """The caller-held poll state is plain data: a copy of it (Clone) is the same state, so resuming from a snapshot is resuming
    from the original. Each state type's Clone is derived, or, evaluated on an abstract value, returns a value whose every
    field is the original's."""
    from peval import PE, Sym, Adt, Undecided
    n = 0
    for path, a in sorted(F.adts.items()):
        if not path.startswith("common::poll::") or "State" not in path:
            continue
        imps = [i for i in F.impls if (i.get("trait") or "").endswith("clone::Clone") and i.get("self_adt") == path]
        if not imps:
            continue
        n += 1
        if imps[0].get("derived"):
            R.ok("H-borrow", "clone/%s" % path.rsplit("::", 1)[1], "derived")
            continue
        fid = next((it["def"] for it in imps[0]["items"] if it["name"] == "clone"), None)
        good = False
        why = "hand-written"
        if fid in F.fns and a["kind"] == "struct":
            fields = {f["name"]: Sym(("field", f["name"])) for f in a["variants"][0]["fields"]}
            val = Adt(path, path.rsplit("::", 1)[1], dict(fields))
            try:
                r = PE(F).call_fn(fid, [val])
                good = isinstance(r, Adt) and r.adt == path and all(r.fields.get(k) == v for k, v in fields.items())
                why = "evaluates to %r" % (r,)
            except Undecided as e:
                why = "cannot be evaluated: %s" % e
        R.check(good, "H-borrow", "clone/%s" % path.rsplit("::", 1)[1],
                "Clone for %s is hand-written and %s: a snapshot of the caller-held state is not the state" % (path, why[:160]), where=fid or path)
    R.floor("H-borrow", "poll state types with Clone", n, 1)
