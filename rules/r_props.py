"""Rules over the v5 property tables: the decoder loop of every `*Properties` type (and the
hand-written duplicate in v5 Unsubscribe), its encoder and its encode_len, and the OASIS table.

  T-props    set of property ids accepted per packet == specification's "may appear in" set;
             default arm rejects with InvalidProperty(packet type, id) / InvalidWillProperty(id)
  T-prop3    decode / encode / encode_len handle the same ids, wired to the same struct field, with the
             same wire kind; the handled set == the Option fields of the struct (+ user properties)
  T-propid   id byte first, then the value with the primitive matching the specification's wire type
  L-propdec  per loop iteration: bytes read == increase of the running length == the term encode_len
             adds for that field (three-way); the block consumes varint(P) + P bytes
  H-proplen  the post-loop test `declared != accounted -> Err(InvalidPropertyLength(declared))`
  H-dup      every store of a non-repeatable property is preceded, on every path, by the
             is_some() -> DuplicatedProperty rejection
  H-bytevals byte properties restricted to 0/1 reject larger values with InvalidByteProperty(id, value)
"""
import re

import spec_mqtt as S
from facts import strip, lit_value, pp, loc, path_of
from norm import nbody, walk_all, unblock
from report import AnchorLost
from lensum import (Interp, PathVal, Opaque, Poly, Unsupported, summarise_len, fmt_path)
from lenread import ReadInterp, summarise_decoder, Diverge
from tables import const_eval, enum_discriminants

PROP_ID = "v5::types::PropertyId"
PRIMS = {"common::utils::read_u8": "byte", "common::utils::read_u16": "u16", "common::utils::read_u32": "u32",
         "common::utils::read_string": "utf8", "common::utils::read_bytes": "binary"}
WRITE_KIND = {"write_u8": "byte", "write_u16": "u16", "write_u32": "u32", "write_var_int": "varint",
              "write_bytes": "lenprefixed"}


def prop_structs(F):
    out = []
    for path, a in sorted(F.adts.items()):
        if a["name"] in S.PROP_STRUCTS and a["kind"] == "struct" and path.startswith("v5::"):
            dec = F.inherent_method(path, "decode_async")
            enc = F.impl_method("Encodable", path, "encode")
            ln = F.impl_method("Encodable", path, "encode_len")
            out.append({"path": path, "name": a["name"], "packet": S.PROP_STRUCTS[a["name"]],
                        "decode": dec, "encode": enc, "encode_len": ln, "adt": a})
    return out


def struct_fields(a):
    return {f["name"]: f["ty"] for f in a["variants"][0]["fields"]}


# ---- decode side: structure ------------------------------------------------------------------------

def find_prop_loop(F, fid, struct_path):
    """The `while declared > accounted { id = PropertyId::from_u8(read_u8?)?; match id {..} }` loop."""
    b = nbody(F, fid)
    if b is None:
        raise AnchorLost("no body for %s" % fid)
    for n in walk_all(b):
        if n.get("k") != "While":
            continue
        m = None
        for x in walk_all(n["body"]):
            if x.get("k") == "Match" and x.get("src") == "Normal" and (x["scrut"].get("ty") or "").endswith("PropertyId"):
                m = x
                break
        if m is not None:
            return b, n, m
    raise AnchorLost("%s: property loop (while .. { match property_id {..} })" % fid)


def decode_arms(F, fid, struct_path):
    """[(variants, arm, fields touched, diverges)] in arm order."""
    b, loop, m = find_prop_loop(F, fid, struct_path)
    arms = []
    for arm in m["arms"]:
        p = arm["pat"]
        variants = []

        def pv(q):
            while q.get("k") == "Deref":
                q = q["sub"]
            if q.get("k") == "Or":
                for r in q["pats"]:
                    pv(r)
            elif q.get("k") == "Variant":
                variants.append(q["variant"])
            elif q.get("k") in ("Wild", "Binding"):
                variants.append("*")
            else:
                raise AnchorLost("%s: property arm pattern %s" % (fid, q.get("k")))
        pv(p)
        fields = []
        for x in walk_all(arm["body"]):
            if x.get("k") == "Field" and x.get("adt") == struct_path:
                if x["name"] not in fields:
                    fields.append(x["name"])
        body = unblock(arm["body"])
        div = body.get("k") == "Return" or body.get("ty") == "!"
        arms.append({"variants": variants, "arm": arm, "fields": fields, "diverges": div})
    return b, loop, m, arms


def _flatten_prims(reads):
    out = []
    for r in reads:
        if r[0] == "call":
            if r[1] in PRIMS:
                out.append(PRIMS[r[1]])
            else:
                out.extend(_flatten_prims(r[2]))
        elif r[0] == "varint":
            out.append("varint")
        elif r[0] == "read_exact":
            out.append("raw:" + r[1])
        elif r[0] == "cond":
            a, b = _flatten_prims(r[2]), _flatten_prims(r[3])
            out.append(("cond", a, b))
    return out


def _arm_reads(loop_reads):
    """From the read log of one loop iteration: ([prims before the match], {variant: prims}, [prims of last arm])."""
    head = []
    chain = None
    for r in loop_reads:
        if r[0] == "cond" and " is " in r[1] and chain is None:
            chain = r
        elif chain is None:
            head.extend(_flatten_prims([r]))
    per = {}
    last = None
    if chain is None:
        # a single non-diverging arm: the first read is the identifier, the rest belongs to that arm
        return head[:1], per, head[1:]
    node = chain
    while True:
        m = re.search(r" is (\w+)\]", node[1])
        per[m.group(1)] = _flatten_prims(node[2])
        els = node[3]
        nxt = [r for r in els if r[0] == "cond" and " is " in r[1]]
        if len(els) == 1 and nxt:
            node = nxt[0]
            continue
        last = _flatten_prims(els)
        break
    return head, per, last


# ---- encode side -------------------------------------------------------------------------------------

def encode_table(F, ps):
    it = Interp(F, "write")
    it.run_fn(ps["encode"], [PathVal(("self",)), Opaque("writer")])
    entries = []
    first = None
    user = None
    for t in it.trace:
        if t[0] == "item" and first is None and not entries:
            first = t
            continue
        if t[0] == "cond":
            m = re.fullmatch(r"\[some\(self\.(\w+)\)\]", t[1])
            items = [x for x in t[2] if x[0] == "item"]
            if not m or t[3] or len(items) != len(t[2]) or len(items) != 2:
                raise AnchorLost("%s: property encode block %s" % (ps["encode"], t[1]))
            idb, val = items
            entries.append({"field": m.group(1), "id": idb[2], "id_fn": idb[1], "kind": WRITE_KIND.get(val[1], val[1]),
                            "src": val[3], "src_expr": val[4], "val_fn": val[1]})
        elif t[0] == "each":
            user = t
        elif t[0] == "item":
            raise AnchorLost("%s: unconditional write after the property length" % ps["encode"])
    return it, first, entries, user


# ---- the rules ----------------------------------------------------------------------------------------

def _analyse(F):
    """Shared extraction for all property rules (cached per facts object)."""
    cache = getattr(F, "_prop_cache", None)
    if cache is not None:
        return cache
    discr = enum_discriminants(F, PROP_ID)
    out = []
    for ps in prop_structs(F):
        ent = dict(ps)
        ent["errors"] = []
        try:
            tab, loop = probe_table(F, ps["decode"])
            arms = []
            for v, r in tab.items():
                if v == "<unknown>":
                    continue
                if r["outcome"][0] == "undecided":
                    raise AnchorLost("property %s: %s" % (v, r["outcome"][1]))
                flds = [f for f, _v in r["stores"]] + list(r["pushes"])
                arms.append({"variants": [v], "fields": flds, "diverges": r["outcome"] != ("continue",), "arm": loop, "reads": r["reads"]})
            ent.update({"loop": loop, "match": loop, "arms": arms, "probe": tab})
            nargs = len(F.fns[ps["decode"]]["thir"]["params"])
            it = summarise_decoder(F, ps["decode"], [Opaque("reader")] + [Opaque("packet_type")] * (nargs - 1),
                                   summarise_props=False)
            ent["read"] = it
        except (Unsupported, AnchorLost) as e:
            ent["errors"].append("decode: %s" % e)
        try:
            it, first, entries, user = encode_table(F, ps)
            ent.update({"enc_it": it, "enc_first": first, "enc_entries": entries, "enc_user": user})
        except (Unsupported, AnchorLost) as e:
            ent["errors"].append("encode: %s" % e)
        try:
            l, _ = summarise_len(F, ps["encode_len"])
            ent["len_poly"] = l
        except Unsupported as e:
            ent["errors"].append("encode_len: %s" % e)
        out.append(ent)
    F._prop_cache = (discr, out)
    return F._prop_cache


def _fail_errors(R, rule, ent):
    for e in ent["errors"]:
        R.fail(rule, "%s/anchor-lost/%s" % (ent["name"], e.split(":")[0]), "cannot extract the property table of %s: %s" % (ent["name"], e),
               where=ent["adt"]["sp"])
    return bool(ent["errors"])


def t_props(F, R):
    discr, ents = _analyse(F)
    R.floor("T-props", "property structs", len(ents), 14)
    n = 0
    for ent in ents:
        if _fail_errors(R, "T-props", ent):
            continue
        want = S.props_of(ent["packet"])
        got = set()
        default = None
        for a in ent["arms"]:
            if a["diverges"]:
                default = a
                continue
            for v in a["variants"]:
                if v == "*":
                    R.fail("T-props", "%s/catch-all-accepts" % ent["name"], "%s decoder accepts unknown property ids" % ent["name"], where=loc(a["arm"]))
                else:
                    got.add(discr[v])
        for pid in sorted(got - want):
            R.fail("T-props", "%s/extra-%#04x" % (ent["name"], pid),
                   "%s accepts property %#04x, which the specification does not allow in %s" % (ent["name"], pid, ent["packet"].upper()), where=loc(ent["match"]))
        for pid in sorted(want - got):
            R.fail("T-props", "%s/missing-%#04x" % (ent["name"], pid),
                   "%s rejects property %#04x, which the specification allows in %s" % (ent["name"], pid, ent["packet"].upper()), where=loc(ent["match"]))
        if got == want:
            R.ok("T-props", "%s/set" % ent["name"], sorted(got))
        n += len(got)
        # default arm: the documented error with (packet type parameter, the id just parsed)
        if default is None or default["variants"] != ["*"]:
            R.fail("T-props", "%s/no-default" % ent["name"], "%s has no rejecting default arm" % ent["name"], where=loc(ent["match"]))
        else:
            errs = [x for x in walk_all(default["arm"]["body"]) if x.get("k") == "Adt" and x.get("adt") == "v5::error::ErrorV5"]
            want_var = "InvalidWillProperty" if ent["packet"] == "Will" else "InvalidProperty"
            ok = len(errs) == 1 and errs[0]["variant"] == want_var
            if ok:
                payload = [pp(strip(f["e"])) for f in errs[0]["fields"]]
                idvar = pp(strip(ent["match"]["scrut"]))
                if want_var == "InvalidProperty":
                    ok = len(payload) == 2 and payload[1] == idvar and payload[0] in ("packet_type", "header.typ")
                else:
                    ok = payload == [idvar]
            R.check(ok, "T-props", "%s/default-error" % ent["name"],
                    "%s rejects a disallowed property with %s; documented: %s carrying the packet type and the offending id" % (
                        ent["name"], [(e["variant"], [pp(strip(f["e"])) for f in e["fields"]]) for e in errs], want_var),
                    where=loc(default["arm"]))
    R.floor("T-props", "(struct, property) instances", n, 64)
    # the hand-written loop in v5 Unsubscribe::decode_async
    _unsubscribe_inline(F, R, discr)


def _unsubscribe_inline(F, R, discr):
    fid = "v5::subscribe::Unsubscribe::decode_async"
    try:
        b, loop, m, arms = decode_arms(F, fid, "v5::subscribe::UnsubscribeProperties")
    except AnchorLost:
        # the decoder may have been refactored to call UnsubscribeProperties::decode_async: then the
        # macro-generated decoder (checked above) is what runs
        b = nbody(F, fid)
        uses = any(x.get("k") == "Call" and (x["fn"].get("res") or x["fn"].get("def")) == "v5::subscribe::UnsubscribeProperties::decode_async"
                   for x in walk_all(b))
        R.check(uses, "T-props", "Unsubscribe-inline/anchor", "v5 Unsubscribe::decode_async neither has a property loop nor calls UnsubscribeProperties::decode_async", where=fid)
        return
    got = {discr[v] for a in arms if not a["diverges"] for v in a["variants"] if v != "*"}
    R.check(got == S.props_of("Unsubscribe"), "T-props", "Unsubscribe-inline/set",
            "v5 Unsubscribe::decode_async accepts properties %s; specification %s" % (sorted(got), sorted(S.props_of("Unsubscribe"))), where=loc(m))
    d = [a for a in arms if a["diverges"]]
    ok = False
    if len(d) == 1:
        errs = [x for x in walk_all(d[0]["arm"]["body"]) if x.get("k") == "Adt" and x.get("adt") == "v5::error::ErrorV5"]
        ok = len(errs) == 1 and errs[0]["variant"] == "InvalidProperty" and \
            [pp(strip(f["e"])) for f in errs[0]["fields"]] == ["header.typ", pp(strip(m["scrut"]))]
    R.check(ok, "T-props", "Unsubscribe-inline/default-error", "v5 Unsubscribe::decode_async default property arm does not raise InvalidProperty(header.typ, id)", where=loc(m))


def t_prop3(F, R):
    discr, ents = _analyse(F)
    by_val = {v: k for k, v in discr.items()}
    n = 0
    for ent in ents:
        if _fail_errors(R, "T-prop3", ent):
            continue
        name = ent["name"]
        fields = struct_fields(ent["adt"])
        opt_fields = {f for f, ty in fields.items() if ty.startswith("core::option::Option<")}
        # decode: variant -> field
        dec = {}
        for a in ent["arms"]:
            if a["diverges"]:
                continue
            for v in a["variants"]:
                fl = [f for f in a["fields"]]
                if v == "UserProperty":
                    R.check(fl == ["user_properties"], "T-prop3", "%s/UserProperty/decode-field" % name,
                            "%s: user property arm touches fields %s" % (name, fl), where=loc(a["arm"]))
                    continue
                if len(fl) != 1:
                    R.fail("T-prop3", "%s/%s/decode-field" % (name, v), "%s: decode arm for %s touches fields %s (expected exactly one)" % (name, v, fl), where=loc(a["arm"]))
                    continue
                dec[v] = fl[0]
        enc = {}
        for e in ent["enc_entries"]:
            v = by_val.get(e["id"])
            if v is None:
                R.fail("T-prop3", "%s/encode-id-%r" % (name, e["id"]), "%s: encoder writes unknown property id %r for field %s" % (name, e["id"], e["field"]), where=ent["encode"])
                continue
            enc[v] = e
        # encode_len: fields guarded in the property-length polynomial
        X = _prop_len_poly(ent)
        len_fields = {a[1][-1] for a in X.atoms() if a[0] == "some"} if X is not None else set()
        for v in sorted(set(dec) | set(enc)):
            n += 1
            d, e = dec.get(v), enc.get(v)
            if d is None or e is None:
                R.fail("T-prop3", "%s/%s/one-sided" % (name, v),
                       "%s: property %s is %s but %s" % (name, v, "decoded" if d else "not decoded", "encoded" if e else "not encoded"), where=ent["adt"]["sp"])
                continue
            R.check(d == e["field"], "T-prop3", "%s/%s/field" % (name, v),
                    "%s: property %s is decoded into `%s` but encoded from `%s`" % (name, v, d, e["field"]), where=ent["adt"]["sp"])
            src_ok = e["src"] == "self.%s" % e["field"] or (e["kind"] == "varint" and ("self.%s" % e["field"]) in e["src_expr"])
            R.check(src_ok, "T-prop3", "%s/%s/encode-source" % (name, v),
                    "%s: the block guarded by `%s` writes %s" % (name, e["field"], e["src"] or e["src_expr"]), where=ent["encode"])
            R.check(d in len_fields, "T-prop3", "%s/%s/encode_len" % (name, v),
                    "%s: encode_len has no term for `%s` (property %s)" % (name, d, v), where=ent["encode_len"])
        handled = set(dec.values())
        R.check(handled == opt_fields, "T-prop3", "%s/fields-covered" % name,
                "%s: optional fields %s, properties decoded into %s" % (name, sorted(opt_fields), sorted(handled)), where=ent["adt"]["sp"])
        R.check(len_fields == opt_fields, "T-prop3", "%s/encode_len-fields" % name,
                "%s: encode_len guards %s, optional fields are %s" % (name, sorted(len_fields), sorted(opt_fields)), where=ent["encode_len"])
        R.check("user_properties" in fields and ent["enc_user"] is not None and ent["enc_user"][1] == "self.user_properties",
                "T-prop3", "%s/user-properties" % name, "%s: user properties are not encoded from self.user_properties" % name, where=ent["encode"])
    R.floor("T-prop3", "(struct, property) instances", n, 50)


def _prop_len_poly(ent):
    """X with encode_len == X + varint(X)."""
    l = ent.get("len_poly")
    if l is None:
        return None
    for (atoms, g), c in l.m.items():
        if g is not None and g[0] == "varint" and not atoms and c == 1:
            X = Poly.from_key(g[1])
            rest = l - Poly({(frozenset(), g): 1})
            if (rest - X).is_zero():
                return X
    return None


def t_propid(F, R):
    """Per encode block: id byte (== PropertyId discriminant == spec id) first, then the value with the
    primitive of the spec's wire type; decode arm reads with the matching primitive; block is prefixed by
    write_var_int(total) where total == the sum of exactly the written items."""
    discr, ents = _analyse(F)
    by_val = {v: k for k, v in discr.items()}
    # PropertyId numbering vs spec (27 ids)
    R.check(set(discr.values()) == set(S.PROPERTIES), "T-propid", "PropertyId/numbering",
            "PropertyId discriminants %s differ from the specification's identifiers" % sorted(set(discr.values()) ^ set(S.PROPERTIES)))
    n = 0
    for ent in ents:
        if _fail_errors(R, "T-propid", ent):
            continue
        name = ent["name"]
        fields = struct_fields(ent["adt"])
        per_arm = {a["variants"][0]: a["reads"] for a in ent["arms"] if not a["diverges"]}
        last = per_arm.get("UserProperty")
        for e in ent["enc_entries"]:
            n += 1
            v = by_val.get(e["id"])
            spec = S.PROPERTIES.get(e["id"])
            if v is None or spec is None:
                continue
            want = spec[0]
            R.check(e["id_fn"] == "write_u8", "T-propid", "%s/%s/id-width" % (name, v), "%s: id of %s written with %s" % (name, v, e["id_fn"]), where=ent["encode"])
            kind = e["kind"]
            if kind == "lenprefixed":
                kind = "binary" if "Bytes" in fields.get(e["field"], "") else "utf8"
            R.check(kind == want, "T-propid", "%s/%s/encode-kind" % (name, v),
                    "%s: property %s (%s in the specification) is written with %s" % (name, v, want, e["val_fn"]), where=ent["encode"])
            rd = per_arm.get(v)
            if rd is None and last is not None and v != "UserProperty":
                rd = None
            want_rd = {"byte": ["byte"], "u16": ["u16"], "u32": ["u32"], "varint": ["varint"], "utf8": ["utf8"], "binary": ["binary"]}[want]
            R.check(rd == want_rd, "T-propid", "%s/%s/decode-kind" % (name, v),
                    "%s: property %s (%s in the specification) is read as %s" % (name, v, want, rd), where=ent["decode"])
        # user property: id 0x26, two length-prefixed strings
        u = ent["enc_user"]
        items = [x for x in (u[2] if u else []) if x[0] == "item"]
        ok = len(items) == 3 and items[0][1] == "write_u8" and items[0][2] == 0x26 and \
            [(x[1], x[3]) for x in items[1:]] == [("write_bytes", "$it.name"), ("write_bytes", "$it.value")]
        R.check(ok, "T-propid", "%s/UserProperty/encode" % name, "%s: user property encoded as %s" % (name, [(x[1], x[2], x[3]) for x in items]), where=ent["encode"])
        R.check(last == ["utf8", "utf8"], "T-propid", "%s/UserProperty/decode" % name, "%s: user property read as %s" % (name, last), where=ent["decode"])
        # length prefix = sum of the written items (L): first item is write_var_int(X) and the rest totals X
        first = ent["enc_first"]
        X = _prop_len_poly(ent)
        w = ent["enc_it"].written
        ok = first is not None and first[1] == "write_var_int" and X is not None
        if ok:
            from lensum import g_varint
            ok = (w - X - g_varint(X)).is_zero() and first[4] == repr(X)[:200]
        R.check(ok, "T-propid", "%s/length-prefix" % name,
                "%s: the property block is not `var-int(total)` followed by exactly `total` bytes of properties" % name, where=ent["encode"])
    R.floor("T-propid", "encode blocks", n, 50)


def l_propdec(F, R):
    discr, ents = _analyse(F)
    n = 0
    for ent in ents:
        if _fail_errors(R, "L-propdec", ent):
            continue
        name = ent["name"]
        it = ent["read"]
        for a in it.assumptions:
            R.assume(a)
        if len(it.loops) != 1:
            R.fail("L-propdec", "%s/loops" % name, "%s decoder has %d loops" % (name, len(it.loops)), where=ent["decode"])
            continue
        lp = it.loops[0]
        diff = lp["consumed"] - lp["decrease"]
        R.check(diff.is_zero(), "L-propdec", "%s/accounting" % name,
                "%s: per decoded property, bytes read and the accounted length differ by %s" % (name, diff), where=lp["fn_loc"],
                detail={"consumed": repr(lp["consumed"]), "accounted": repr(lp["decrease"])})
        # progress: every iteration accounts for at least the id byte
        mn = _min_value(lp["decrease"])
        R.check(mn >= 1, "L-propdec", "%s/progress" % name, "%s: an iteration may account for %d bytes" % (name, mn), where=lp["fn_loc"])
        # whole block: varint(P) + P
        tot = it.resolve(it.consumed)
        gens = [g for (_a, g) in tot.m if g is not None]
        ok = len(tot.m) == 2 and any(g[0] == "val" for g in gens) and any(g[0] == "varint" for g in gens) and all(c == 1 for c in tot.m.values())
        R.check(ok, "L-propdec", "%s/block" % name, "%s: the property block consumes %s (expected varint(P) + P)" % (name, tot), where=ent["decode"])
        # three-way: per field, accounted term == encode_len term
        X = _prop_len_poly(ent)
        if X is None:
            R.fail("L-propdec", "%s/encode_len-shape" % name, "%s: encode_len is not X + varint(X)" % name, where=ent["encode_len"])
            continue
        dec = lp["decrease"]
        root = None
        for (_a, g) in dec.m:
            if g is not None and g[0] == "len" and g[1][0].startswith("$"):
                root = g[1][0]
        atoms = sorted(dec.atoms(), key=repr)
        arm_atoms = [a for a in atoms if a[0] == "is"]
        for a in ent["arms"]:
            if a["diverges"]:
                continue
            for v in a["variants"]:
                if v == "UserProperty":
                    continue
                n += 1
                term = dec
                for at in arm_atoms:
                    term = term.subst_atom(at, at[2] == v)
                fld = a["fields"][0] if a["fields"] else None
                if fld is None:
                    continue
                some = ("some", ("self", fld))
                want = X.subst_atom(some, True) - X.subst_atom(some, False)
                got = _rename_root(term, root, "self") if root else term
                # the decoded term is unconditional (the field was just stored); constant-only terms have no root
                R.check((got - want).is_zero(), "L-propdec", "%s/%s/term" % (name, v),
                        "%s: decoding %s accounts for %s bytes but encode_len adds %s for `%s`" % (name, v, got, want, fld), where=lp["fn_loc"])
        # user property term (the unconditional remainder)
        term = dec
        for at in arm_atoms:
            term = term.subst_atom(at, False)
        want = Poly()
        for (atoms_, g), c in X.m.items():
            if g is not None and g[0] == "sum" and g[1] == ("self", "user_properties") and not atoms_:
                want = want + Poly.from_key(g[2]) * c
        got = _rename_prefix(term, (root, "user_properties") if root else None, ("$it",))
        R.check((got - want).is_zero(), "L-propdec", "%s/UserProperty/term" % name,
                "%s: decoding a user property accounts for %s but encode_len adds %s per user property" % (name, got, want), where=lp["fn_loc"])
    R.floor("L-propdec", "(struct, property) terms", n, 50)
    _unsubscribe_inline_len(F, R)


def _unsubscribe_inline_len(F, R):
    fid = "v5::subscribe::Unsubscribe::decode_async"
    try:
        it = summarise_decoder(F, fid, [Opaque("reader"), PathVal(("header",))])
    except Unsupported as e:
        R.fail("L-propdec", "Unsubscribe-inline/unsupported", "cannot summarise %s: %s" % (fid, e), where=fid)
        return
    for lp in it.loops:
        diff = lp["consumed"] - lp["decrease"]
        R.check(diff.is_zero(), "L-propdec", "Unsubscribe-inline/%s" % ("props" if "property_len" in lp["cond"] else "topics"),
                "v5 Unsubscribe::decode_async loop `%s`: bytes read and accounted length differ by %s" % (lp["cond"], diff), where=lp["fn_loc"])


def _min_value(p):
    """Smallest value of a decrease polynomial over one-hot arm assignments with all lengths 0."""
    arms = sorted({a for a in p.atoms() if a[0] == "is"}, key=repr)
    others = [a for a in p.atoms() if a[0] != "is"]
    best = None
    choices = [None] + arms
    for ch in choices:
        q = p
        for a in arms:
            q = q.subst_atom(a, a == ch)
        for a in others:
            q = q.subst_atom(a, False)
        v = sum(c for (at, g), c in q.m.items() if g is None and not at)
        best = v if best is None else min(best, v)
    return best if best is not None else 0


def _rename_root(p, old, new):
    out = Poly()
    for (atoms, g), c in p.m.items():
        out = out + Poly({(frozenset(_ren_atom(a, old, new) for a in atoms), _ren_gen(g, old, new)): c})
    return out


def _ren_atom(a, old, new):
    if a[0] in ("some", "is", "default", "true") and a[1] and a[1][0] == old:
        return (a[0], (new,) + a[1][1:]) + a[2:]
    return a


def _ren_gen(g, old, new):
    if g is None:
        return None
    if g[0] in ("len", "val") and g[1] and g[1][0] == old:
        return (g[0], (new,) + g[1][1:])
    if g[0] == "varint":
        inner = _rename_root(Poly.from_key(g[1]), old, new)
        return ("varint", inner.key(), repr(inner))
    return g


def _rename_prefix(p, old_prefix, new_prefix):
    if old_prefix is None:
        return p
    n = len(old_prefix)
    out = Poly()
    for (atoms, g), c in p.m.items():
        if g is not None and g[0] in ("len", "val") and g[1][:n] == tuple(old_prefix):
            g = (g[0], tuple(new_prefix) + g[1][n:])
        out = out + Poly({(atoms, g): c})
    return out


def h_proplen(F, R):
    """After each property loop: `if declared != accounted { return Err(InvalidPropertyLength(declared)) }`
    on the same two operands as the loop condition, before the Ok."""
    discr, ents = _analyse(F)
    sites = [(e["name"], e["decode"]) for e in ents] + [("Unsubscribe-inline", "v5::subscribe::Unsubscribe::decode_async")]
    n = 0
    for name, fid in sites:
        try:
            b, loop, m = find_prop_loop(F, fid, None)
        except AnchorLost as e:
            if name == "Unsubscribe-inline":
                continue
            R.fail("H-proplen", "%s/anchor-lost" % name, str(e), where=fid)
            continue
        c = unblock(loop["cond"])
        ops = sorted([pp(strip(c["l"])), pp(strip(c["r"]))]) if c.get("k") == "Binary" else None
        R.check(c.get("k") == "Binary" and c["op"] == "Gt" and "property_len" in pp(c["l"]), "H-proplen", "%s/loop-cond" % name,
                "%s: property loop runs while %s (expected declared > accounted)" % (name, pp(c)), where=loc(loop))
        # find the block containing the loop and the statements after it
        found = False
        for blk in walk_all(b):
            if blk.get("k") != "Block":
                continue
            stmts = blk.get("stmts", [])
            idx = [i for i, s in enumerate(stmts) if s.get("e") is loop]
            if not idx:
                continue
            for s in stmts[idx[0] + 1:]:
                e = s.get("e")
                if isinstance(e, dict) and e.get("k") == "If":
                    cc = unblock(e["cond"])
                    if cc.get("k") == "Binary" and cc["op"] == "Ne" and sorted([pp(strip(cc["l"])), pp(strip(cc["r"]))]) == ops:
                        errs = [x for x in walk_all(e["then"]) if x.get("k") == "Adt" and x.get("adt") == "v5::error::ErrorV5"]
                        rets = [x for x in walk_all(e["then"]) if x.get("k") == "Return"]
                        if len(errs) == 1 and errs[0]["variant"] == "InvalidPropertyLength" and rets and \
                                pp(strip(errs[0]["fields"][0]["e"])) == "property_len":
                            found = True
            break
        n += 1
        R.check(found, "H-proplen", "%s/exact-length-check" % name,
                "%s: no `declared != accounted -> Err(InvalidPropertyLength(declared))` test follows the property loop; "
                "a property block that does not exactly fill its declared length would be accepted" % name, where=loc(loop))
    R.floor("H-proplen", "property loops", n, 15)


def h_dup(F, R):
    """Every store of Some(..) into an Option field by a property decoder happens only after the
    `is_some() -> return Err(DuplicatedProperty(id))` rejection on that very field (semantic: the
    interpreter's known-facts say the field is None at the store)."""
    n = 0
    helper_ids = [fid for fid in F.fns if fid.startswith("v5::types::PropertyValue::decode_") and "{" not in fid]
    sites = []
    for fid in sorted(helper_ids):
        b = nbody(F, fid)
        sites.append((fid, b))
    discr, ents = _analyse(F)
    for ent in ents:
        if ent.get("arms"):
            for a in ent["arms"]:
                if not a["diverges"] and a["variants"] != ["UserProperty"]:
                    sites.append(("%s/%s" % (ent["name"], "|".join(a["variants"])), a["arm"]["body"]))
    for name, body in sites:
        stores = _option_stores(body)
        for target, node, blk_path in stores:
            n += 1
            ok = _dup_guard_before(body, target, node)
            R.check(ok, "H-dup", "%s/%s" % (name, target),
                    "%s: `%s = Some(..)` is not preceded by the `is_some() -> Err(DuplicatedProperty(id))` rejection" % (name, target), where=loc(node))
    R.floor("H-dup", "guarded stores", n, 8)


def _option_stores(body):
    out = []
    for x in walk_all(body):
        if x.get("k") == "Assign":
            r = unblock(x["r"])
            if r.get("k") == "Adt" and r.get("adt") == "core::option::Option" and r["variant"] == "Some":
                out.append((pp(x["l"]), x, None))
    return out


def _dup_guard_before(body, target, store_node):
    """A statement `if <target>.is_some() { return Err(DuplicatedProperty(..)) }` precedes the store in
    program order within the same function body (no loops in between)."""
    seen_guard = False
    tnorm = target.lstrip("*")
    for x in walk_all(body):
        if x is store_node:
            return seen_guard
        if x.get("k") == "If":
            c = unblock(x["cond"])
            if c.get("k") == "Call" and c["fn"].get("name") == "is_some" and pp(strip(c["args"][0])).lstrip("*") == tnorm:
                errs = [y for y in walk_all(x["then"]) if y.get("k") == "Adt" and y.get("adt") == "v5::error::ErrorV5"]
                if len(errs) == 1 and errs[0]["variant"] == "DuplicatedProperty" and \
                        (unblock(x["then"]).get("ty") == "!" or any(y.get("k") == "Return" for y in walk_all(x["then"]))):
                    seen_guard = True
    return False


def h_bytevals(F, R):
    """Byte-typed properties restricted to {0,1} (7 booleans + Maximum QoS): the value read is tested
    `> 1` (or equivalent) and rejected with InvalidByteProperty(id, value) before anything is stored."""
    discr, ents = _analyse(F)
    checked = 0
    for ent in ents:
        if ent["errors"]:
            continue
        for a in ent["arms"]:
            if a["diverges"]:
                continue
            for v in a["variants"]:
                if discr.get(v) not in S.BOOL_PROPERTIES:
                    continue
                checked += 1
                bodies = [a["arm"]["body"]]
                for x in walk_all(a["arm"]["body"]):
                    if x.get("k") == "Call" and (x["fn"].get("def") or "").startswith("v5::types::PropertyValue::decode_"):
                        hb = nbody(F, x["fn"]["def"])
                        if hb is not None:
                            bodies.append(hb)
                ok = any(_byte_guard(b) for b in bodies)
                R.check(ok, "H-bytevals", "%s/%s" % (ent["name"], v),
                        "%s: byte property %s is stored without rejecting values above 1 with InvalidByteProperty(id, value)" % (ent["name"], v),
                        where=loc(a["arm"]))
    R.floor("H-bytevals", "restricted byte properties", checked, 9)


def _byte_guard(body):
    for x in walk_all(body):
        if x.get("k") != "If":
            continue
        c = unblock(x["cond"])
        if c.get("k") != "Binary":
            continue
        cv = const_eval(c["r"])
        if (c["op"], cv) not in (("Gt", 1), ("Ge", 2)):
            continue
        v = pp(strip(c["l"]))
        errs = [y for y in walk_all(x["then"]) if y.get("k") == "Adt" and y.get("adt") == "v5::error::ErrorV5"]
        if len(errs) == 1 and errs[0]["variant"] == "InvalidByteProperty" and pp(strip(errs[0]["fields"][1]["e"])) == v:
            # the store must not be inside the rejecting branch
            if not any(y.get("k") == "Assign" for y in walk_all(x["then"])):
                return True
    return False


# ==== dispatch probing with the partial evaluator ========================================================================
from peval import UNIT as UNIT_
from peval import PE, Sym, Adt, Tup, Undecided, ok as pe_ok, err as pe_err, NONE as PE_NONE, UNIT as PE_UNIT, vkey as vkey_
from r_pe import result_kind, unwrap_common

READ_PRIMS = {"common::utils::read_u8": "byte", "common::utils::read_u16": "u16", "common::utils::read_u32": "u32",
              "common::utils::read_string": "utf8", "common::utils::read_bytes": "binary", "common::utils::decode_var_int": "varint"}


def prop_loop_body(F, fid):
    b = nbody(F, fid)
    if b is None:
        raise AnchorLost("no body for %s" % fid)
    for n in walk_all(b):
        if n.get("k") == "While":
            for x in walk_all(n["body"]):
                if x.get("k") == "Call" and (x["fn"].get("res") or x["fn"].get("def")) == "v5::types::PropertyId::from_u8":
                    return b, n
    raise AnchorLost("%s: property loop (a while loop that parses a PropertyId)" % fid)


def _props_local(F, fn_body, loop):
    """(var id, struct path) of the local property set the loop fills: the variable of a `*Properties` struct type declared
    before the loop."""
    for n in walk_all(fn_body):
        if n.get("k") == "Block":
            for st in n.get("stmts", []):
                if st.get("k") == "Let" and st["pat"].get("k") == "Binding":
                    ty = (st["pat"].get("ty") or "").lstrip("&")
                    if ty.endswith("Properties") and ty in F.adts:
                        return st["pat"]["var"]["id"], ty
    return None, None


def _fresh_props(F, path, dup):
    fields = {}
    for f in F.adts[path]["variants"][0]["fields"]:
        ty = f["ty"]
        if ty.startswith("core::option::Option<"):
            fields[f["name"]] = Adt("core::option::Option", "Some", {"0": Sym(("old", f["name"]))}) if dup else Adt("core::option::Option", "None")
        elif ty.startswith("alloc::vec::Vec<"):
            fields[f["name"]] = Tup([])
        else:
            fields[f["name"]] = Sym(("init", f["name"]))
    return Adt(path, path.rsplit("::", 1)[1], fields)


def probe(F, loop, id_byte, dup=False, value_byte=None, fn_body=None, int_value=None, validate_fail=False):
    """Evaluate one iteration of a property loop for a given identifier byte on a *concrete* property set (every optional
    field None, or every optional field already Some when `dup`): duplicate tests, stores and pushes are then observed on
    the struct itself, however the decoder reaches them (inline, `&mut` helper, guard helper).
    Returns {"outcome": ('continue',) | ('err', variant, payload values) | .., "reads": [...], "stores": [(field, value)], "pushes": [field]}"""
    reads = []
    decisions = []
    state = {"n_u8": 0}

    def hook(d, res, args, node, env):
        r = res or d
        if r in READ_PRIMS:
            kind = READ_PRIMS[r]
            if kind == "byte":
                state["n_u8"] += 1
                if state["n_u8"] == 1:
                    return pe_ok(id_byte)
                reads.append(kind)
                return pe_ok(value_byte if value_byte is not None else Sym(("read", len(reads))))
            reads.append(kind)
            if kind == "varint":
                return pe_ok(Tup([Sym(("read", len(reads))), Sym("nbytes")]))
            if int_value is not None and kind in ("u16", "u32"):
                return pe_ok(int_value)
            return pe_ok(Sym(("read", len(reads))))
        if r == "common::utils::var_int_len":
            return pe_ok(Sym("varlen"))
        if r.endswith("::try_from") or r.endswith("TryFrom<alloc::string::String>>::try_from") or r.endswith("TryFrom<u32>>::try_from"):
            if validate_fail and "TopicName" in r:
                from peval import err as pe_err
                return pe_err(Adt("common::error::Error", "InvalidTopicName", {"0": args[0]}))
            return pe_ok(Sym(("validated", repr(args[0]))))
        return None

    def cond(what, node):
        k = what[0]
        if k in ("truth", "cmp", "pat-const", "pat-range"):
            # a condition on a value that was read (or on the validated value): the iteration's outcome depends on it
            decisions.append(repr(what)[:160])
        if k == "truth":
            return False
        if k == "pat-variant":
            if what[2] == "core::option::Option":
                return what[3] == "Some"
            if what[2] == "core::result::Result":
                return what[3] == "Ok"
            return False
        if k == "try-ok":
            return True
        return False
    pe = PE(F, call_hook=hook, cond_hook=cond)
    env = {}
    props = None
    if fn_body is not None:
        vid, path = _props_local(F, fn_body, loop)
        if vid is not None:
            props = _fresh_props(F, path, dup)
            env[vid] = props
    before = {k: (vkey_(v), len(v.items) if isinstance(v, Tup) else None) for k, v in props.fields.items()} if props is not None else {}
    out = None
    from peval import _Ret, _Brk, _Cont
    try:
        pe.ev(loop["body"], env)
        out = ("continue",)
    except _Cont:
        out = ("continue",)
    except _Brk:
        out = ("break",)
    except _Ret as r:
        k = result_kind(r.v)
        if k[0] == "err" and isinstance(k[1], Adt):
            out = ("err", k[1].variant, [k[1].fields[x] for x in sorted(k[1].fields)])
        else:
            out = ("return", repr(r.v))
    except Undecided as e:
        out = ("undecided", str(e))
    stores, pushes = [], []
    if props is not None:
        for fname, v in props.fields.items():
            if isinstance(v, Tup):
                if len(v.items) != before[fname][1]:
                    pushes.append(fname)
            elif vkey_(v) != before[fname][0]:
                val = v.fields.get("0") if isinstance(v, Adt) and v.adt == "core::option::Option" and v.variant == "Some" else v
                stores.append((fname, val))
    for ev in pe.events:
        if ev[0] == "store" and props is None:
            tag = ev[1]
            if isinstance(tag, tuple) and tag[0] == "field":
                stores.append((tag[2], ev[2]))
        elif ev[0] == "panic":
            stores.append(("<panic>", ev[1]))
    return {"outcome": out, "reads": reads, "stores": stores, "pushes": pushes, "events": pe.events, "decisions": decisions}


def probe_table(F, fid):
    """variant -> probe result for every PropertyId variant (and one unknown id) of a property loop."""
    cache = getattr(F, "_probe_cache", None)
    if cache is None:
        cache = F._probe_cache = {}
    if fid in cache:
        return cache[fid]
    discr = enum_discriminants(F, PROP_ID)
    _b, loop = prop_loop_body(F, fid)
    tab = {}
    for v, d in sorted(discr.items(), key=lambda kv: kv[1]):
        val = 0 if d in S.BOOL_PROPERTIES else None
        r = probe(F, loop, d, value_byte=val, fn_body=_b)
        r["dup"] = probe(F, loop, d, dup=True, value_byte=val, fn_body=_b)
        if d in S.BOOL_PROPERTIES:
            r["byte"] = {b: probe(F, loop, d, value_byte=b, fn_body=_b) for b in (0, 1, 2, 255)}
        if r["reads"] in (["u16"], ["u32"]) and r["outcome"] == ("continue",):
            top = 0xFFFF if r["reads"] == ["u16"] else 0xFFFFFFFF
            r["ints"] = {iv: probe(F, loop, d, fn_body=_b, int_value=iv) for iv in (0, 1, top)}
        if v == "ResponseTopic" and r["outcome"] == ("continue",):
            r["invalid-name"] = probe(F, loop, d, fn_body=_b, validate_fail=True)
        tab[v] = r
    unknown = next(b for b in range(256) if b not in discr.values())
    tab["<unknown>"] = probe(F, loop, unknown, fn_body=_b)
    cache[fid] = (tab, loop)
    return cache[fid]


def _ctx_ok(v):
    return isinstance(v, Sym) and (v.tag == ("var", "packet_type") or v.tag == ("field", ("var", "header"), "typ"))


def t_props(F, R):   # noqa: F811  (supersedes the pattern-based version above)
    """Per packet: the set of property identifiers whose loop iteration continues (is accepted) equals the
    specification's set; every other known identifier is rejected with InvalidProperty(packet type, id) /
    InvalidWillProperty(id) carrying that very id; unknown identifiers with InvalidPropertyId(byte)."""
    discr, ents = _analyse(F)
    sites = [(e["name"], e["packet"], e["decode"]) for e in ents]
    if any(x.get("k") == "While" for x in walk_all(nbody(F, "v5::subscribe::Unsubscribe::decode_async"))):
        try:
            prop_loop_body(F, "v5::subscribe::Unsubscribe::decode_async")
            sites.append(("Unsubscribe-inline", "Unsubscribe", "v5::subscribe::Unsubscribe::decode_async"))
        except AnchorLost:
            pass
    n = 0
    for name, packet, fid in sites:
        try:
            tab, loop = probe_table(F, fid)
        except AnchorLost as e:
            R.fail("T-props", "%s/anchor-lost" % name, str(e), where=fid)
            continue
        want = S.props_of(packet)
        for v, d in sorted(discr.items(), key=lambda kv: kv[1]):
            n += 1
            out = tab[v]["outcome"]
            key = "%s/%s" % (name, v)
            if d in want:
                R.check(out == ("continue",), "T-props", key,
                        "%s: property %s (%#04x) is allowed in %s by the specification but decoding it gives %s" % (name, v, d, packet.upper(), out[:2]), where=loc(loop))
                dec = tab[v].get("decisions") or []
                R.check(not dec, "T-props", key + "/value-dependent",
                        "%s: whether property %s (%#04x) is accepted in %s depends on a condition on the value read (%s); the grammar accepts every "
                        "well-typed value of this property" % (name, v, d, packet.upper(), "; ".join(dec[:2])), where=loc(loop))
            else:
                wv = "InvalidWillProperty" if packet == "Will" else "InvalidProperty"
                ok = out[0] == "err" and out[1] == wv
                if ok:
                    pay = out[2]
                    idv = pay[-1]
                    ok = isinstance(idv, Adt) and idv.variant == v and (wv == "InvalidWillProperty" or (len(pay) == 2 and _ctx_ok(pay[0])))
                R.check(ok, "T-props", key,
                        "%s: property %s (%#04x) is not allowed in %s; documented rejection is %s(.., %s) but decoding it gives %s" % (
                            name, v, d, packet.upper(), wv, v, out), where=loc(loop))
        u = tab["<unknown>"]["outcome"]
        R.check(u[0] == "err" and u[1] == "InvalidPropertyId" and isinstance(u[2][0], int), "T-props", "%s/unknown-id" % name,
                "%s: an unknown property identifier gives %s (documented: InvalidPropertyId(byte))" % (name, u), where=loc(loop))
    R.floor("T-props", "(packet, property id) decisions", n, 14 * 27)


def h_dup(F, R):   # noqa: F811
    """A second occurrence of a non-repeatable property is rejected with DuplicatedProperty(id) before
    anything is read (evaluated per accepted property with the target field already set)."""
    discr, ents = _analyse(F)
    n = 0
    for ent in ents:
        try:
            tab, loop = probe_table(F, ent["decode"])
        except AnchorLost as e:
            R.fail("H-dup", "%s/anchor-lost" % ent["name"], str(e), where=ent["decode"])
            continue
        for v, r in tab.items():
            if v in ("<unknown>", "UserProperty") or r["outcome"] != ("continue",):
                continue
            n += 1
            d = r["dup"]
            out = d["outcome"]
            ok = out[0] == "err" and out[1] == "DuplicatedProperty" and isinstance(out[2][0], Adt) and out[2][0].variant == v and not d["reads"] and not d["stores"]
            R.check(ok, "H-dup", "%s/%s" % (ent["name"], v),
                    "%s: a repeated %s gives %s after reading %s (documented: DuplicatedProperty(%s) before the value is read)" % (
                        ent["name"], v, out, d["reads"], v), where=loc(loop))
        up = tab.get("UserProperty")
        if up and up["outcome"] == ("continue",):
            R.check(up["pushes"] == ["user_properties"] and up["dup"]["outcome"] == ("continue",), "H-dup", "%s/UserProperty-repeatable" % ent["name"],
                    "%s: user properties are not accumulated (%s)" % (ent["name"], up["pushes"]), where=loc(loop))
    R.floor("H-dup", "non-repeatable properties", n, 50)


def h_bytevals(F, R):   # noqa: F811
    """Byte properties restricted to {0,1}: values 2 and 255 are rejected with InvalidByteProperty(id, value)
    and nothing is stored; 0 and 1 are stored."""
    discr, ents = _analyse(F)
    n = 0
    for ent in ents:
        try:
            tab, loop = probe_table(F, ent["decode"])
        except AnchorLost:
            continue
        for v, r in tab.items():
            if "byte" not in r or r["outcome"] != ("continue",):
                continue
            n += 1
            for b, pr in r["byte"].items():
                out = pr["outcome"]
                if b > 1:
                    ok = out[0] == "err" and out[1] == "InvalidByteProperty" and isinstance(out[2][0], Adt) and out[2][0].variant == v and out[2][1] == b and not pr["stores"]
                    R.check(ok, "H-bytevals", "%s/%s/%d" % (ent["name"], v, b),
                            "%s: %s with value %d gives %s, stores %s (documented: InvalidByteProperty(%s, %d))" % (ent["name"], v, b, out, pr["stores"], v, b), where=loc(loop))
                else:
                    ok = out == ("continue",) and len(pr["stores"]) == 1
                    if ok:
                        val = pr["stores"][0][1]
                        inner = val.fields.get("0") if isinstance(val, Adt) and val.variant == "Some" else val     # probe reports the payload
                        ok = inner is bool(b) or (isinstance(inner, Adt) and inner.variant == "Level%d" % b)
                    R.check(ok, "H-bytevals", "%s/%s/%d" % (ent["name"], v, b),
                            "%s: %s with value %d gives %s and stores %s" % (ent["name"], v, b, out, pr["stores"]), where=loc(loop))
    R.floor("H-bytevals", "restricted byte properties", n, 9)
    # two- and four-byte integer properties are not restricted by the (pinned) grammar: 0, 1 and the maximum are stored as read
    m = 0
    for ent in ents:
        try:
            tab, loop = probe_table(F, ent["decode"])
        except AnchorLost:
            continue
        for v, r in tab.items():
            for iv, pr in (r.get("ints") or {}).items():
                m += 1
                out = pr["outcome"]
                okk = out == ("continue",) and len(pr["stores"]) == 1 and pr["stores"][0][1] == iv
                R.check(okk, "H-intvals", "%s/%s/%d" % (ent["name"], v, iv),
                        "%s: %s with value %d gives %s and stores %s (the integer properties accept every value and store it unchanged)" % (
                            ent["name"], v, iv, out, pr["stores"]), where=loc(loop))
    R.floor("H-intvals", "integer property values", m, 30)


_WIRE_SIZE = {"byte": 1, "u16": 2, "u32": 4, "utf8": 5, "binary": 5, "varint": 1}      # strings / binary data: 2 + 3 bytes


def _whole_block(F, fid, id_byte, plen, second=None):
    """Evaluate a whole *Properties::decode_async on a block whose declared length is `plen` and whose first identifier byte is
    `id_byte`: every string read is 3 bytes long, every var-int value takes one byte, integers are 7, bytes are 0. With
    `second` = (id byte, number of byte-sized value reads of the first property) a second property follows the first."""
    state = {"n_u8": 0, "nvar": 0}
    reads = []

    def hook(d, res, args, node, env):
        r = res or d
        name = node["fn"].get("name")
        if r in READ_PRIMS:
            kind = READ_PRIMS[r]
            if kind == "varint":
                state["nvar"] += 1
                if state["nvar"] == 1:
                    return pe_ok(Tup([plen, 1]))
                reads.append(kind)
                return pe_ok(Tup([5, 1]))
            if kind == "byte":
                state["n_u8"] += 1
                if state["n_u8"] == 1:
                    return pe_ok(id_byte)
                if second is not None and state["n_u8"] == 2 + second[1] and len(reads) >= second[2]:
                    return pe_ok(second[0])
                reads.append(kind)
                return pe_ok(0)
            reads.append(kind)
            if kind in ("u16", "u32"):
                return pe_ok(7)
            return pe_ok(Sym(("read", len(reads))))
        if name == "len" and len(args) == 1 and isinstance(args[0], Sym):
            return 3
        if r.endswith("::try_from") and "TopicName" in r:
            return pe_ok(Sym(("validated", repr(args[0]))))
        if name in ("new", "from") and len(args) == 1 and r not in F.fns and ("Arc" in r or "ytes" in r or "sync" in r):
            return args[0]
        if name in ("deref", "as_ref", "as_str", "borrow") and len(args) == 1 and r not in F.fns:
            return args[0]
        return None
    pe = PE(F, call_hook=hook, cond_hook=lambda what, node: True if what[0] == "try-ok" else None, fuel=4000)
    nparams = len([p for p in F.fns[fid]["thir"]["params"] if p.get("pat") is not None])
    args = [Sym("READER")] + [Sym(("var", "packet_type"))] * (nparams - 1)
    try:
        r = pe.call_fn(fid, args)
    except Undecided as e:
        return ("undecided", str(e)[:200]), reads
    k = result_kind(r)
    if k[0] == "err" and isinstance(k[1], Adt):
        return ("err", k[1].variant, [k[1].fields[x] for x in sorted(k[1].fields)]), reads
    return k, reads


def _carried(v):
    """The stored value is what was read (a read symbol, the fixed integer / byte the evaluation feeds in, a validated wrapper of
    it), possibly inside Some(..), a newtype or a pushed (name, value) record -- not an arithmetic / call term over it."""
    if isinstance(v, Adt):
        if v.adt == "core::option::Option":
            return v.variant == "Some" and _carried(v.fields.get("0"))
        return all(_carried(x) for x in v.fields.values()) if v.fields else True
    if isinstance(v, Tup):
        return all(_carried(x) for x in v.items)
    if isinstance(v, bool) or isinstance(v, int):
        return v in (0, 1, 5, 7, False, True)
    if isinstance(v, Sym):
        t = v.tag
        return isinstance(t, tuple) and len(t) == 2 and t[0] in ("read", "validated") and not (isinstance(t[1], tuple))
    return False


def t_props_encvalues(F, R):
    """Each property-set encoder evaluated as a whole function on sets with exactly one field filled in: after the length prefix
    it writes the property's identifier byte and then the field's value as it is (an integer / string / binary symbol unchanged,
    true as 1, a QoS as its level)."""
    discr, ents = _analyse(F)
    n = 0
    for ent in ents:
        fid = ent["encode"]
        a = F.adts[ent["path"]]
        for fld in a["variants"][0]["fields"]:
            ty = fld["ty"]
            if not ty.startswith("core::option::Option<"):
                continue
            inner = ty[len("core::option::Option<"):-1]
            sym = Sym(("field", fld["name"]))
            if inner == "bool":
                val, want = True, [1]
            elif inner == "common::types::QoS":
                val, want = Adt("common::types::QoS", "Level1"), [1]
            elif inner == "v5::types::VarByteInt":
                val, want = Adt(inner, "VarByteInt", {"0": sym}), [sym]
            else:
                val, want = sym, [sym]
            fields = {}
            for g in a["variants"][0]["fields"]:
                fields[g["name"]] = Adt("core::option::Option", "None") if g["ty"].startswith("core::option::Option<") else Tup([])
            fields[fld["name"]] = Adt("core::option::Option", "Some", {"0": val})
            trace = []

            def hook(d, res, args, node, env):
                r = res or d
                name = node["fn"].get("name")
                if r in ("common::utils::write_u8", "common::utils::write_u16", "common::utils::write_u32", "common::utils::write_bytes", "common::utils::write_var_int"):
                    trace.append((r.rsplit("::", 1)[1], args[1]))
                    return pe_ok(UNIT_)
                if r == "common::utils::var_int_len":
                    return pe_ok(1)
                if name in ("len",) and len(args) == 1 and isinstance(args[0], Sym):
                    return 3
                if name in ("as_bytes", "as_ref", "as_str", "deref", "borrow", "value", "clone") and len(args) == 1 and r not in F.fns:
                    return args[0]
                return None
            try:
                r = PE(F, call_hook=hook, cond_hook=lambda what, node: True if what[0] == "try-ok" else None, fuel=4000).call_fn(
                    fid, [Adt(ent["path"], ent["path"].rsplit("::", 1)[1], fields), Sym("WRITER")])
            except Undecided as e:
                R.fail("T-propid", "%s/%s/encode-value/undecided" % (ent["name"], fld["name"]), "%s cannot be evaluated with only %s set: %s" % (fid, fld["name"], str(e)[:160]), where=fid)
                continue
            n += 1
            # [var-int length] [u8 id] value...
            body = [t for t in trace if t[0] != "write_var_int" or trace.index(t) > 0]
            vals = [t[1] for t in body[1:]] if body and body[0][0] == "write_u8" and isinstance(body[0][1], int) else None
            def uncast(x):
                while isinstance(x, Sym) and isinstance(x.tag, tuple) and len(x.tag) == 3 and x.tag[0] == "cast" and x.tag[2] in ("usize", "u64", "u32"):
                    x = Sym(x.tag[1])         # a widening cast carries the value
                return x
            good = vals is not None and [vkey_(uncast(x)) for x in vals] == [vkey_(x) for x in want]
            R.check(good, "T-propid", "%s/%s/encode-value" % (ent["name"], fld["name"]),
                    "%s with only `%s` set writes %s (expected: the length prefix, the identifier byte, then the value as it is: %s)" % (
                        ent["name"], fld["name"], [(t[0], t[1]) for t in trace][:5], want), where=fid)
    R.floor("T-propid", "(set, field) encode evaluations", n, 40)


def t_props_whole(F, R):
    """Each property-set decoder evaluated as a whole function -- whatever sits before, inside or after its loop -- on blocks
    holding exactly one allowed property: the result is Ok(set) with exactly that one field filled in and every other field at
    its default; the empty block gives the default set without reading anything; a declared length one short of the property's
    size gives InvalidPropertyLength(declared length)."""
    discr, ents = _analyse(F)
    n = 0
    for ent in ents:
        fid = ent["decode"]
        try:
            tab, loop = probe_table(F, fid)
        except AnchorLost:
            continue
        dflt, rd0 = _whole_block(F, fid, 0, 0)
        okk = dflt[0] == "ok" and isinstance(dflt[1], Adt) and not rd0
        R.check(okk, "T-props", "%s/whole/empty-block" % ent["name"],
                "%s on an empty property block gives %s after reads %s (expected the default set, nothing read)" % (ent["name"], repr(dflt)[:160], rd0), where=fid)
        if not okk:
            continue
        base = dflt[1]
        for v, d in sorted(discr.items(), key=lambda kv: kv[1]):
            if d not in S.props_of(ent["packet"]) or tab[v]["outcome"] != ("continue",):
                continue
            size = 1 + sum(_WIRE_SIZE[k] for k in tab[v]["reads"])
            n += 1
            got, rd = _whole_block(F, fid, d, size)
            good = got[0] == "ok" and isinstance(got[1], Adt) and got[1].adt == base.adt
            changed = []
            if good:
                changed = [f for f in base.fields if vkey_(got[1].fields.get(f)) != vkey_(base.fields[f])]
                good = len(changed) == 1 and rd == tab[v]["reads"]
            if good:
                val = got[1].fields.get(changed[0])
                good = _carried(val)
                if not good:
                    R.fail("T-props", "%s/whole/%s/value" % (ent["name"], v),
                           "%s: the %s it stores is %r -- a function of the value read, not the value" % (ent["name"], v, val), where=fid)
                    continue
            R.check(good, "T-props", "%s/whole/%s" % (ent["name"], v),
                    "%s on a block holding exactly one %s (%d bytes) gives %s, fields changed %s, reads %s (expected Ok with exactly one field "
                    "filled in after reads %s)" % (ent["name"], v, size, repr(got)[:160], changed, rd, tab[v]["reads"]), where=fid)
            short, _rd = _whole_block(F, fid, d, size - 1)
            R.check(short[0] == "err" and short[1] == "InvalidPropertyLength" and short[2] == [size - 1], "T-props", "%s/whole/%s/short" % (ent["name"], v),
                    "%s on a block declared %d bytes long that holds one %s of %d bytes gives %s (documented: InvalidPropertyLength(%d))" % (
                        ent["name"], size - 1, v, size, repr(short)[:120], size - 1), where=fid)
    # two different properties in one block do not interfere: both are stored (no shared "seen" slot, no ordering rule)
    m = 0
    for ent in ents:
        fid = ent["decode"]
        try:
            tab, loop = probe_table(F, fid)
        except AnchorLost:
            continue
        dflt, _rd0 = _whole_block(F, fid, 0, 0)
        if dflt[0] != "ok" or not isinstance(dflt[1], Adt):
            continue
        base = dflt[1]
        allowed = [(v, d) for v, d in sorted(discr.items(), key=lambda kv: kv[1])
                   if d in S.props_of(ent["packet"]) and tab[v]["outcome"] == ("continue",)]
        bad = []
        for v1, d1 in allowed:
            for v2, d2 in allowed:
                if v1 == v2:
                    continue
                m += 1
                r1, r2 = tab[v1]["reads"], tab[v2]["reads"]
                size = 2 + sum(_WIRE_SIZE[k] for k in r1) + sum(_WIRE_SIZE[k] for k in r2)
                got, rd = _whole_block(F, fid, d1, size, second=(d2, sum(1 for k in r1 if k == "byte"), len(r1)))
                good = got[0] == "ok" and isinstance(got[1], Adt)
                if good:
                    changed = [f for f in base.fields if vkey_(got[1].fields.get(f)) != vkey_(base.fields[f])]
                    good = len(changed) == 2 and rd == r1 + r2
                if not good:
                    bad.append((v1, v2, repr(got)[:100]))
        R.check(not bad, "T-props", "%s/whole/pairs" % ent["name"],
                "%s: %d ordered pair(s) of different allowed properties in one block are not both stored, e.g. %s then %s gives %s" % (
                    (ent["name"], len(bad)) + (bad[0] if bad else ("", "", ""))), where=fid)
    R.floor("T-props", "whole-function (set, property) evaluations", n, 60)
    R.floor("T-props", "whole-function property pairs", m, 400)


def h_topicvals(F, R):
    """A Response Topic is accepted exactly when TopicName's constructor accepts the string that was read: the iteration reads one
    string, hands it to the constructor, stores the constructor's result and makes no other decision on the value; when the
    constructor refuses, the iteration ends in InvalidResponseTopic (evaluated per property loop that allows the property)."""
    discr, ents = _analyse(F)
    n = 0
    for ent in ents:
        try:
            tab, loop = probe_table(F, ent["decode"])
        except AnchorLost:
            continue
        r = tab.get("ResponseTopic")
        if not r or r["outcome"] != ("continue",):
            continue
        n += 1
        st = r["stores"]
        okk = r["reads"] == ["utf8"] and not r["decisions"] and len(st) == 1 and st[0][0] == "response_topic" \
            and isinstance(st[0][1], Sym) and isinstance(st[0][1].tag, tuple) and st[0][1].tag[0] == "validated"
        R.check(okk, "H-topicvals", "%s/accept" % ent["name"],
                "%s: a Response Topic is decoded with reads %s, decisions %s, stores %s (expected: one string read, handed to TopicName's "
                "constructor, its result stored, no other condition on the value)" % (ent["name"], r["reads"], r["decisions"][:2], st), where=loc(loop))
        bad = r.get("invalid-name") or {}
        out = bad.get("outcome")
        R.check(out is not None and out[0] == "err" and out[1] == "InvalidResponseTopic" and not bad.get("stores"), "H-topicvals", "%s/refuse" % ent["name"],
                "%s: when TopicName's constructor refuses the string the iteration gives %s, stores %s (documented: InvalidResponseTopic, nothing stored)" % (
                    ent["name"], out, bad.get("stores")), where=loc(loop))
    R.floor("H-topicvals", "property loops with a response topic", n, 2)


def h_proplen(F, R):   # noqa: F811
    """The declared property length is compared for equality with the accounted length on every accepting
    path: the read-side summary leaves no unconstrained loop-exit value, and the block consumes exactly
    var-int(P) + P bytes."""
    discr, ents = _analyse(F)
    n = 0
    for ent in ents:
        it = ent.get("read")
        if it is None:
            R.fail("H-proplen", "%s/anchor-lost" % ent["name"], "cannot summarise %s" % ent["decode"], where=ent["decode"])
            continue
        n += 1
        R.check(not it.free_syms, "H-proplen", "%s/exact-length-check" % ent["name"],
                "%s: after the property loop the accounted length is never required to equal the declared one "
                "(no `declared != accounted -> Err(InvalidPropertyLength)`): a block that does not exactly fill its declared length is accepted" % ent["name"],
                where=ent["decode"])
    fid = "v5::subscribe::Unsubscribe::decode_async"
    try:
        it = summarise_decoder(F, fid, [Opaque("reader"), PathVal(("header",))])
        if it.loops and any("property_len" in l["cond"] or "expected" in l["cond"] for l in it.loops) or len(it.loops) > 1:
            n += 1
            R.check(not it.free_syms, "H-proplen", "Unsubscribe-inline/exact-length-check",
                    "v5 Unsubscribe::decode_async: the accounted property length is never required to equal the declared one", where=fid)
    except Unsupported as e:
        R.fail("H-proplen", "Unsubscribe-inline/unsupported", "cannot summarise %s: %s" % (fid, e), where=fid)
    R.floor("H-proplen", "property loops", n, 15)
