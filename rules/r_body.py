"""Body-decoder rules: L-consume (bytes consumed == remaining length), T-bits / H-valid (flag bit
layouts and validators), L-cover (every length-bearing field is written), L-short (short forms)."""
import re

import spec_mqtt as S
from facts import strip, lit_value, pp, pp_pat, loc, path_of
from norm import nbody, walk_all, unblock
from report import AnchorLost
from tables import const_eval
from lensum import (Interp, PathVal, Opaque, Poly, Unsupported, summarise_encode, summarise_len, g_val, fmt_path,
                    refine_default, enc_default_const)
from lenread import summarise_decoder
from r_len import encodable_impls

ACCOUNTED = [
    ("v3::publish::Publish::decode_async", "header"),
    ("v3::subscribe::Subscribe::decode_async", "len"),
    ("v3::subscribe::Suback::decode_async", "len"),
    ("v3::subscribe::Unsubscribe::decode_async", "len"),
    ("v5::publish::Publish::decode_async", "header"),
    ("v5::subscribe::Subscribe::decode_async", "header"),
    ("v5::subscribe::Suback::decode_async", "header"),
    ("v5::subscribe::Unsubscribe::decode_async", "header"),
    ("v5::subscribe::Unsuback::decode_async", "header"),
]


def l_consume(F, R):
    """Decoders that account for the remaining length consume exactly that many bytes on every accepting
    path, every loop iteration reads exactly what it subtracts, and an iteration subtracts at least 1."""
    n = 0
    for fid, kind in ACCOUNTED:
        if fid not in F.fns:
            R.fail("L-consume", "%s/anchor-lost" % fid, "decoder %s not found" % fid)
            continue
        arg = PathVal(("header",)) if kind == "header" else g_val(("remaining_len",))
        want = g_val(("header", "remaining_len")) if kind == "header" else g_val(("remaining_len",))
        try:
            it = summarise_decoder(F, fid, [Opaque("reader"), arg])
        except Unsupported as e:
            R.fail("L-consume", "%s/unsupported" % fid, "L-unsupported: cannot summarise %s: %s" % (fid, e), where=fid)
            continue
        for a in it.assumptions:
            R.assume(a)
        tot = it.resolve(it.consumed)
        n += 1
        R.check((tot - want).is_zero(), "L-consume", "%s/total" % fid,
                "%s consumes %s bytes on an accepting path, the frame has %s: it reads into the next packet or leaves bytes behind" % (fid, tot, want),
                where=fid, detail={"consumed": repr(tot)})
        for lp in it.loops:
            d = lp["consumed"] - lp["decrease"]
            R.check(d.is_zero(), "L-consume", "%s/loop/%s" % (fid, lp["cond"][:40]),
                    "%s: loop `%s` reads %s bytes per iteration but subtracts %s" % (fid, lp["cond"], lp["consumed"], lp["decrease"]), where=lp["fn_loc"])
            from r_props import _min_value
            R.check(_min_value(lp["decrease"]) >= 1, "L-consume", "%s/loop-progress/%s" % (fid, lp["cond"][:40]),
                    "%s: loop `%s` may not make progress" % (fid, lp["cond"]), where=lp["fn_loc"])
        if "Publish" in fid:
            R.sample({"rule": "L-consume", "decoder": fid, "consumed": repr(tot)})
    R.floor("L-consume", "accounted decoders", n, 9)
    R.note("L-consume: CONNECT, CONNACK, the PUBACK family, DISCONNECT and AUTH do not account for the remaining length "
           "(leniency L9); the strict decoder's exact-fill test (H-exactfill) covers them")


# the reads whose bytes the decoder charges to the frame's budget *before* reading them on today's tree (confirmed by reading):
# the packet identifier of a QoS 1/2 PUBLISH.  A frame whose remaining length ends before the identifier is then refused with
# InvalidRemainingLength by every front-end; charged afterwards, the stream front-ends would first read two bytes of whatever follows.
PRECHARGED = {
    "v3::publish::Publish::decode_async": "common::utils::read_u16",
    "v5::publish::Publish::decode_async": "common::utils::read_u16",
}


def l_precharge(F, R):
    """In the PUBLISH decoders the packet identifier is charged to the remaining length before it is read: at each read_u16 the
    budget local already equals header.remaining_len minus (bytes consumed so far + 2), on every path that reaches it."""
    n = 0
    for fid, prim in sorted(PRECHARGED.items()):
        if fid not in F.fns:
            R.fail("L-precharge", "%s/anchor-lost" % fid, "decoder %s not found" % fid)
            continue
        try:
            it = summarise_decoder(F, fid, [Opaque("reader"), PathVal(("header",))])
        except Unsupported as e:
            R.fail("L-precharge", "%s/unsupported" % fid, "L-unsupported: cannot summarise %s: %s" % (fid, e), where=fid)
            continue
        evs = [c for c in it.charges if c[0] == prim]
        n += len(evs)
        bad = [c for c in evs if c[2] != "pre"]
        R.check(evs and not bad, "L-precharge", "%s/%s" % (fid, prim.rsplit("::", 1)[1]),
                "%s: %d of its %d %s read(s) happen before the remaining length was charged for them (status %s): a frame that ends before "
                "the packet identifier is no longer refused with InvalidRemainingLength before the transport is read" % (
                    fid, len(bad), len(evs), prim.rsplit("::", 1)[1], sorted({c[2] for c in bad}) or "no such read"), where=fid)
    R.floor("L-precharge", "pre-charged reads", n, 2)


# ---- checked_sub discipline (H-valid part) ------------------------------------------------------------------------

def h_checked_sub(F, R):
    """Every remaining-length decrement by a decoded quantity is `checked_sub(..).ok_or(InvalidRemainingLength)?`."""
    n = 0
    for fid, _k in ACCOUNTED:
        b = nbody(F, fid)
        if b is None:
            continue
        for x in walk_all(b):
            if x.get("k") == "Call" and x["fn"].get("name") == "checked_sub":
                n += 1
        for x in walk_all(b):
            if x.get("k") == "Try":
                inner = strip(x["e"])
                if inner.get("k") == "Call" and inner["fn"].get("name") == "ok_or" and strip(inner["args"][0]).get("k") == "Call" \
                        and strip(inner["args"][0])["fn"].get("name") == "checked_sub":
                    err = pp(strip(inner["args"][1]))
                    R.check(err == "Error::InvalidRemainingLength{}", "H-valid", "%s/checked_sub-error/%s" % (fid, pp(strip(inner["args"][0]))[:50]),
                            "%s reports a remaining-length underflow as %s" % (fid, err), where=loc(x))
    R.floor("H-valid", "checked_sub sites", n, 4)


# ---- T-bits: CONNECT flags, subscription options, CONNACK flags ------------------------------------------------

def _or_assigns(F, body, varname):
    """[(guard description, constant or shift description)] for `var |= ..` statements in an encode body."""
    out = []
    from r_poll import _parents, _ancestors
    par = _parents(body)
    for x in walk_all(body):
        if x.get("k") == "AssignOp" and x["op"] == "BitOrAssign" and pp(strip(x["l"])) == varname:
            guards = []
            for a in _ancestors(par, x):
                if a.get("k") == "If":
                    c = unblock(a["cond"])
                    if c.get("k") == "Let":
                        guards.append("some(%s)" % pp(strip(_peel_as_ref(c["e"]))).lstrip("*"))
                    elif c.get("k") == "Call" and c["fn"].get("name") == "is_some":
                        guards.append("some(%s)" % pp(strip(c["args"][0])).lstrip("*"))
                    else:
                        guards.append(pp(strip(c)).lstrip("*"))
            r = x["r"]
            cv = const_eval(r)
            if cv is not None:
                out.append((tuple(reversed(guards)), cv))
            else:
                rr = strip(r)
                if rr.get("k") == "Binary" and rr["op"] == "Shl":
                    out.append((tuple(reversed(guards)), ("shl", pp(strip(rr["l"])), const_eval(rr["r"]))))
                else:
                    out.append((tuple(reversed(guards)), ("expr", pp(rr))))
    return out


def _peel_as_ref(e):
    e = strip(e)
    while e.get("k") == "Call" and e["fn"].get("name") in ("as_ref", "as_deref") and len(e["args"]) == 1:
        e = strip(e["args"][0])
    return e


def t_bits(F, R):
    C = S.CONNECT_FLAGS
    for fam, clean in (("v3", "clean_session"), ("v5", "clean_start")):
        fid = F.impl_method("Encodable", "%s::connect::Connect" % fam, "encode")
        b = nbody(F, fid)
        got = sorted(_or_assigns(F, b, "connect_flags"), key=repr)
        want = sorted([
            (("self.%s" % clean,), C["clean"]),
            (("some(self.username)",), C["username"]),
            (("some(self.password)",), C["password"]),
            (("some(self.last_will)",), C["will"]),
            (("some(self.last_will)",), ("shl", "(*last_will.qos as u8)", C["will_qos_shift"])),
            (("some(self.last_will)", "last_will.retain"), C["will_retain"]),
        ], key=repr)
        got_n = sorted([(tuple(g.replace("*", "") for g in gs), (v if not isinstance(v, tuple) else (v[0], v[1].replace("*", ""), v[2]))) for gs, v in got], key=repr)
        want_n = sorted([(gs, (v if not isinstance(v, tuple) else (v[0], v[1].replace("*", ""), v[2]))) for gs, v in want], key=repr)
        R.check(got_n == want_n, "T-bits", "%s/connect-flags-encode" % fam,
                "%s CONNECT flags are assembled as %s; specification: %s" % (fam, got_n, want_n), where=fid)
        # the initial value and the single write_u8 of the flags
        init_ok = any(s["k"] == "Let" and s["pat"].get("name") == "connect_flags" and const_eval(s["init"]) == 0
                      for x in walk_all(b) if x.get("k") == "Block" for s in x.get("stmts", []))
        R.check(init_ok, "T-bits", "%s/connect-flags-init" % fam, "connect_flags does not start at 0", where=fid)
        # decode
        dfid = "%s::connect::Connect::decode_with_protocol" % fam
        db = nbody(F, dfid)
        masks = _decode_masks(db, "connect_flags")
        want_d = {clean: ("Ne", C["clean"], 0), "username": ("Ne", C["username"], 0), "password": ("Ne", C["password"], 0),
                  "last_will": ("Ne", C["will"], 0)}
        for fld, w in want_d.items():
            R.check(masks.get(fld) == w, "T-bits", "%s/connect-flags-decode/%s" % (fam, fld),
                    "%s CONNECT decoder derives `%s` from %s; specification: flags & %#04x != 0" % (fam, fld, masks.get(fld), w[1]), where=dfid)
        # reserved bit, will qos without will, will qos extraction, will retain
        txt = pp(db)
        res = _guarded_error(db, "connect_flags", C["reserved"])
        R.check(res == "InvalidConnectFlags", "H-valid", "%s/connect-reserved-bit" % fam,
                "%s CONNECT decoder does not reject the reserved flag bit with InvalidConnectFlags(flags)" % fam, where=dfid)
        res = _guarded_error(db, "connect_flags", C["will_qos_mask"])
        R.check(res == "InvalidConnectFlags", "H-valid", "%s/connect-willqos-without-will" % fam,
                "%s CONNECT decoder does not reject Will QoS bits without the Will flag" % fam, where=dfid)
        qos_ok = "common::types::QoS::from_u8(((connect_flags BitAnd %d) Shr %d))" % (C["will_qos_mask"], C["will_qos_shift"]) in txt
        R.check(qos_ok, "T-bits", "%s/connect-willqos-decode" % fam, "%s CONNECT decoder does not read Will QoS as (flags & 0x18) >> 3 through QoS::from_u8" % fam, where=dfid)
        ret_ok = "((connect_flags BitAnd %d) Ne 0)" % C["will_retain"] in txt
        R.check(ret_ok, "T-bits", "%s/connect-willretain-decode" % fam, "%s CONNECT decoder does not read Will Retain as flags & 0x20 != 0" % fam, where=dfid)
    # v5 subscription options
    O = S.SUB_OPTIONS
    fid = "v5::subscribe::SubscriptionOptions::to_u8"
    b = nbody(F, fid)
    got = sorted([(tuple(g.replace("*", "") for g in gs), v if not isinstance(v, tuple) else (v[0], v[1].replace("*", ""), v[2])) for gs, v in _or_assigns(F, b, "byte")], key=repr)
    want = sorted([(("self.no_local",), O["no_local"]), (("self.retain_as_published",), O["retain_as_published"]),
                   ((), ("shl", "(self.retain_handling as u8)", O["retain_handling_shift"]))], key=repr)
    R.check(got == want, "T-bits", "v5/subscription-options-encode", "subscription options are assembled as %s; specification %s" % (got, want), where=fid)
    init = [pp(strip(s["init"])).replace("*", "") for x in walk_all(b) if x.get("k") == "Block" for s in x.get("stmts", []) if s["k"] == "Let" and s["pat"].get("name") == "byte"]
    R.check(init == ["(self.max_qos as u8)"], "T-bits", "v5/subscription-options-qos", "subscription options start from %s" % init, where=fid)
    dfid = "v5::subscribe::Subscribe::decode_async"
    db = nbody(F, dfid)
    txt = pp(db)
    checks = {
        "reserved": "if ((opt_byte BitAnd %d) Gt 0) { { return Result::Err{0: ErrorV5::InvalidSubscriptionOption{0: opt_byte}} } }" % O["reserved"],
        "qos": "common::types::QoS::from_u8((opt_byte BitAnd %d))" % O["qos_mask"],
        "no_local": "((opt_byte BitAnd %d) Eq %d)" % (O["no_local"], O["no_local"]),
        "rap": "((opt_byte BitAnd %d) Eq %d)" % (O["retain_as_published"], O["retain_as_published"]),
        "rh": "v5::subscribe::RetainHandling::from_u8(((opt_byte BitAnd %d) Shr %d))" % (O["retain_handling_mask"], O["retain_handling_shift"]),
    }
    for k, s in checks.items():
        alt = s.replace("Gt 0", "Ne 0")
        R.check(s in txt or alt in txt, "T-bits", "v5/subscription-options-decode/%s" % k,
                "v5 SUBSCRIBE decoder lacks `%s`" % s[:90], where=dfid)
    errs = [pp(x) for x in walk_all(db) if x.get("k") == "Adt" and x.get("variant") == "InvalidSubscriptionOption"]
    R.check(len(errs) >= 2 and all(e == "ErrorV5::InvalidSubscriptionOption{0: opt_byte}" for e in errs), "H-valid", "v5/subscription-option-errors",
            "subscription option errors: %s" % errs, where=dfid)
    # v3 SUBSCRIBE: the requested-QoS byte goes to QoS::from_u8 unmasked (reserved bits must be zero)
    dfid = "v3::subscribe::Subscribe::decode_async"
    db = nbody(F, dfid)
    q = [x for x in walk_all(db) if x.get("k") == "Call" and x["fn"].get("def") == "common::types::QoS::from_u8"]
    ok = len(q) == 1
    if ok:
        a = strip(q[0]["args"][0])
        while a.get("k") in ("Try", "Await"):
            a = strip(a["e"])
        ok = a.get("k") == "Call" and a["fn"].get("def") == "common::utils::read_u8" or a.get("k") == "Var"
        if a.get("k") == "Var":
            # the variable must be bound directly from read_u8
            ok = any(s["k"] == "Let" and s["pat"].get("name") == a["var"]["name"] and "read_u8" in pp(s["init"]) and "BitAnd" not in pp(s["init"])
                     for x in walk_all(db) if x.get("k") == "Block" for s in x.get("stmts", []))
    R.check(ok, "H-valid", "v3/subscribe-qos-byte-unmasked",
            "v3 SUBSCRIBE decoder does not pass the whole requested-QoS byte to QoS::from_u8: reserved bits 2..7 would be ignored", where=dfid)
    # CONNACK flags byte: 0 -> false, 1 -> true, else InvalidConnackFlags(byte)
    for fam in ("v3", "v5"):
        dfid = "%s::connect::Connack::decode_async" % fam
        db = nbody(F, dfid)
        m = next((x for x in walk_all(db) if x.get("k") == "Match" and x.get("src") == "Normal" and pp(strip(x["scrut"])) == "payload[0]"), None)
        ok = m is not None
        if ok:
            t = {}
            for arm in m["arms"]:
                t[pp_pat(arm["pat"])] = pp(unblock(arm["body"]))
            ok = t.get("=0") == "false" and t.get("=1") == "true" and "InvalidConnackFlags{0: payload[0]}" in t.get("_", "")
        R.check(ok, "H-valid", "%s/connack-flags" % fam, "%s CONNACK flags byte is not decoded as 0->false, 1->true, else InvalidConnackFlags(byte)" % fam, where=dfid)
        # encode side: session_present as 0/1
    # pid validation: packet identifiers only through Pid::try_from
    n = 0
    from r_io import all_bodies
    for fid, f, b in all_bodies(F):
        if "decode" not in f["root"]:
            continue
        for x in walk_all(b):
            if x.get("k") == "Let" or x.get("k") == "Block":
                pass
    R.trust("u8::from(bool) is 0/1")


def _decode_masks(body, flags):
    """field name -> (op, mask, const) for `let field = (flags & M) op C` / `if (flags & M) op C {Some..} else {None}`."""
    out = {}
    for x in walk_all(body):
        if x.get("k") != "Block":
            continue
        for s in x.get("stmts", []):
            if s["k"] != "Let" or s["pat"].get("k") != "Binding":
                continue
            init = unblock(s["init"])
            c = init["cond"] if init.get("k") == "If" else init
            c = unblock(c)
            if c.get("k") == "Binary" and c["op"] in ("Ne", "Eq", "Gt"):
                l = strip(c["l"])
                l = unblock(l)
                if l.get("k") == "Binary" and l["op"] == "BitAnd" and pp(strip(l["l"])) == flags:
                    out[s["pat"]["name"]] = (c["op"], const_eval(l["r"]), const_eval(c["r"]))
    return out


def _guarded_error(body, flags, mask):
    """Error variant returned under `if (flags & mask) != 0` (as then-branch or else-if)."""
    for x in walk_all(body):
        if x.get("k") == "If":
            c = unblock(x["cond"])
            if c.get("k") == "Binary" and c["op"] in ("Ne", "Gt") and const_eval(c["r"]) == 0:
                l = unblock(strip(c["l"]))
                if l.get("k") == "Binary" and l["op"] == "BitAnd" and pp(strip(l["l"])) == flags and const_eval(l["r"]) == mask:
                    errs = [y for y in walk_all(x["then"]) if y.get("k") == "Adt" and y.get("adt") == "common::error::Error"]
                    if len(errs) == 1 and pp(strip(errs[0]["fields"][0]["e"])) == flags and any(y.get("k") == "Return" for y in walk_all(x["then"])):
                        # the then-branch must not be the will-present branch
                        return errs[0]["variant"]
    return None


# ---- L-cover --------------------------------------------------------------------------------------------------------

LEN_TYPES = ("alloc::string::String", "bytes::bytes::Bytes", "common::types::TopicName", "common::types::TopicFilter", "alloc::vec::Vec<u8>")


def l_cover(F, R):
    """Every length-bearing field of an encodable struct contributes its bytes to the encoding, and whether
    it is written depends only on the field itself: a text/binary field f contributes len(f) (under some(f)
    when optional), a list contributes a per-element sum, a sub-structure contributes enc(f) whenever it is
    not its Default. (A field that silently drops out for some values breaks decode-encode-decode.)"""
    n = 0
    enc_types = {ty for ty, *_ in encodable_impls(F)}
    for ty, enc, ln, imp in encodable_impls(F):
        a = F.adts.get(ty)
        if a is None or a["kind"] != "struct":
            continue
        try:
            w, _ = summarise_encode(F, enc)
        except Unsupported:
            continue   # reported by L-eq
        for fl in a["variants"][0]["fields"]:
            fty = fl["ty"]
            name = fl["name"]
            path = ("self", name)
            opt = fty.startswith("core::option::Option<")
            inner = fty[len("core::option::Option<"):-1] if opt else fty
            inner = re.sub(r"^alloc::sync::Arc<(.*)>$", r"\1", inner)
            kind = None
            if inner in LEN_TYPES:
                kind = "len"
            elif inner.startswith("alloc::vec::Vec<"):
                kind = "sum"
            elif inner in enc_types:
                kind = "enc"
            if kind is None:
                continue
            n += 1
            gens = [(atoms, g, c) for (atoms, g), c in w.m.items() if g is not None and _gen_path(g) == path and g[0] == kind]
            if not gens:
                R.fail("L-cover", "%s/%s/missing" % (ty, name), "%s: field `%s` (%s) never contributes to the encoded bytes" % (ty, name, fty), where=imp["sp"])
                continue
            # split on default(path): in the not-default case the contribution must be unconditional (besides some(path))
            wp = w.subst_atom(("default", path), False)
            bad = []
            tot = 0
            for (atoms, g), c in wp.m.items():
                if g is None or _gen_path(g) != path or g[0] != kind:
                    continue
                extra = {at for at in atoms if not (at[0] == "some" and at[1] == path)}
                if extra:
                    bad.append(sorted(map(repr, extra)))
                else:
                    tot += c if kind != "sum" else 0
            if kind == "sum":
                tot = 1
            R.check(not bad and tot == 1, "L-cover", "%s/%s" % (ty, name),
                    "%s: whether `%s` is written depends on %s (coefficient %s): a value with that field set can be encoded without it" % (ty, name, bad[:2], tot),
                    where=imp["sp"])
    R.floor("L-cover", "length-bearing fields", n, 60)


def _gen_path(g):
    if g[0] in ("len", "val"):
        return g[1]
    if g[0] == "enc":
        return g[2]
    if g[0] == "sum":
        return g[1]
    return None
