"""L rules: encode/encode_len agreement (L-eq), header assembly (L-hdr), fixed-array fast paths and
packet-level dispatch (L-fixed), refusal of oversize packets (S-refuse), debug-assertion independence
(S-dbg), and the control-byte table (T-ctl, used by C10)."""
import re

import spec_mqtt as S
from facts import strip, lit_value, pp, loc, path_of
from norm import nbody, walk_all, unblock
from report import AnchorLost
from lensum import (Interp, PathVal, Opaque, Poly, Unsupported, summarise_encode, summarise_len,
                    refine_default, witness, g_enc, g_varint, fmt_gen)
from tables import const_eval, pat_values


def encodable_impls(F):
    out = []
    for imp in F.impls_of("Encodable"):
        enc = [i["def"] for i in imp["items"] if i["name"] == "encode"]
        ln = [i["def"] for i in imp["items"] if i["name"] == "encode_len"]
        if len(enc) == 1 and len(ln) == 1:
            out.append((imp["self_ty"], enc[0], ln[0], imp))
    return out


# ---- L-eq ------------------------------------------------------------------------------------------

def l_eq(F, R):
    """For every `impl Encodable`: bytes written by `encode` == value of `encode_len`, as multilinear
    polynomials over field-presence / variant atoms, i.e. for every combination of optional fields,
    properties, reason codes, and any number of list elements."""
    impls = encodable_impls(F)
    R.floor("L-eq", "impl Encodable", len(impls), 35)
    known_types = {ty for ty, *_ in impls}
    for ty, enc, ln, imp in impls:
        key = ty
        try:
            w, iw = summarise_encode(F, enc)
            l, il = summarise_len(F, ln)
        except Unsupported as e:
            R.fail("L-eq", "%s/unsupported" % key,
                   "L-unsupported: cannot summarise %s: %s" % (ty, e), where=imp["sp"])
            continue
        for a in iw.assumptions | il.assumptions:
            R.assume(a)
        d = w - l
        if not d.is_zero():
            from lensum import onehot_normalise
            enums = dict(iw.enums)
            enums.update(il.enums)
            d = onehot_normalise(F, d, enums)
        residual = [x for x in refine_default(F, d) if not x.is_zero()] if not d.is_zero() else []
        if residual:
            wit = witness(residual[0])
            R.fail("L-eq", key,
                   "%s: bytes written by encode and the value of encode_len differ by %s when %s" % (
                       ty, wit["difference"],
                       " and ".join(wit["true"] + ["not " + x for x in wit["false"]]) or "always"),
                   where=imp["sp"], detail={"encode": repr(w), "encode_len": repr(l), "witness": wit})
        else:
            R.ok("L-eq", key, {"bytes": repr(w)[:400]})
        # assume/guarantee: every enc<T>() used is itself an obligation of this run
        for p in (w, l):
            for (_a, g) in p.m:
                if g is not None and g[0] == "enc" and g[1] not in known_types:
                    R.fail("L-eq", "%s/enc-of-unknown-type/%s" % (key, g[1]),
                           "%s relies on the length of %s, which has no checked Encodable impl" % (ty, g[1]))
        if ty.endswith(("::Puback", "::Auth", "::Connect", "::PublishProperties")) or ty.endswith("Protocol"):
            R.sample({"rule": "L-eq", "type": ty, "encode": repr(w)[:600], "encode_len": repr(l)[:600]})
    R.trust("io::Write::write_all writes exactly len bytes on Ok")
    R.trust("String::len / Bytes::len / slice::len are byte lengths; Vec::len is the element count")
    R.trust("64-bit usize: sums of field lengths of an in-memory packet do not overflow")
    R.analysed["encodable_impls"] = len(impls)


# ---- L-hdr + S-refuse ------------------------------------------------------------------------------

def _hdr_eval(F, fid):
    """encode_packet evaluated as a whole (helpers included): the size check comes first and its error leaves the function
    before anything is written; then exactly the control byte, the variable byte integer of body.encode_len() and the body's
    own encoding go into one buffer, in that order, and that buffer is returned."""
    from peval import PE, Sym, Tup, Adt, Undecided, ok, err, UNIT, vkey
    from r_pe import result_kind

    def run(size_ok):
        log = []

        def hook(d, res, args, node, env):
            r = res or d
            name = node["fn"].get("name")
            if name == "encode_len" and len(args) == 1 and args[0] == Sym("BODY"):
                return Sym("N")
            if r == "common::utils::total_len":
                log.append(("total_len", vkey(args[0])))
                return ok(Sym("TOTAL")) if size_ok else err(Sym("TOO-LARGE"))
            if name in ("with_capacity", "new") and "vec" in d.lower():
                return Tup([])
            if name == "len" and len(args) == 1 and isinstance(args[0], Tup):
                return Sym("TOTAL")
            if r == "common::utils::write_u8" and isinstance(args[0], Tup):
                args[0].items.append(args[1])
                return ok(UNIT)
            if r == "common::utils::write_var_int" and isinstance(args[0], Tup):
                args[0].items.append(("varint", vkey(args[1])))
                return ok(UNIT)
            if name == "encode" and len(args) == 2 and args[0] == Sym("BODY") and isinstance(args[1], Tup):
                args[1].items.append(("enc", "BODY"))
                return ok(UNIT)
            if name in ("write_all", "extend_from_slice", "extend") and args and isinstance(args[0], Tup):
                raise Undecided("raw write into the packet buffer")
            return None
        pe = PE(F, call_hook=hook, cond_hook=lambda what, node: True if what[0] == "try-ok" else None, fuel=400)
        r = pe.call_fn(fid, [Sym("CB"), Sym("BODY")])
        return result_kind(r), log, pe
    try:
        k, log, pe = run(True)
        good = k[0] == "ok" and isinstance(k[1], Tup) and [vkey(x) if not isinstance(x, tuple) else x for x in k[1].items] == \
            [vkey(Sym("CB")), ("varint", vkey(Sym("N"))), ("enc", "BODY")] and log == [("total_len", vkey(Sym("N")))] \
            and not any(ev[0] == "panic" for ev in pe.events)
        k2, log2, _pe2 = run(False)
        good = good and k2[0] == "err" and k2[1] == Sym("TOO-LARGE")
        return good
    except Undecided:
        return False
    except Exception:
        return False


def l_hdr(F, R):
    """encode_packet: 1 control byte, var-int of exactly body.encode_len(), then body.encode(); the
    total_len(..)? refusal precedes every write; nothing else writes the buffer."""
    fid = "common::utils::encode_packet"
    it = Interp(F, "write")
    try:
        it.run_fn(fid, [Opaque("control_byte"), PathVal(("body",))])
    except Unsupported as e:
        R.fail("L-hdr", "unsupported", "L-unsupported: cannot summarise encode_packet: %s" % e, where=fid)
        return
    body_len = None
    for (_a, g) in it.written.m:
        if g is not None and g[0] == "enc":
            body_len = Poly.gen(g)
    if body_len is None:
        R.fail("L-hdr", "no-body", "encode_packet does not write the body", where=fid)
        return
    want = Poly.const(1) + g_varint(body_len) + body_len
    R.check((it.written - want).is_zero(), "L-hdr", "bytes",
            "encode_packet emits %s bytes; a packet is 1 + varint(remaining) + remaining = %s" % (it.written, want), where=fid)
    kinds = [t[0] for t in it.trace if t[0] != "debug_assert"]
    kinds = ["varint" if k == "item" else k for k in kinds]
    if _hdr_eval(F, fid):
        R.ok("L-hdr", "order", "evaluated: size check, then control byte, remaining length (= body.encode_len()), body, in that order, into one buffer")
        R.ok("L-hdr", "same-length", "evaluated")
        R.ok("L-hdr", "control-byte", "evaluated")
    else:
        R.check(kinds == ["total_len", "push", "varint", "enc"], "L-hdr", "order",
                "encode_packet performs %s; expected total_len check, control byte, remaining length, body" % kinds, where=fid)
        tl = [t for t in it.trace if t[0] == "total_len"]
        vi = [t for t in it.trace if t[0] == "item" and t[1] == "write_var_int"]
        R.check(len(tl) == 1 and len(vi) == 1 and tl[0][1] == vi[0][4] == repr(body_len), "L-hdr", "same-length",
                "the length checked by total_len (%s), the length written (%s) and body.encode_len() differ" % (
                    tl[0][1] if tl else None, vi[0][4] if vi else None), where=fid)
        pushes = [t for t in it.trace if t[0] == "push"]
        R.check(len(pushes) == 1 and pushes[0][1] == "control_byte", "L-hdr", "control-byte",
                "encode_packet pushes %s" % [p[1] for p in pushes], where=fid)
    # nothing else touches the buffer: every use of the Vec<u8> under construction is one of the three writes (or reads its length)
    b = nbody(F, fid)
    allowed = {"push", "write_var_int", "encode", "len", "with_capacity", "new", "capacity", "is_empty"}
    work, done = [fid], set()
    while work:
        cur = work.pop()
        if cur in done or cur not in F.fns or not F.fns[cur].get("thir"):
            continue
        done.add(cur)
        for n in walk_all(nbody(F, cur)):
            if n.get("k") == "Call" and n["args"]:
                touches = any("alloc::vec::Vec<u8>" in ((a.get("ty") or "") + (strip(a).get("ty") or "")) for a in n["args"])
                nm = n["fn"].get("name")
                callee = n["fn"].get("res") or n["fn"].get("def")
                if touches and callee in F.fns and callee != "common::utils::write_var_int" and F.fns[callee].get("thir") and \
                        not (n["fn"].get("trait") or "").endswith("Encodable"):
                    work.append(callee)         # a helper of the crate that receives the buffer: the same rule applies inside it
                    continue
                if touches and nm not in allowed and not any(x.split("::")[-1].startswith("debug_assert") for x in (n.get("exp") or [])):
                    R.fail("L-hdr", "buffer-use/%s" % nm,
                           "%s applies `%s` to the packet buffer: besides pushing the control byte, writing the remaining length and "
                           "letting the body encode itself, nothing may modify or re-window the buffer" % (cur, n["fn"].get("def") or nm), where=loc(n))
    # S-refuse: total_len(..) is under `?` (its Err leaves the function) and precedes the first write
    def _tl_try(body, depth=0):
        for n in walk_all(body):
            if n.get("k") == "Try":
                c = strip(n["e"])
                if c.get("k") == "Call" and c["fn"].get("def") == "common::utils::total_len":
                    return True
                callee = (c["fn"].get("res") or c["fn"].get("def")) if c.get("k") == "Call" else None
                if callee in F.fns and depth < 2:
                    hb = nbody(F, callee)           # a helper of the crate whose own error is propagated with `?`
                    if hb is not None and _tl_try(hb, depth + 1):
                        return True
        return False
    tl_try = _tl_try(b)
    R.check(tl_try, "S-refuse", "encode_packet/total_len-propagated",
            "encode_packet does not propagate total_len's error with `?`", where=fid)
    R.check(bool(kinds) and kinds[0] == "total_len", "S-refuse", "encode_packet/refuse-before-write",
            "encode_packet writes before checking the size", where=fid)
    # total_len rejects >= 2^28 (T-width rule of C15 checks the table itself); here: its else arm is Err
    from r_pe import pw_table
    tab, _c = pw_table(F, "common::utils::total_len", extra={268435454, 268435455, 268435456, 268435457})
    R.check(tab.get(268435455, ("?",))[0] == "lin" and tab.get(268435456) == ("err", "InvalidVarByteInt") and tab.get(268435457) == ("err", "InvalidVarByteInt"),
            "S-refuse", "total_len/limit", "total_len does not return Err(InvalidVarByteInt) exactly for remaining length >= 268435456", where="common::utils::total_len")
    R.sample({"rule": "L-hdr", "written": repr(it.written), "trace": [list(map(str, t)) for t in it.trace]})


# ---- match self { Variant(..) => .. } helper --------------------------------------------------------

def self_match(F, fid):
    b = nbody(F, fid)
    if b is None:
        raise AnchorLost(fid)
    for n in walk_all(b):
        if n.get("k") == "Match" and n.get("src") == "Normal":
            s = strip(n["scrut"])
            if s.get("k") == "Var" and s["var"]["name"] == "self":
                return b, n
    raise AnchorLost("%s: match self" % fid)


def arm_variants(arm):
    """[(variant, {binding name -> field idx})] for an arm pattern over an enum."""
    out = []

    def one(p):
        while p.get("k") == "Deref":
            p = p["sub"]
        if p.get("k") == "Or":
            for q in p["pats"]:
                one(q)
            return
        if p.get("k") == "Variant":
            b = {}
            for s in p["subs"]:
                q = s["pat"]
                while q.get("k") == "Deref":
                    q = q["sub"]
                if q.get("k") == "Binding":
                    b[q["var"]["id"]] = s["idx"]
            out.append((p["variant"], b))
            return
        if p.get("k") in ("Wild", "Binding"):
            out.append(("*", {}))
            return
        raise AnchorLost("arm pattern kind %s" % p.get("k"))
    one(arm["pat"])
    return out


def _packet_enums(F):
    return [p for p in ("v3::packet::Packet", "v5::packet::Packet") if p in F.adts]


def _array_items(e):
    e = strip(e)
    if e.get("k") == "Array":
        return e["items"]
    return None


def _encode_with_pid_shape(F, R):
    """encode_with_pid(cb, pid) == [cb, 2, hi(pid), lo(pid)]"""
    fid = "v3::packet::encode_with_pid"
    b = nbody(F, fid)
    if b is None:
        raise AnchorLost(fid)
    arr = None
    for n in walk_all(b):
        if n.get("k") == "Array" and len(n["items"]) == 4:
            arr = n
    if arr is None:
        raise AnchorLost("encode_with_pid: 4-element array")
    it = arr["items"]
    ok = pp(strip(it[0])) == "control_byte" and const_eval(it[1]) == 2
    hi, lo = pp(it[2]), pp(it[3])
    ok_hi = bool(re.search(r"Shr 8\)", hi)) and "val" in hi
    ok_lo = ("BitAnd 255" in lo or lo == "(val as u8)") and "val" in lo
    # val = pid.value()
    val_ok = any(n.get("k") == "Call" and n["fn"].get("def") == "common::types::Pid::value" for n in walk_all(b))
    R.check(ok and ok_hi and ok_lo and val_ok, "L-fixed", "encode_with_pid/layout",
            "encode_with_pid builds [%s] instead of [control_byte, 2, pid>>8, pid&0xFF]" % ", ".join(pp(x) for x in it),
            where=loc(arr))
    return ok and ok_hi and ok_lo and val_ok


def packet_encode_table(F, enum_path):
    """variant -> {"kind": dynamic|fixed, "cb": control byte expr info, "inner": binding idx, "len": n, "arm": arm}"""
    fam = enum_path.split("::")[0]
    fid = "%s::packet::Packet::encode" % fam
    b, m = self_match(F, fid)
    table = {}
    for arm in m["arms"]:
        vs = arm_variants(arm)
        if arm.get("guard"):
            raise AnchorLost("%s: the arm for %s is guarded (%s): packet-level encoding then has a second path for that "
                             "packet type that bypasses the body's Encodable::encode / encode_len" % (
                                 fid, [v for v, _ in vs], pp(unblock(arm["guard"]))[:100]))
        body = arm["body"]
        info = {"arm": arm, "fid": fid}
        calls = [n for n in walk_all(body) if n.get("k") == "Call"]
        ep = [c for c in calls if c["fn"].get("def") == "common::utils::encode_packet"]
        ewp = [c for c in calls if c["fn"].get("def") == "%s::packet::encode_with_pid" % fam]
        arrays = [n for n in walk_all(body) if n.get("k") == "Array"]
        vb = [n for n in walk_all(body) if n.get("k") == "Adt" and n.get("adt") == "common::types::VarBytes"]
        if len(ep) == 1:
            info["kind"] = "dynamic"
            info["cb"] = ep[0]["args"][0]
            inner = strip(ep[0]["args"][1])
            info["inner_var"] = inner["var"]["id"] if inner.get("k") == "Var" else None
            info["vb"] = [v["variant"] for v in vb]
        elif len(ewp) == 1:
            info["kind"] = "fixed"
            info["len"] = 4
            info["cb"] = ewp[0]["args"][0]
            info["via"] = "encode_with_pid"
            info["vb"] = [v["variant"] for v in vb]
        elif len(arrays) == 1:
            info["kind"] = "fixed"
            items = arrays[0]["items"]
            info["len"] = len(items)
            info["cb"] = items[0]
            info["declared"] = const_eval(items[1]) if len(items) > 1 else None
            info["items"] = items
            info["vb"] = [v["variant"] for v in vb]
        else:
            raise AnchorLost("%s: arm for %s is neither encode_packet(..), encode_with_pid(..) nor a byte array" % (fid, vs))
        for v, binds in vs:
            info2 = dict(info)
            info2["binds"] = binds
            table[v] = info2
    return fid, b, m, table


def l_fixed(F, R):
    """Packet::encode / Packet::encode_len agree per variant: fixed arrays have length 2 + their literal
    remaining-length byte and encode_len returns that constant; dynamic variants pass the same inner
    body to encode_packet and to total_len(inner.encode_len())."""
    n_arms = 0
    _encode_with_pid_shape(F, R)
    for enum_path in _packet_enums(F):
        fam = enum_path.split("::")[0]
        fid, b, m, table = packet_encode_table(F, enum_path)
        variants = [v["name"] for v in F.adts[enum_path]["variants"]]
        # encode_len table
        lfid = "%s::packet::Packet::encode_len" % fam
        lb, lm = self_match(F, lfid)
        ltab = {}
        for arm in lm["arms"]:
            body = unblock(arm["body"])
            for v, binds in arm_variants(arm):
                ent = {"arm": arm, "binds": binds}
                if body.get("k") == "Return":
                    okv = None
                    for n in walk_all(body):
                        if n.get("k") == "Adt" and n.get("variant") == "Ok" and n["fields"]:
                            okv = const_eval(n["fields"][0]["e"])
                    ent["const"] = okv
                elif body.get("k") == "Call" and (body["fn"].get("trait") or "").endswith("Encodable") and body["fn"]["name"] == "encode_len":
                    recv = strip(body["args"][0])
                    ent["inner_var"] = recv["var"]["id"] if recv.get("k") == "Var" else None
                    ent["inner_ty"] = body["fn"].get("self_ty")
                else:
                    raise AnchorLost("%s: arm body %s" % (lfid, pp(body)[:80]))
                ltab[v] = ent
        # the non-returning arms feed total_len(remaining_len)
        tl_ok = any(n.get("k") == "Call" and n["fn"].get("def") == "common::utils::total_len" for n in walk_all(lb))
        R.check(tl_ok, "L-fixed", "%s/encode_len-total_len" % fam, "%s does not size the header with total_len" % lfid, where=lfid)
        for v in variants:
            n_arms += 1
            e, l = table.get(v) or table.get("*"), ltab.get(v) or ltab.get("*")
            if e is None or l is None:
                R.fail("L-fixed", "%s/%s/missing" % (fam, v), "Packet::%s has no arm in encode or encode_len" % v, where=fid)
                continue
            if e["kind"] == "fixed":
                declared = e.get("declared", 2 if e.get("via") else None)
                ok = declared is not None and e["len"] == 2 + declared
                R.check(ok, "L-fixed", "%s/%s/array-length" % (fam, v),
                        "Packet::%s is emitted as a %d-byte array whose remaining-length byte says %r" % (v, e["len"], declared), where=loc(e["arm"]))
                R.check(l.get("const") == e["len"], "L-fixed", "%s/%s/encode_len" % (fam, v),
                        "Packet::%s: encode emits %d bytes but encode_len returns %r" % (v, e["len"], l.get("const", "total_len(inner.encode_len())")), where=loc(l["arm"]))
                want_vb = "Fixed%d" % e["len"]
                R.check(want_vb in e["vb"], "L-fixed", "%s/%s/container" % (fam, v),
                        "Packet::%s: %d-byte array wrapped in %s" % (v, e["len"], e["vb"]), where=loc(e["arm"]))
            else:
                # same field of the same variant on both sides
                ei = e["binds"].get(e.get("inner_var"))
                li = l["binds"].get(l.get("inner_var")) if "inner_var" in l else None
                R.check(ei is not None and ei == li, "L-fixed", "%s/%s/same-body" % (fam, v),
                        "Packet::%s: encode passes field %r to encode_packet, encode_len measures %s" % (
                            v, ei, ("field %r" % li) if "inner_var" in l else ("constant %r" % l.get("const"))), where=loc(l["arm"]))
        R.sample({"rule": "L-fixed", "family": fam, "table": {v: (t["kind"], t.get("len")) for v, t in table.items()}})
    R.floor("L-fixed", "Packet variants", n_arms, 29)


# ---- T-ctl --------------------------------------------------------------------------------------------

def t_ctl(F, R):
    """Control byte per Packet variant == (type nibble << 4 | required flags) of the OASIS tables;
    PUBLISH: base 0x30, QoS in bits 2..1 per QosPid variant, DUP 0x08 iff dup, RETAIN 0x01 iff retain."""
    n = 0
    for enum_path in _packet_enums(F):
        fam = enum_path.split("::")[0]
        spec = S.PACKET_TYPES_V3 if fam == "v3" else S.PACKET_TYPES_V5
        by_name = {name: (nib, fl) for nib, (name, fl) in spec.items()}
        fid, b, m, table = packet_encode_table(F, enum_path)
        variants = [v["name"] for v in F.adts[enum_path]["variants"]]
        R.check(set(variants) == set(by_name), "T-ctl", "%s/variants" % fam,
                "%s has variants %s; specification has %s" % (enum_path, sorted(variants), sorted(by_name)))
        for v in variants:
            if v not in by_name:
                continue
            n += 1
            nib, fl = by_name[v]
            e = table.get(v)
            if e is None:
                R.fail("T-ctl", "%s/%s/missing" % (fam, v), "no encode arm for %s" % v, where=fid)
                continue
            if fl == "publish":
                _publish_control_byte(F, R, fam, e, nib)
                continue
            cb = const_eval(e["cb"])
            R.check(cb == (nib << 4 | fl), "T-ctl", "%s/%s" % (fam, v),
                    "Packet::%s is emitted with control byte %s; specification %#04x" % (
                        v, ("%#04x" % cb) if cb is not None else pp(e["cb"]), nib << 4 | fl), where=loc(e["arm"]))
        # get_type: Packet variant <-> PacketType variant of the same name
        gfid = "%s::packet::Packet::get_type" % fam
        gb, gm = self_match(F, gfid)
        for arm in gm["arms"]:
            tgt = [x["variant"] for x in walk_all(arm["body"]) if x.get("k") == "Adt" and x.get("adt") == "%s::packet::PacketType" % fam]
            for v, _b in arm_variants(arm):
                R.check(tgt == [v], "T-ctl", "%s/get_type/%s" % (fam, v),
                        "Packet::%s.get_type() is %s" % (v, tgt), where=loc(arm))
    R.floor("T-ctl", "control bytes", n, 29)


def _publish_control_byte(F, R, fam, e, nib):
    arm = e["arm"]
    cbv = strip(e["cb"])
    if cbv.get("k") != "Var":
        R.fail("T-ctl", "%s/Publish/shape" % fam, "PUBLISH control byte is not a computed variable", where=loc(arm))
        return
    vid = cbv["var"]["id"]
    base = {}
    ors = []
    for n in walk_all(arm["body"]):
        if n.get("k") == "Block":
            for s in n.get("stmts", []):
                if s["k"] == "Let" and s["pat"].get("k") == "Binding" and s["pat"]["var"]["id"] == vid:
                    init = unblock(s["init"])
                    if init.get("k") == "Match":
                        sp = path_of(init["scrut"])
                        for a in init["arms"]:
                            for v, _b in arm_variants(a):
                                base[v] = (const_eval(a["body"]), sp)
        if n.get("k") == "If":
            for mm in walk_all(n["then"]):
                if mm.get("k") == "AssignOp" and mm["op"] == "BitOrAssign" and strip(mm["l"]).get("k") == "Var" \
                        and strip(mm["l"])["var"]["id"] == vid:
                    ors.append((path_of(n["cond"]), const_eval(mm["r"])))
        if n.get("k") in ("Assign", "AssignOp") and strip(n["l"]).get("k") == "Var" and strip(n["l"])["var"]["id"] == vid \
                and not (n["k"] == "AssignOp" and n["op"] == "BitOrAssign"):
            R.fail("T-ctl", "%s/Publish/other-write" % fam, "PUBLISH control byte is modified by %s" % pp(n)[:80], where=loc(n))
    want = {"Level0": nib << 4, "Level1": nib << 4 | 1 << 1, "Level2": nib << 4 | 2 << 1}
    got = {k: v[0] for k, v in base.items()}
    R.check(got == want and all(v[1] and v[1][-1] == "qos_pid" for v in base.values()), "T-ctl", "%s/Publish/qos-bits" % fam,
            "PUBLISH base control byte per QosPid is %s; specification %s" % (got, want), where=loc(arm))
    ors_n = sorted(((p[-1] if p else None), c) for p, c in ors)
    R.check(ors_n == [("dup", 0x08), ("retain", 0x01)], "T-ctl", "%s/Publish/dup-retain" % fam,
            "PUBLISH flag bits set as %s; specification dup=0x08, retain=0x01" % ors_n, where=loc(arm))


# ---- S-dbg --------------------------------------------------------------------------------------------

def s_dbg(F, R):
    """Statements that exist only under debug assertions (expansions of debug_assert*) contain no write
    and no assignment: behaviour with and without debug assertions differs only by panics that (by L-eq)
    cannot fire."""
    n = 0
    for fid, f in F.fns.items():
        if not f.get("thir"):
            continue
        b = nbody(F, fid)
        if b is None:
            continue
        for node in walk_all(b):
            exp = node.get("exp") or []
            if not any(x.split("::")[-1].startswith("debug_assert") for x in exp):
                continue
            k = node.get("k")
            if k in ("Assign", "AssignOp"):
                R.fail("S-dbg", "%s/assign" % fid, "assignment inside a debug assertion: %s" % pp(node)[:80], where=loc(node))
            if k == "Call":
                d = node["fn"].get("def", "")
                nm = node["fn"].get("name")
                if d.startswith("common::utils::write_") or nm in ("write_all", "push", "encode", "set_len", "take"):
                    R.fail("S-dbg", "%s/effect/%s" % (fid, nm), "side effect inside a debug assertion: %s" % pp(node)[:80], where=loc(node))
                if any(a.get("k") == "Borrow" and a.get("mut") for a in node["args"]):
                    R.fail("S-dbg", "%s/mut-borrow/%s" % (fid, nm), "mutable borrow inside a debug assertion: %s" % pp(node)[:80], where=loc(node))
            n += 1
    debug_sites = set()
    for fid, f in F.fns.items():
        b = nbody(F, fid)
        if b is None:
            continue
        for node in walk_all(b):
            for x in node.get("exp") or []:
                if x.split("::")[-1].startswith("debug_assert"):
                    debug_sites.add((fid, node.get("sp")))
    R.ok("S-dbg", "debug-assert-sites", {"sites": len(debug_sites), "nodes_scanned": n})
    R.floor("S-dbg", "debug_assert sites", len(debug_sites), 3)
