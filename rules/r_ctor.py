"""Who-may-construct / invariant rules (C12, C17, C18), the CONNECT protocol gate (C13)."""
import spec_mqtt as S
from facts import strip, lit_value, pp, pp_pat, loc, path_of
from norm import nbody, walk_all, unblock
from report import AnchorLost
from tables import const_eval
from r_io import all_bodies, callgraph, closure_of, decode_roots, _closure_body
from r_poll import _parents, _ancestors

VALIDATED = {
    "common::types::Pid": {"ctor_trait": "TryFrom", "allowed": {"try_from", "default", "add", "sub"}},
    "common::types::TopicName": {"ctor_trait": "TryFrom", "allowed": {"try_from"}},
    "common::types::TopicFilter": {"ctor_trait": "TryFrom", "allowed": {"try_from"}},
    "v5::types::VarByteInt": {"ctor_trait": "TryFrom", "allowed": {"try_from", "default"}},
}


# ---- H-priv ---------------------------------------------------------------------------------------------

def h_priv(F, R):
    """Fields of the validated types are private to their module and no impl hands out a way around the
    validating constructor (From<raw>, DerefMut, AsMut, a `&mut` accessor)."""
    for path in VALIDATED:
        a = F.adts.get(path)
        if a is None:
            raise AnchorLost(path)
        for fl in a["variants"][0]["fields"]:
            R.check(fl["vis"].startswith("in:") and fl["vis"] == "in:" + a["module"], "H-priv", "%s/field-%s" % (path, fl["name"]),
                    "%s.%s is visible as `%s`: code outside %s could build an unvalidated value" % (a["name"], fl["name"], fl["vis"], a["module"]), where=a["sp"])
        for imp in F.impls:
            if imp.get("self_adt") != path:
                continue
            tr = imp.get("trait") or ""
            tail = tr.rsplit("::", 1)[-1]
            if tail in ("DerefMut", "AsMut", "BorrowMut", "IndexMut"):
                R.fail("H-priv", "%s/impl-%s" % (path, tail), "%s implements %s: the inner value can be mutated after validation" % (a["name"], tail), where=imp["sp"])
            if tail == "From":
                R.fail("H-priv", "%s/impl-From/%s" % (path, imp.get("trait_ref")), "%s implements %s: an infallible constructor bypasses validation" % (a["name"], imp.get("trait_ref")), where=imp["sp"])
            if tr == "" or tr is None:
                for it in imp["items"]:
                    f = F.fns.get(it["def"])
                    if f and f.get("thir"):
                        out = f["thir"]["body_ty"].get("output", "")
                        if "&mut" in out:
                            R.fail("H-priv", "%s/mut-accessor/%s" % (path, it["name"]), "%s::%s returns %s" % (a["name"], it["name"], out), where=f["sp"])
        R.ok("H-priv", "%s/impls-scanned" % path)
    # the arbitrary feature derives constructors that skip validation: they must not be reachable from decoders
    arb = [i for i in F.impls if (i.get("trait") or "").endswith("Arbitrary") and i.get("self_adt") in VALIDATED]
    if arb:
        dec = closure_of(F, decode_roots(F))
        reach = [it["def"] for i in arb for it in i["items"] if it["def"] in dec]
        R.check(not reach, "H-priv", "arbitrary-unreachable-from-decoders",
                "derived Arbitrary constructors of validated types are reachable from a decoder: %s" % reach[:3])
        R.note("feature `arbitrary`: %d derived constructors of validated types exist (fuzzing only); none is reachable from a decoder entry point" % len(arb))


# ---- H-ctor ---------------------------------------------------------------------------------------------

def h_ctor(F, R):
    """Construction-site exclusivity: `Pid(_)`, `TopicName(_)`, `TopicFilter{..}`, `VarByteInt(_)` are built
    only inside their validating constructor (behind the rejection) or in listed arithmetic/default impls."""
    sites = {p: [] for p in VALIDATED}
    for fid, f, b in all_bodies(F):
        for x in walk_all(b):
            if x.get("k") == "Adt" and x.get("adt") in VALIDATED:
                sites[x["adt"]].append((fid, f, x))
    for path, lst in sites.items():
        name = path.rsplit("::", 1)[1]
        for fid, f, x in lst:
            fname = f.get("name")
            derived = f.get("impl_derived")
            tr = (f.get("impl_trait") or "").rsplit("::", 1)[-1]
            if derived and tr in ("Clone",):
                continue
            if tr == "Arbitrary":
                continue   # fuzzing-only feature; reachability from decoders is checked by H-priv
            ok = f.get("impl_adt") == path and fname in VALIDATED[path]["allowed"]
            R.check(ok, "H-ctor", "%s/site/%s" % (name, f["root"]),
                    "%s is constructed in %s, outside its validating constructor: decoded packets may then carry an invalid %s" % (name, f["root"], name), where=loc(x))
        R.floor("H-ctor", "%s construction sites" % name, len([1 for fid, f, x in lst if (f.get("impl_trait") or "").rsplit("::", 1)[-1] != "Arbitrary"]), 1)
    # field writes: a validated value is never modified in place outside its constructor / arithmetic impls
    # (`self.shared_filter_sep = 0` would make two filters with the same text answer the accessors differently)
    for fid, f, b in all_bodies(F):
        tr = (f.get("impl_trait") or "").rsplit("::", 1)[-1]
        if tr == "Arbitrary" or (f.get("impl_derived") and tr == "Clone"):
            continue
        for x in walk_all(b):
            if x.get("k") in ("Assign", "AssignOp"):
                l = strip(x["l"])
                while l.get("k") in ("Deref",):
                    l = strip(l["e"])
                if l.get("k") == "Field" and l.get("adt") in VALIDATED:
                    path = l["adt"]
                    name = path.rsplit("::", 1)[1]
                    okk = f.get("impl_adt") == path and f.get("name") in VALIDATED[path]["allowed"] | {"add_assign", "sub_assign"}
                    R.check(okk, "H-ctor", "%s/field-write/%s" % (name, f["root"]),
                            "%s.%s is assigned in %s, outside the validating constructor: values that passed validation are changed afterwards" % (
                                name, l.get("name"), f["root"]), where=loc(x))
    # the validating constructors themselves, evaluated (r_pe3)
    import r_pe3
    r_pe3.h_ctor_values(F, R)
    _default_valid(F, R)


def _pid_ctor(F, R):
    fid = F.impl_method("TryFrom", "common::types::Pid", "try_from")
    b = unblock(nbody(F, fid))
    ok = False
    if b.get("k") == "If":
        c = unblock(b["cond"])
        zero = c.get("k") == "Binary" and c["op"] == "Eq" and pp(strip(c["l"])) == "value" and const_eval(c["r"]) == 0
        thn, els = pp(unblock(b["then"])), pp(unblock(b["else"])) if b.get("else") else ""
        ok = zero and thn == "Result::Err{0: Error::ZeroPid{}}" and els == "Result::Ok{0: Pid::Pid{0: value}}"
        nz = c.get("k") == "Binary" and c["op"] in ("Ne", "Gt") and pp(strip(c["l"])) == "value" and const_eval(c["r"]) == 0
        ok = ok or (nz and els == "Result::Err{0: Error::ZeroPid{}}" and thn == "Result::Ok{0: Pid::Pid{0: value}}")
    R.check(ok, "H-ctor", "Pid/try_from", "Pid::try_from is not `value == 0 -> Err(ZeroPid), else Ok(Pid(value))`: %s" % pp(b)[:160], where=fid)


def _topic_ctor(F, R, name, err):
    path = "common::types::" + name
    fid = F.impl_method("TryFrom", path, "try_from")
    b = nbody(F, fid)
    # the predicate call on the same string that is stored
    calls = [x for x in walk_all(b) if x.get("k") == "Call" and x["fn"].get("def") == path + "::is_invalid"]
    R.check(len(calls) == 1 and pp(strip(peel_as_str(calls[0]["args"][0]))) == "value", "H-ctor", "%s/validates-argument" % name,
            "%s::try_from does not call is_invalid on its own argument exactly once" % name, where=fid)
    ifs = [x for x in walk_all(b) if x.get("k") == "If"]
    ok = False
    if len(ifs) == 1:
        i = ifs[0]
        c = unblock(i["cond"])
        cond_src = pp(strip(c))
        thn, els = unblock(i["then"]), unblock(i["else"]) if i.get("else") else {}
        err_ok = pp(thn) == "Result::Err{0: Error::%s{0: value}}" % err
        built = [x for x in walk_all(els) if x.get("k") == "Adt" and x.get("adt") == path]
        ok_built = len(built) == 1 and any(pp(strip(f["e"])) == "alloc::sync::Arc::<T>::new(value)" for f in built[0]["fields"])
        if name == "TopicName":
            ok = err_ok and ok_built and c is not None and c.get("k") == "Call" and c is calls[0] if calls else False
        else:
            # (is_invalid, shared_filter_sep) = is_invalid(value); if is_invalid {Err} else {Ok(TopicFilter{inner, shared_filter_sep})}
            sep_ok = len(built) == 1 and any(f["name"] == "shared_filter_sep" and pp(strip(f["e"])) == "shared_filter_sep" for f in built[0]["fields"])
            let_ok = False
            for x in walk_all(b):
                if x.get("k") == "Block":
                    for s in x.get("stmts", []):
                        if s["k"] == "Let" and s.get("init") is not None and strip(s["init"]) is (calls[0] if calls else None) and s["pat"].get("k") == "Leaf":
                            names = [q["pat"].get("name") for q in s["pat"]["subs"]]
                            let_ok = names == [cond_src, "shared_filter_sep"]
            ok = err_ok and ok_built and sep_ok and let_ok
    R.check(ok, "H-ctor", "%s/try_from" % name,
            "%s::try_from is not `is_invalid(value) -> Err(%s(value)), else Ok(%s{Arc::new(value)..})` with the validator's own result" % (name, err, name), where=fid)


def peel_as_str(e):
    e = strip(e)
    while e.get("k") == "Call" and e["fn"].get("name") in ("as_str", "deref", "as_ref", "borrow") and len(e["args"]) == 1:
        e = strip(e["args"][0])
    return e


def _default_valid(F, R):
    dv = F.impl_method("Default", "v5::types::VarByteInt", "default")
    if dv:
        b = unblock(nbody(F, dv))
        inner = strip(b["fields"][0]["e"]) if b.get("k") == "Adt" and b["fields"] else {}
        v = const_eval(inner)
        isdef = inner.get("k") == "Call" and inner["fn"].get("name") == "default" and (inner.get("ty") == "u32")
        R.check((v is not None and v < 268435456) or isdef, "H-ctor", "VarByteInt/default", "VarByteInt::default() is %s" % pp(b)[:80], where=dv)


# ---- H-utf8 / S-unsafe(read_string) ------------------------------------------------------------------------

def user_unsafe_blocks(F):
    out = []
    for fid, f, b in all_bodies(F):
        for x in walk_all(b):
            if x.get("k") == "Block" and x.get("safety") == "ExplicitUnsafe":
                exp = x.get("exp") or []
                if any(e.startswith("desugar:") for e in exp):
                    continue
                out.append((fid, f, x))
    return out


def _walk_straight(e):
    """Nodes evaluated unconditionally when `e` is evaluated (no descent into branches, loops, closures)."""
    stack = [e]
    while stack:
        n = stack.pop()
        if not isinstance(n, dict):
            continue
        yield n
        if n.get("k") in ("If", "Match", "Loop", "While", "For", "Closure", "Logical"):
            # only the condition / scrutinee is unconditional
            for key in ("cond", "scrut", "iter", "l"):
                if isinstance(n.get(key), dict):
                    stack.append(n[key])
            continue
        for key, v in n.items():
            if key in ("fn", "var", "pat", "poll_fn", "iter_fn", "next_fn", "eq_fn", "residual_fn"):
                continue
            if isinstance(v, dict):
                stack.append(v)
            elif isinstance(v, list):
                stack.extend(x for x in v if isinstance(x, dict))


def h_utf8(F, R):
    """Strings in decoded packets come only from read_string, whose single unchecked construction is
    dominated by a successful simdutf8 validation of the very same buffer."""
    fid = "common::utils::read_string"
    b = nbody(F, fid)
    if b is None:
        raise AnchorLost(fid)
    import r_pe3
    r_pe3.h_utf8_values(F, R)
    # no other unchecked / lossy string construction anywhere in the crate
    n = 0
    for f2, f, bb in all_bodies(F):
        for x in walk_all(bb):
            if x.get("k") == "Call" and x["fn"].get("name") in ("from_utf8_unchecked", "from_utf8_lossy", "from_raw_parts", "from_utf8_unchecked_mut") \
                    and ("String" in (x["fn"].get("def") or "") or "str" in (x["fn"].get("def") or "")):
                n += 1
                R.check(f["root"] == fid, "H-utf8", "unchecked-site/%s" % f["root"], "%s constructs text with %s" % (f["root"], x["fn"]["def"]), where=loc(x))
    R.floor("H-utf8", "unchecked string constructions", n, 1)
    # every String-typed field of a decoded packet is fed from read_string: all crate calls producing String
    # in the decode closure are read_string (or pure conversions of its result)
    dec = closure_of(F, decode_roots(F))
    makers = set()
    for d in sorted(dec):
        f = F.fns.get(d)
        if not f or not f.get("thir"):
            continue
        bb = nbody(F, d) if f["kind"] != "Closure" else _closure_body(F, d)
        for x in walk_all(bb):
            if x.get("k") == "Call" and (x.get("ty") or "") in ("alloc::string::String",) and x["fn"].get("krate") != "mqtt_proto":
                makers.add((x["fn"].get("def"), f["root"]))
    allowed_makers = {"alloc::string::String::from_utf8_unchecked", "alloc::str::<impl alloc::borrow::ToOwned for str>::to_owned",
                      "alloc::borrow::ToOwned::to_owned", "alloc::string::ToString::to_string",
                      "<T as core::convert::Into<U>>::into", "alloc::string::ToString::to_string", "core::convert::Into::into"}
    for d, root in sorted(makers):
        R.check(d in allowed_makers, "H-utf8", "string-maker/%s/%s" % (root, d), "%s creates a String with %s on a decode path" % (root, d))
    R.trust("simdutf8::basic::from_utf8 returns Ok only for valid UTF-8")


def s_unsafe(F, R):
    """Inventory of user-written unsafe blocks; each must be one of the audited shapes."""
    blocks = user_unsafe_blocks(F)
    seen = []
    for fid, f, x in blocks:
        calls = [y["fn"].get("def") for y in walk_all(x) if y.get("k") == "Call"]
        shape = tuple(c for c in calls if c)
        key = "%s/%s" % (f["root"], "+".join(c.rsplit("::", 1)[1] for c in shape) or "no-call")
        seen.append(key)
        if f["root"] == "common::utils::read_string" and shape == ("alloc::string::String::from_utf8_unchecked",):
            R.ok("S-unsafe", key, "discharged by H-utf8 (validated before unchecked)")
        elif f["root"].endswith("::poll") and shape and shape[0] == "alloc::vec::Vec::<T, A>::set_len":
            # set_len(n) on Vec<MaybeUninit<u8>> created with_capacity(n): no validity requirement on elements
            args = [pp(strip(y["args"][-1])) for y in walk_all(x) if y.get("k") == "Call" and y["fn"].get("name") == "set_len"]
            elem = [y for y in walk_all(x) if y.get("k") == "Call"][0]["args"][0].get("ty", "")
            # that the new length equals the capacity just requested (the remaining length) is decided by P-complete, which
            # evaluates the transition; here: the element type has no validity requirement
            R.check("MaybeUninit<u8>" in elem, "S-unsafe", key, "set_len(%s) on %s" % (args, elem), where=loc(x))
        elif f["root"].endswith("::poll") and shape and shape[0] == "core::intrinsics::transmute":
            tr = [y for y in walk_all(x) if y.get("k") == "Call"][0]
            src = strip(tr["args"][0])
            to = tr.get("ty") or ""
            src_ty = tr["args"][0].get("ty") or ""
            shared = to.startswith("&[u8]") or to == "&[u8]"
            # shared view of the completely filled buffer only (dominated by idx == buf.len(): H-exactfill)
            R.check(shared and "MaybeUninit<u8>" in src_ty and "RangeFull" in pp(src), "S-unsafe", key,
                    "transmute from %s to %s: only the shared view of the whole, completely filled buffer is audited" % (src_ty, to), where=loc(x))
        elif f["root"].endswith("::poll") and shape and "core::slice::raw::from_raw_parts" in shape and \
                set(c.rsplit("::", 1)[1] for c in shape) <= {"from_raw_parts", "cast", "as_ptr", "len"}:
            # the same shared view spelled with from_raw_parts(buf.as_ptr().cast::<u8>(), buf.len()): pointer and length come
            # from one and the same buffer, the element type is MaybeUninit<u8>, the result is a shared &[u8]
            frp = [y for y in walk_all(x) if y.get("k") == "Call" and y["fn"].get("name") == "from_raw_parts"][0]
            bases = set()
            for y in walk_all(frp):
                if y.get("k") == "Call" and y["fn"].get("name") in ("as_ptr", "len") and y["args"]:
                    bases.add(pp(strip(y["args"][0])).lstrip("&*"))
            src_ty = " ".join((y["args"][0].get("ty") or "") for y in walk_all(frp) if y.get("k") == "Call" and y["fn"].get("name") == "as_ptr")
            to = frp.get("ty") or ""
            R.check(len(bases) == 1 and "MaybeUninit<u8>" in src_ty and to.startswith("&[u8]"), "S-unsafe", key,
                    "from_raw_parts over %s of %s to %s: only the shared view of the whole, completely filled buffer is audited" % (sorted(bases), src_ty, to), where=loc(x))
        else:
            R.fail("S-unsafe", "new/" + key, "unaudited unsafe block in %s: %s" % (f["root"], pp(x)[:120]), where=loc(x))
    R.floor("S-unsafe", "user unsafe blocks", len(blocks), 0)
    R.analysed["unsafe_blocks"] = seen
    # no raw-pointer deref, static mut, inline asm in the crate
    bad = []
    from r_io import encode_roots
    scope = closure_of(F, decode_roots(F) + encode_roots(F))
    for fid, f, b in all_bodies(F):
        if fid not in scope and f["root"] not in scope:
            continue
        for x in walk_all(b):
            if x.get("k") in ("InlineAsm", "RawBorrow") or (x.get("k") == "StaticRef" and x.get("mutable")):
                bad.append((f["root"], x.get("k")))
            if x.get("k") == "Deref" and (strip(x["e"]).get("ty") or "").startswith("*"):
                bad.append((f["root"], "raw-deref"))
    R.check(not bad, "S-unsafe", "no-raw-pointers", "raw pointer / asm / static mut use: %s" % bad[:3])


# ---- H-payfmt -----------------------------------------------------------------------------------------------

def h_payfmt(F, R):
    """See r_pe3.h_payfmt_values."""
    import r_pe3
    r_pe3.h_payfmt_values(F, R)


# ---- H-accessors / H-fields / H-tn-read ---------------------------------------------------------------------------

def _fields_read(F, fid, adt):
    b = nbody(F, fid)
    out = set()
    for x in walk_all(b):
        if x.get("k") == "Field" and x.get("adt") == adt:
            out.add(x["name"])
    return out, b


def h_fields(F, R):
    """Eq / Ord / Hash / Display / Deref of TopicFilter are hand-written over the text only."""
    adt = "common::types::TopicFilter"
    want = {"PartialEq": "eq", "Ord": "cmp", "PartialOrd": "partial_cmp", "Hash": "hash", "Display": "fmt", "Deref": "deref"}
    n = 0
    for tr, m in want.items():
        imps = F.impls_of(tr, adt)
        if len(imps) != 1:
            R.fail("H-fields", "%s/impl-count" % tr, "TopicFilter has %d impls of %s" % (len(imps), tr))
            continue
        imp = imps[0]
        R.check(not imp["derived"], "H-fields", "%s/not-derived" % tr,
                "%s for TopicFilter is derived: it then also compares/hashes the cached separator index" % tr, where=imp["sp"])
        fid = [i["def"] for i in imp["items"] if i["name"] == m]
        if not fid:
            R.fail("H-fields", "%s/method" % tr, "no %s::%s" % (tr, m))
            continue
        fields, b = _fields_read(F, fid[0], adt)
        n += 1
        if tr in ("PartialEq", "Ord", "PartialOrd", "Hash"):
            continue      # evaluated on abstract values below
        R.check(fields <= {"inner"}, "H-fields", "%s/fields" % tr,
                "%s for TopicFilter reads fields %s (must depend on the text `inner` only)" % (tr, sorted(fields)), where=fid[0])
    import r_pe3
    r_pe3.h_fields_values(F, R)
    r_pe3.h_display(F, R)
    R.floor("H-fields", "hand-written impls", n, 6)
    # the constructor stores the argument itself
    R.trust("String's own Eq/Ord/Hash/Display depend on the text only")


def h_accessors(F, R):
    """Shared-subscription accessors use nothing but the validator's cached index: is_shared <=> sep > 0;
    group = inner[7..sep]; filter = inner[sep+1..]; None exactly when not shared; 7 == len("$share/")."""
    adt = "common::types::TopicFilter"
    pre = F.const_value("common::SHARED_PREFIX")
    plen = len(pre["str"]) if isinstance(pre, dict) and "str" in pre else None
    R.check(pre == {"str": "$share/"}, "H-accessors", "SHARED_PREFIX", "SHARED_PREFIX is %r" % (pre,))
    b = unblock(nbody(F, adt + "::is_shared"))
    R.check(pp(b) in ("(*self.shared_filter_sep Gt 0)", "(self.shared_filter_sep Gt 0)", "(*self.shared_filter_sep Ne 0)"), "H-accessors", "is_shared",
            "TopicFilter::is_shared is %s" % pp(b)[:80], where=adt + "::is_shared")
    ranges = {}
    for m in ("shared_group_name", "shared_filter", "shared_info"):
        fid = adt + "::" + m
        bb = unblock(nbody(F, fid))
        ok = bb.get("k") == "If" and pp(unblock(bb["cond"])) == "common::types::TopicFilter::is_shared(&*self)" and \
            pp(unblock(bb["else"])) == "Option::None{}"
        R.check(ok, "H-accessors", "%s/guard" % m, "%s is not `if self.is_shared() {Some(..)} else {None}`" % m, where=fid)
        rs = []
        env = {}
        for x in walk_all(bb):
            if x.get("k") == "Block":
                for s in x.get("stmts", []):
                    if s["k"] == "Let" and s["pat"].get("k") == "Binding":
                        env[s["pat"]["name"]] = pp(strip(s["init"]))
        for x in walk_all(bb):
            if x.get("k") == "Call" and x["fn"].get("name") == "index" and "String" in (x["fn"].get("self_ty") or x["fn"].get("res") or ""):
                base = pp(strip(x["args"][0]))
                rng = strip(x["args"][1])
                if rng.get("k") == "Adt":
                    d = {f["name"]: env.get(pp(strip(f["e"])), pp(strip(f["e"]))) for f in rng["fields"]}
                    rs.append((rng["adt"].rsplit("::", 1)[1], d, "self.inner" in base))
        ranges[m] = rs
    sep = "(*self.shared_filter_sep as usize)"
    g = ("Range", {"start": "7", "end": sep}, True)
    fl = ("RangeFrom", {"start": "(%s Add 1)" % sep}, True)
    R.check(ranges["shared_group_name"] == [g], "H-accessors", "group-slice", "shared_group_name slices %s" % ranges["shared_group_name"])
    R.check(ranges["shared_filter"] == [fl], "H-accessors", "filter-slice", "shared_filter slices %s" % ranges["shared_filter"])
    R.check(ranges["shared_info"] == [g, fl], "H-accessors", "info-slices", "shared_info slices %s" % ranges["shared_info"])
    R.check(plen == 7, "H-accessors", "prefix-length", "the constant 7 used by the accessors is not len(SHARED_PREFIX)=%r" % plen)
    # shared_filter_sep is written only by the constructor (H-ctor) from is_invalid's second result
    # the validator's prefix matcher compares exactly len(SHARED_PREFIX) characters and advances the byte index by len_utf8
    vb = nbody(F, adt + "::is_invalid")
    chars = F.const_value(adt + "::is_invalid::SHARED_PREFIX_CHARS")
    want_chars = [{"char": ord(c)} for c in "$share/"]
    R.check(chars == want_chars, "H-accessors", "validator/prefix-chars", "SHARED_PREFIX_CHARS is %r" % (chars,))
    bound = None
    adv = None
    for x in walk_all(vb):
        if x.get("k") == "Binary" and x["op"] == "Lt" and pp(strip(x["l"])) == "char_idx":
            bound = const_eval(x["r"])
        if x.get("k") == "AssignOp" and x["op"] == "AddAssign" and pp(strip(x["l"])) == "byte_idx":
            r = strip(x["r"])
            adv = r["fn"].get("def") if r.get("k") == "Call" else pp(r)
    R.check(bound == 7, "H-accessors", "validator/prefix-bound",
            "the validator compares the first %r characters with \"$share/\" (7): the separator index it caches is then wrong for some filters" % bound, where=adt + "::is_invalid")
    R.check(adv == "core::char::methods::<impl char>::len_utf8", "H-accessors", "validator/byte-index-advance",
            "the validator advances its byte index by %s instead of c.len_utf8(): the cached index is not a byte offset for multi-byte names" % adv, where=adt + "::is_invalid")
    R.note("H-accessors does not decide that the index returned by is_invalid is the '/' ending the share name (C16 territory)")


def h_tn(F, R):
    """TopicName: constructor keeps the text; Deref/Display return it; is_shared/is_sys are prefix tests."""
    adt = "common::types::TopicName"
    import r_pe3
    r_pe3.h_tn_values(F, R)
    r_pe3.h_display(F, R)
    # decode paths that produce a topic name all go through TopicName::try_from(read_string(..)?)
    n = 0
    for fid, f, b in all_bodies(F):
        for x in walk_all(b):
            if x.get("k") == "Call" and x["fn"].get("name") == "try_from" and "TopicName" in (x["fn"].get("self_ty") or ""):
                n += 1
            elif x.get("k") == "Zst" and (x.get("fn") or {}).get("name") == "try_from" and "TopicName" in (x["fn"].get("self_ty") or ""):
                n += 1          # the constructor passed as a function value (`.and_then(TopicName::try_from)`)
    R.floor("H-tn-paths", "TopicName::try_from sites on decode paths", n, 5)
    R.ok("H-tn-paths", "sites", n)


# ---- C13: S-gate / H-protoread / H-compose ---------------------------------------------------------------------------

def s_gate(F, R):
    """Both decode_with_protocol: the version test is the first thing evaluated, its failing edge returns
    UnexpectedProtocol(protocol parameter), nothing is read before it; accepted sets are complementary."""
    from tables import enum_discriminants
    discr = enum_discriminants(F, "common::types::Protocol")
    accepted = {}
    for fam in ("v3", "v5"):
        fid = "%s::connect::Connect::decode_with_protocol" % fam
        b = nbody(F, fid)
        if b is None:
            raise AnchorLost(fid)
        # first effectful statement
        inner = b
        stmts = []

        def flat(blk):
            for s in blk.get("stmts", []):
                if s["k"] == "Let" and s["pat"].get("k") == "Binding" and strip(s.get("init") or {}).get("k") in ("Var", "Upvar") \
                        and s["pat"]["name"] == pp(strip(s["init"])):
                    continue   # `let reader = reader;` parameter moves of the async body
                stmts.append(s)
            e = blk.get("expr")
            if e is not None and e.get("k") == "Block" and not stmts:
                flat(e)
            elif e is not None:
                stmts.append({"k": "Expr", "e": e})
        flat(b)
        first = stmts[0] if stmts else None
        g = first.get("e") if first and first["k"] == "Expr" else None
        ok = g is not None and g.get("k") == "If"
        acc = None
        if ok:
            c = unblock(g["cond"])
            errs = [y for y in walk_all(g["then"]) if y.get("k") == "Adt" and y.get("adt") == "common::error::Error"]
            ok = len(errs) == 1 and errs[0]["variant"] == "UnexpectedProtocol" and pp(strip(errs[0]["fields"][0]["e"])) == "protocol" \
                and any(y.get("k") == "Return" for y in walk_all(g["then"])) and not g.get("else")
            reads = [y for y in walk_all(g) if y.get("k") in ("Await",)]
            ok = ok and not reads
            acc = _gate_accepts(c, discr)
        R.check(ok, "S-gate", "%s/first-statement" % fam,
                "%s does not start with `if <version test> { return Err(UnexpectedProtocol(protocol)) }`: bytes may be consumed before the protocol is checked" % fid,
                where=loc(g) if g else fid)
        accepted[fam] = acc
    R.check(accepted.get("v3") == {"V310", "V311"} and accepted.get("v5") == {"V500"}, "S-gate", "accepted-sets",
            "v3 accepts %s and v5 accepts %s (expected {V310,V311} and {V500})" % (accepted.get("v3"), accepted.get("v5")))


def _gate_accepts(c, discr):
    """Set of Protocol variants for which the rejecting condition is false."""
    if c.get("k") != "Binary":
        return None
    l, r = strip(c["l"]), strip(c["r"])
    out = set()
    for v, d in discr.items():
        if l.get("k") == "Cast" and pp(strip(l["e"])) == "protocol":
            k = const_eval(r)
            if k is None:
                return None
            rej = {"Gt": d > k, "Ge": d >= k, "Lt": d < k, "Le": d <= k, "Eq": d == k, "Ne": d != k}[c["op"]]
        elif pp(l) == "protocol" and r.get("k") == "Adt":
            rej = (v == r["variant"]) if c["op"] == "Eq" else (v != r["variant"])
        else:
            return None
        if not rej:
            out.add(v)
    return out


def h_protoread(F, R):
    fid = "common::types::Protocol::decode_async"
    b = nbody(F, fid)
    calls = [(x["fn"].get("res") or x["fn"].get("def")) for x in walk_all(b) if x.get("k") == "Call" and x["fn"].get("krate") == "mqtt_proto"]
    R.check(calls == ["common::utils::read_bytes", "common::utils::read_u8", "common::types::Protocol::new"], "H-protoread", "reads",
            "Protocol::decode_async performs %s (expected read_bytes, read_u8, Protocol::new)" % calls, where=fid)
    nw = [x for x in walk_all(b) if x.get("k") == "Call" and x["fn"].get("def") == "common::types::Protocol::new"]
    if nw:
        a0, a1 = pp(peel_as_str(nw[0]["args"][0])).lstrip("&*"), pp(strip(nw[0]["args"][1]))
        R.check(a0 == "name_buf" and a1 == "level", "H-protoread", "args", "Protocol::new is called with (%s, %s)" % (a0, a1), where=loc(nw[0]))
    # Protocol::new matches on its raw arguments
    nb = nbody(F, "common::types::Protocol::new")
    m = next((x for x in walk_all(nb) if x.get("k") == "Match" and x.get("src") == "Normal" and x["scrut"].get("k") == "Tuple"), None)
    if m is None:
        raise AnchorLost("Protocol::new match")
    items = [pp(strip(i)) for i in m["scrut"]["items"]]
    R.check(items == ["name", "level"], "H-protoread", "new-matches-raw-arguments",
            "Protocol::new matches on (%s) instead of its arguments (name, level)" % ", ".join(items), where=loc(m))
    for fam in ("v3", "v5"):
        fid = "%s::connect::Connect::decode_async" % fam
        b = nbody(F, fid)
        calls = [(x["fn"].get("res") or x["fn"].get("def")) for x in walk_all(b) if x.get("k") == "Call" and x["fn"].get("krate") == "mqtt_proto"]
        R.check(calls == ["common::types::Protocol::decode_async", "%s::connect::Connect::decode_with_protocol" % fam], "H-compose", fam,
                "%s performs %s" % (fid, calls), where=fid)
        dw = [x for x in walk_all(b) if x.get("k") == "Call" and x["fn"].get("name") == "decode_with_protocol"]
        if dw:
            R.check(pp(strip(dw[0]["args"][-1])) == "protocol", "H-compose", "%s/passes-protocol" % fam, "decode_with_protocol receives %s" % pp(dw[0]["args"][-1]), where=loc(dw[0]))
