"""Engine T: finite tables read from the type-checked program (match arms with evaluated
constant patterns, enum discriminants, if/else-if threshold chains) and helpers to compare them.

Accepted idioms are listed per extractor; anything else raises AnchorLost (fail closed).
"""
from facts import strip, lit_value, pp, loc, path_of
from norm import nbody, walk_all, unblock
from report import AnchorLost


# ---- constant folding over THIR (literals, evaluated named consts, integer ops, casts) --------

def const_eval(e):
    """Integer (or bool) value of a constant THIR expression, else None."""
    e = strip(e)
    if not isinstance(e, dict):
        return None
    k = e.get("k")
    if k in ("Lit", "NamedConst"):
        v = lit_value(e)
        if isinstance(v, (int, bool)):
            return v
        if isinstance(v, tuple) and v[0] == "char":
            return v[1]
        return None
    if k == "Cast":
        v = const_eval(e["e"])
        if v is None:
            return None
        return _wrap(int(v), e["ty"])
    if k == "Block" and not e.get("stmts") and e.get("expr"):
        return const_eval(e["expr"])
    if k == "Binary":
        a, b = const_eval(e["l"]), const_eval(e["r"])
        if a is None or b is None:
            return None
        op = e["op"]
        try:
            r = {
                "Add": lambda: a + b, "Sub": lambda: a - b, "Mul": lambda: a * b,
                "Div": lambda: a // b, "Rem": lambda: a % b,
                "BitAnd": lambda: a & b, "BitOr": lambda: a | b, "BitXor": lambda: a ^ b,
                "Shl": lambda: a << b, "Shr": lambda: a >> b,
                "Eq": lambda: a == b, "Ne": lambda: a != b, "Lt": lambda: a < b,
                "Le": lambda: a <= b, "Gt": lambda: a > b, "Ge": lambda: a >= b,
            }[op]()
        except (KeyError, ZeroDivisionError):
            return None
        if isinstance(r, bool):
            return r
        return _wrap(r, e["ty"])
    if k == "Unary" and e["op"] == "Not":
        v = const_eval(e["e"])
        if isinstance(v, bool):
            return not v
        return None
    if k == "Call":
        fn = e["fn"]
        d = fn.get("def", "")
        # u16::max_value(), u16::MAX via method
        if fn.get("name") == "max_value" and fn.get("impl_self") in _INT_BITS and not e["args"]:
            return (1 << _INT_BITS[fn["impl_self"]]) - 1
        if d.endswith("convert::From<u8> for u32>::from") or fn.get("name") == "from" and len(e["args"]) == 1:
            return const_eval(e["args"][0])
    return None


_INT_BITS = {"u8": 8, "u16": 16, "u32": 32, "u64": 64, "usize": 64}


def _wrap(v, ty):
    bits = _INT_BITS.get(ty)
    if bits is not None:
        return v & ((1 << bits) - 1)
    return v


# ---- patterns -> sets of integer values --------------------------------------------------------

def pat_values(p, domain=range(256)):
    """Set of integer values a pattern matches (within `domain`), or 'any' for catch-alls."""
    k = p.get("k")
    if k in ("Wild",):
        return "any"
    if k == "Binding":
        if p.get("sub"):
            return pat_values(p["sub"], domain)
        return "any"
    if k == "Const":
        v = p.get("val")
        if isinstance(v, dict) and "char" in v:
            v = v["char"]
        if isinstance(v, bool):
            v = int(v)
        if not isinstance(v, int):
            raise AnchorLost("non-integer constant pattern %r" % (v,))
        return {v}
    if k == "Or":
        out = set()
        for q in p["pats"]:
            s = pat_values(q, domain)
            if s == "any":
                return "any"
            out |= s
        return out
    if k == "Range":
        lo, hi = p["lo"], p["hi"]
        lo = min(domain) if lo == "-inf" else lo
        hi = max(domain) if hi == "+inf" else hi
        if not isinstance(lo, int) or not isinstance(hi, int):
            raise AnchorLost("unsupported range pattern")
        if p["end"] != "Included":
            hi -= 1
        return {v for v in domain if lo <= v <= hi}
    if k == "Deref":
        return pat_values(p["sub"], domain)
    raise AnchorLost("unsupported pattern kind %s in table" % k)


def constructed_variant(e, enum_path):
    """The unique variant of `enum_path` constructed in expression `e` (ignoring wrappers), or None."""
    found = set()
    for n in walk_all(e):
        if n.get("k") == "Adt" and n.get("adt") == enum_path:
            found.add(n["variant"])
    if len(found) == 1:
        return next(iter(found))
    if not found:
        return None
    raise AnchorLost("arm constructs several variants of %s: %s" % (enum_path, sorted(found)))


def arm_rejects(e):
    """True when an arm body produces no value of the table type: returns/constructs Err(..)/None."""
    for n in walk_all(e):
        if n.get("k") == "Adt" and n.get("adt") in ("core::result::Result", "core::option::Option"):
            if n["variant"] in ("Err", "None"):
                return True
    return False


def find_param_match(F, fid, enum_path=None):
    """The `match <first non-self param> { .. }` of a from_u8-like function."""
    body = nbody(F, fid)
    if body is None:
        raise AnchorLost("no body for %s" % fid)
    f = F.body_fn(fid)
    params = [p["pat"]["var"]["id"] for p in f["thir"]["params"]
              if p.get("pat") and p["pat"].get("k") == "Binding"]
    # async fns rebind params; from_u8 functions are sync
    cands = []
    for n in walk_all(body):
        if n.get("k") == "Match" and n.get("src") == "Normal":
            s = strip(n["scrut"])
            if s.get("k") == "Var" and s["var"]["id"] in params:
                cands.append(n)
    if len(cands) != 1:
        raise AnchorLost("%s: expected exactly one match on its parameter, found %d" % (fid, len(cands)))
    return cands[0]


def from_u8_table(F, fid, enum_path, domain=range(256)):
    """byte -> variant table of a from_u8-like function, computed with the partial evaluator for all 256
    bytes (independent of match / if-chain / early-return style). Returns (table, rejects_unknown, node)."""
    from r_pe import pe_from_u8_table
    table, rejects = pe_from_u8_table(F, fid, enum_path)
    f = F.fns.get(fid) or {}
    node = {"sp": f.get("sp")}
    return table, (len(table) + len(rejects) == 256), node


def from_u8_table_by_pattern(F, fid, enum_path, domain=range(256)):
    """byte -> variant table of a `from_u8`-like function.

    Accepted idioms: `match byte { C => Ok(V)|V|Some(V), C1|C2 => .., a..=b => .., n|_ => Err/None/return }`.
    Returns (table: dict value->variant, reject_default: bool, match_node)."""
    m = find_param_match(F, fid)
    table = {}
    default = None
    covered = set()
    for arm in m["arms"]:
        if arm.get("guard"):
            raise AnchorLost("%s: guarded arm in code table" % fid)
        vals = pat_values(arm["pat"], domain)
        variant = constructed_variant(arm["body"], enum_path)
        rej = variant is None and arm_rejects(arm["body"]) or (variant is None and _diverges(arm["body"]))
        if variant is None and not rej:
            raise AnchorLost("%s: arm neither constructs a %s variant nor rejects" % (fid, enum_path))
        if vals == "any":
            default = variant if variant else "reject"
            # first-match semantics: later arms unreachable
            break
        for v in vals:
            if v in covered:
                continue
            covered.add(v)
            if variant:
                table[v] = variant
    if default is None:
        default = "reject"   # exhaustive without catch-all is impossible for u8 unless ranges cover all
    if default != "reject":
        for v in domain:
            if v not in covered:
                table[v] = default
    return table, (default == "reject"), m


def _diverges(e):
    e = unblock(e)
    return isinstance(e, dict) and (e.get("k") == "Return" or e.get("ty") == "!")


def enum_discriminants(F, enum_path):
    a = F.adts.get(enum_path)
    if a is None or a["kind"] != "enum":
        raise AnchorLost("enum %s not found" % enum_path)
    return {v["name"]: v["discr"] for v in a["variants"]}


# ---- if / else-if threshold chains ------------------------------------------------------------

def threshold_chain(F, fid):
    """Extract `if x < C1 {R1} else if x < C2 {R2} ... else {Rn | return Err}` (also as match with
    range patterns) from the function's body.
    Returns (var name, [(op, const, result)], else_result) where result is an int or ('err', variant) or None."""
    body = nbody(F, fid)
    if body is None:
        raise AnchorLost("no body for %s" % fid)
    chain_root = None
    for n in walk_all(body):
        if n.get("k") == "If":
            chain_root = n
            break
        if n.get("k") == "Match" and n.get("src") == "Normal":
            chain_root = n
            break
    if chain_root is None:
        raise AnchorLost("%s: no if-chain / match found" % fid)
    rows = []
    var = None
    if chain_root["k"] == "If":
        n = chain_root
        while True:
            c = n["cond"]
            if c.get("k") != "Binary" or c["op"] not in ("Lt", "Le", "Gt", "Ge"):
                raise AnchorLost("%s: unsupported chain condition %s" % (fid, pp(c)))
            lhs, rhs = strip(c["l"]), c["r"]
            cv = const_eval(rhs)
            if lhs.get("k") != "Var" or cv is None:
                raise AnchorLost("%s: chain condition is not `var <op> const`: %s" % (fid, pp(c)))
            if var is None:
                var = lhs["var"]["name"]
            elif var != lhs["var"]["name"]:
                raise AnchorLost("%s: chain tests different variables" % fid)
            rows.append((c["op"], cv, _chain_result(n["then"])))
            els = n.get("else")
            if els is None:
                raise AnchorLost("%s: chain without final else" % fid)
            els = unblock(els)
            if els.get("k") == "If":
                n = els
                continue
            return var, rows, _chain_result(els), chain_root
    else:
        m = chain_root
        s = strip(m["scrut"])
        if s.get("k") != "Var":
            raise AnchorLost("%s: match scrutinee is not a variable" % fid)
        var = s["var"]["name"]
        else_r = None
        for arm in m["arms"]:
            p = arm["pat"]
            if p["k"] == "Range":
                hi = p["hi"]
                if p["lo"] not in (0, "-inf") and rows and p["lo"] != rows[-1][1]:
                    raise AnchorLost("%s: non-contiguous range arms" % fid)
                if not isinstance(hi, int):
                    raise AnchorLost("%s: open range arm" % fid)
                rows.append(("Lt" if p["end"] != "Included" else "Le", hi, _chain_result(arm["body"])))
            elif p["k"] in ("Wild", "Binding"):
                else_r = _chain_result(arm["body"])
                break
            else:
                raise AnchorLost("%s: unsupported arm pattern %s" % (fid, p["k"]))
        return var, rows, else_r, chain_root


def _chain_result(e):
    e = unblock(e)
    v = const_eval(e)
    if v is not None:
        return v
    # block with a single `return Err(X)` / `Err(X)`
    for n in walk_all(e):
        if n.get("k") == "Adt" and n.get("adt") == "core::result::Result" and n["variant"] == "Err":
            for m in walk_all(n):
                if m.get("k") == "Adt" and m.get("adt", "").endswith("error::Error"):
                    return ("err", m["variant"])
            return ("err", "?")
    return None


def chain_eval(rows, else_r, x):
    for op, c, r in rows:
        if {"Lt": x < c, "Le": x <= c, "Gt": x > c, "Ge": x >= c}[op]:
            return r
    return else_r
