#!/bin/bash
# mkfacts.sh <repo-dir> <out.json> [cargo feature args...]
# Builds facts for the crate in <repo-dir> (current working tree) into <out.json>
# using a fresh target dir (cargo's freshness cache would otherwise skip the wrapper).
set -euo pipefail
REPO="$1"; OUT="$2"; shift 2
DRV=/verif/mqfacts/target/release/mqfacts
if [ ! -x "$DRV" ]; then
  (cd /verif/mqfacts && CARGO_NET_OFFLINE=true cargo build --release --offline >&2)
fi
SYSROOT=$(rustc +nightly --print sysroot)
T=$(mktemp -d "${TMPDIR:-/tmp}/mqfacts.XXXXXX")
trap 'rm -rf "$T"' EXIT
rm -f "$OUT"
EXTRA_RUSTFLAGS="${MQFACTS_RUSTFLAGS:-}"
( cd "$REPO" && \
  CARGO_NET_OFFLINE=true \
  LD_LIBRARY_PATH="$SYSROOT/lib" \
  RUSTFLAGS="-Zmir-opt-level=0 -Zno-steal-thir -Awarnings $EXTRA_RUSTFLAGS" \
  RUSTC_WORKSPACE_WRAPPER="$DRV" \
  MQFACTS_OUT="$OUT" MQFACTS_CRATE=mqtt_proto \
  CARGO_TARGET_DIR="$T/target" \
  cargo +nightly check --offline --lib "$@" >"$T/log" 2>&1 ) || { tail -40 "$T/log" >&2; echo "mkfacts: cargo check failed" >&2; exit 2; }
if [ ! -s "$OUT" ]; then
  tail -40 "$T/log" >&2
  echo "mkfacts: facts file was not written" >&2
  exit 2
fi
