#!/usr/bin/env python3
"""Development helper: DESIGN.md keeps one generated paragraph (the corpus result line in section 7);
this refreshes it and seeded/MATRIX.md after the corpora were re-run (cachefacts.py <set> --write)."""
import os, re, subprocess, sys
HERE = os.path.dirname(os.path.abspath(__file__)); VERIF = os.path.dirname(HERE)
para = subprocess.run([sys.executable, os.path.join(HERE, "mkdesign_matrix.py")], capture_output=True, text=True, check=True).stdout.strip()
p = os.path.join(VERIF, "DESIGN.md")
s = open(p).read()
s2 = re.sub(r"<!-- corpus-result -->.*?<!-- /corpus-result -->", "<!-- corpus-result -->\n" + para + "\n<!-- /corpus-result -->", s, flags=re.S)
open(p, "w").write(s2)
print(para)
