#!/usr/bin/env python3
"""Development helper: build and cache facts for every patch of a set (seeded|benign) under /tmp/factcache/<set>/,
then run all registered checks on the cached facts. Not used by registered commands."""
import json, os, subprocess, sys, tempfile, shutil
from concurrent.futures import ThreadPoolExecutor
HERE = os.path.dirname(os.path.abspath(__file__)); VERIF = os.path.dirname(HERE)
sys.path.insert(0, HERE)
CACHE = "/tmp/factcache"

def build(args):
    setname, name = args
    out = os.path.join(CACHE, setname, name + ".json")
    if os.path.exists(out):
        return name, True
    os.makedirs(os.path.dirname(out), exist_ok=True)
    w = tempfile.mkdtemp(prefix="cf."); wt = os.path.join(w, "wt")
    try:
        subprocess.run(["git", "-C", "/repo", "worktree", "add", "-q", "--detach", wt, "HEAD"], check=True)
        if subprocess.run(["git", "-C", wt, "apply", os.path.join(VERIF, setname, name, "patch.diff")]).returncode:
            return name, False
        r = subprocess.run([os.path.join(HERE, "mkfacts.sh"), wt, out], capture_output=True, text=True)
        return name, r.returncode == 0
    finally:
        subprocess.run(["git", "-C", "/repo", "worktree", "remove", "--force", wt], capture_output=True)
        shutil.rmtree(w, ignore_errors=True)

def run(setname, names, props_filter=None):
    import importlib, props
    res = {}
    for name in names:
        facts = os.path.join(CACHE, setname, name + ".json")
        fired = {}
        env = dict(os.environ, VERIF_EVIDENCE_DIR="/tmp/factcache/ev/%s-%s" % (setname, name))
        for pid in sorted(props.PROPS):
            if props_filter and pid not in props_filter:
                continue
            r = subprocess.run([sys.executable, os.path.join(HERE, "check.py"), pid, "--facts", facts], capture_output=True, text=True, env=env)
            keys = [l.split("key=")[1].strip() for l in r.stdout.splitlines() if l.strip().startswith("rule=")]
            if r.returncode == 1: fired[pid] = keys
            elif r.returncode != 0: fired[pid] = ["<checker error> " + r.stderr[-300:]]
        res[name] = fired
    return res

if __name__ == "__main__":
    setname = sys.argv[1]
    names = sorted(n for n in os.listdir(os.path.join(VERIF, setname)) if os.path.isdir(os.path.join(VERIF, setname, n)))
    sel = [a for a in sys.argv[2:] if not a.startswith("C")]
    pf = [a for a in sys.argv[2:] if a.startswith("C") and "-" not in a]
    sel = [a for a in sys.argv[2:] if "-" in a and not a.startswith("--")]
    if sel: names = sel
    with ThreadPoolExecutor(max_workers=8) as ex:
        for n, ok in ex.map(build, [(setname, n) for n in names]):
            if not ok: print("facts failed", n)
    def one(n): return n, run(setname, [n], pf)[n]
    write = "--write" in sys.argv
    allres = {}
    with ThreadPoolExecutor(max_workers=8) as ex:
        for n, fired in ex.map(one, names):
            allres[n] = fired
            allkeys = sorted({k for v in fired.values() for k in v})
            own = n.split("-")[0]
            tag = ("FALSE-ALARM" if fired else "silent") if setname == "benign" else ("CAUGHT" if own in fired else ("other" if fired else "MISSED"))
            print("%-7s %-12s %s" % (n, tag, (sorted(fired), allkeys[:6]) if fired else ""))

    if write and not sel and not pf:
        json.dump(allres, open(os.path.join(VERIF, setname, "RESULTS.json"), "w"), indent=1, sort_keys=True)
        if setname == "seeded":
            exp = {}
            for n, fired in sorted(allres.items()):
                own = n.split("-")[0]
                exp[n] = [own] if own in fired else []
                if not n.startswith("C"):
                    exp[n] = sorted(fired)
            json.dump(exp, open(os.path.join(VERIF, "seeded", "EXPECT.json"), "w"), indent=1, sort_keys=True)
