"""L-trace: the order and kind of wire items of every packet body agree between its encoder and its decoder.

For each body type with `impl Encodable` and a decoder, two skeletons are computed by the L engine:
  E  from the write trace of `encode` (items in the order they are written: u8 / u16 / u32 / length-prefixed bytes /
     var-int / nested property block / raw rest / per-element groups), each labelled with the field of `self` it comes from;
  D  from the read trace of the decoder (items in the order they are read), each labelled with the field of the returned
     struct that the value read ends up in.
Conditionals are flattened in source order (both say "if present"), adjacent identical tokens are merged (per-arm vs
or-pattern spelling), nested non-property body types (LastWill) are expanded on the encoder side. The rule: equal kind
sequences, and equal field labels wherever both sides have one. It decides *order agreement between the siblings*
(two same-typed fields swapped on one side only, a field read at another position than it is written); it does not
compare either side with the specification's field order.
"""
from facts import strip, pp, loc
from report import AnchorLost
import lensum
from lensum import Interp, PathVal, Opaque, Poly, Cases, TupleVal, BoolVal, Unsupported, g_val
import lenread
from lenread import BufVal, summarise_decoder

KIND = {"write_u8": "u8", "write_u16": "u16", "write_u32": "u32", "write_bytes": "bytes", "write_var_int": "varint",
        "common::utils::read_u8": "u8", "common::utils::read_u16": "u16", "common::utils::read_u32": "u32",
        "common::utils::read_string": "bytes", "common::utils::read_bytes": "bytes", "common::utils::decode_var_int": "varint"}


def _top(path_str):
    """'self.topic_name' / 'self.qos_pid.0' -> 'topic_name'; '$it.0' -> '$it.0'"""
    if not path_str:
        return None
    parts = path_str.split(".")
    if parts[0] == "self" and len(parts) > 1:
        return parts[1]
    if parts[0] == "$it":
        return ".".join(parts[:2])
    return None


def _enc_skeleton(F, ty, cache, depth=0):
    """Skeleton of <ty as Encodable>::encode."""
    if ty in cache:
        return cache[ty]
    fid = None
    for imp in F.impls_of("Encodable"):
        if imp["self_ty"] == ty:
            fid = [i["def"] for i in imp["items"] if i["name"] == "encode"][0]
    if fid is None:
        raise Unsupported("no Encodable::encode for %s" % ty)
    it = Interp(F, "write")
    it.run_fn(fid, [PathVal(("self",)), Opaque("writer")])
    fam = ty.split("::")[0]
    by_name = {}
    for imp in F.impls_of("Encodable"):
        nm = imp["self_ty"].rsplit("::", 1)[1]
        if nm not in by_name or imp["self_ty"].startswith(fam + "::"):
            by_name[nm] = imp["self_ty"]

    def conv(tr, prefix=None):
        out = []
        for t in tr:
            k = t[0]
            if k == "item":
                fld = _top(t[3]) if t[3] else None
                out.append((KIND.get(t[1], t[1]), prefix or fld))
            elif k == "bytes":
                out.append(("rest", prefix))
            elif k == "enc":
                tname, path = t[1], t[2]
                full = by_name.get(tname)
                fld = _top(path)
                if full is not None and not tname.endswith("Properties") and tname != "Protocol" and depth < 3:
                    sub = _enc_skeleton(F, full, cache, depth + 1)
                    base = prefix or fld
                    out += [(kk, ("%s.%s" % (base, ff)) if (base and ff) else base) for kk, ff in sub]
                else:
                    out.append(("enc:" + tname, prefix or fld))
            elif k == "cond":
                out += _alt(conv(t[2], prefix), conv(t[3], prefix))
            elif k == "each":
                out.append((("each", tuple(conv(t[2]))), prefix or _top(t[1])))
            elif k == "debug_assert":
                continue
            else:
                out.append((k, prefix))
        return out
    sk = conv(it.trace)
    cache[ty] = sk
    return sk


def _syms(v, out):
    if isinstance(v, Poly):
        for (atoms, g) in v.m:
            for part in (g,) + tuple(atoms):
                _gen_syms(part, out)
    elif isinstance(v, BufVal):
        _syms(v.n, out)
    elif isinstance(v, PathVal):
        if v.path and isinstance(v.path[0], str) and v.path[0].startswith("$"):
            out.add(v.path[0])
    elif isinstance(v, Cases):
        for _i, x in v.pairs:
            _syms(x, out)
    elif isinstance(v, TupleVal):
        for x in v.items:
            _syms(x, out)
    elif isinstance(v, tuple) and v and v[0] == "struct":
        for x in v[3].values():
            _syms(x, out)
    elif isinstance(v, (list, tuple)):
        for x in v:
            _syms(x, out)


def _gen_syms(g, out):
    if isinstance(g, tuple):
        for x in g:
            _gen_syms(x, out)
    elif isinstance(g, str) and g.startswith("$"):
        out.add(g)


def _dec_skeleton(F, fid, args):
    it = summarise_decoder(F, fid, args)
    res = it.result
    field_of = {}
    def label(val, prefix):
        # symbols inside a nested body struct get a dotted label (last_will.topic_name)
        if isinstance(val, tuple) and val and val[0] == "struct":
            for fname, sub in val[3].items():
                label(sub, (prefix + "." + fname) if prefix else fname)
            return
        if isinstance(val, Cases):
            structs = [x for _i, x in val.pairs if isinstance(x, tuple) and x and x[0] == "struct"]
            if structs:
                for x in structs:
                    label(x, prefix)
                return
        s = set()
        _syms(val, s)
        ex = _exact_syms(val)
        for x in s:
            if x in ex:
                field_of.setdefault(x, prefix)
            else:
                altered.setdefault(x, prefix)      # the field holds a function of the value read, not the value itself
    altered = {}
    if isinstance(res, tuple) and res and res[0] == "struct":
        label(res, "")
    # values stored later through aliases (`properties.x = ..`) are not needed: property sets are single tokens

    def conv(reads):
        out = []
        for r in reads:
            k = r[0]
            if k == "call":
                callee, sub, sym = r[1], r[2], r[3]
                if callee in KIND:
                    out.append((KIND[callee], field_of.get(sym)))
                else:
                    out += conv(sub)        # a nested body decoder (LastWill): its reads in place
            elif k == "read_exact":
                n = r[1]
                if n.isdigit():
                    out += [("u8", None)] * int(n) if int(n) <= 2 else [("raw%s" % n, None)]
                else:
                    out.append(("rest", None))
            elif k == "varint":
                out.append(("varint", field_of.get(r[1])))
            elif k == "props":
                out.append(("enc:" + r[1], field_of.get(r[2])))
            elif k == "cond":
                out += _alt(conv(r[2]), conv(r[3]))
            elif k == "loop":
                out.append((("each", tuple(conv(r[2]))), None))
            else:
                out.append((k, None))
        return out
    it.altered = {k: v for k, v in altered.items() if k not in field_of}
    return conv(it.reads), it


def _exact_syms(v):
    """Symbols of read items that the value *is* (possibly wrapped: Some(..), a validated / reference-counted wrapper, one
    alternative of a conditional), as opposed to symbols it merely depends on (`n + 1`, `min(n, k)`)."""
    from lenread import _single_symbol
    out = set()
    if isinstance(v, Poly):
        sym = _single_symbol(v)
        if sym is not None:
            out.add(sym[0])
    elif isinstance(v, BufVal):
        sym = _single_symbol(v.n)
        if sym is not None:
            out.add(sym[0])
    elif isinstance(v, PathVal):
        if v.path and isinstance(v.path[0], str) and v.path[0].startswith("$"):
            out.add(v.path[0])
    elif isinstance(v, Cases):
        for _i, x in v.pairs:
            out |= _exact_syms(x)
    elif isinstance(v, tuple) and v and v[0] in ("some", "checked") and len(v) > 1:
        out |= _exact_syms(v[1])
    elif isinstance(v, tuple) and v and v[0] == "struct":
        for x in v[3].values():          # an enum variant / newtype carrying the value (QosPid::Level1(pid))
            out |= _exact_syms(x)
    elif isinstance(v, TupleVal):
        for x in v.items:
            out |= _exact_syms(x)
    return out


def _alt(a, b):
    """Items of two alternative branches, in source order: when one alternative is a prefix of the other (short form /
    long form, or-pattern vs one arm per variant) the longer one stands for both."""
    ka, kb = [x[0] for x in a], [x[0] for x in b]
    if ka == kb[:len(ka)]:
        return [(k, fa if fa is not None else fb) for (k, fb), fa in zip(b, [x[1] for x in a] + [None] * len(b))]
    if kb == ka[:len(kb)]:
        return [(k, fa if fa is not None else fb) for (k, fa), fb in zip(a, [x[1] for x in b] + [None] * len(a))]
    return a + b


def _merge_adjacent(sk):
    return sk


def _kinds(sk):
    out = []
    for kind, _f in sk:
        if isinstance(kind, tuple) and kind[0] == "each":
            out.append(("each", tuple(_kinds(kind[1]))))
        else:
            out.append(kind)
    return out


def _u8s(sk):
    """Two adjacent u8 tokens and one ... no: keep as they are; but a decoder may read 2 single bytes as one 2-byte array."""
    return sk


def _decoder_for(F, ty):
    for name in ("decode_with_protocol", "decode_async"):
        fid = "%s::%s" % (ty, name)
        if fid in F.fns:
            return fid
    return None


def _args_for(F, fid):
    args = []
    for p in F.fns[fid]["thir"]["params"]:
        if p.get("pat") is None:
            continue
        nm = p["pat"].get("name") or ""
        if nm == "reader":
            args.append(Opaque("reader"))
        elif nm == "remaining_len":
            args.append(g_val(("remaining_len",)))
        else:
            args.append(PathVal((nm or "arg",)))
    return args


def l_trace(F, R):
    """Encoder and decoder of every packet body put the same kinds of wire items in the same order, and a field is read at
    the position at which it is written (labels compared wherever the value read can be followed into the returned struct)."""
    cache = {}
    n = 0
    for imp in F.impls_of("Encodable"):
        ty = imp["self_ty"]
        short = ty.rsplit("::", 1)[1]
        if short.endswith("Properties") or short == "Protocol":
            continue           # property blocks are id-tagged (order free): T-prop3 / T-propid
        dec = _decoder_for(F, ty)
        if dec is None:
            continue           # v3 LastWill: decoded inline by Connect, compared there (expanded on the encoder side)
        key = ty
        try:
            E = _merge_adjacent(_enc_skeleton(F, ty, cache))
            Dsk, it = _dec_skeleton(F, dec, _args_for(F, dec))
            D = _merge_adjacent(Dsk)
            if dec.endswith("decode_with_protocol"):
                D = [("enc:Protocol", "protocol")] + D       # read by the caller (H-compose) before the version gate
        except (Unsupported, lenread.Diverge) as e:
            R.fail("L-trace", "%s/unsupported" % key, "L-unsupported: cannot compute the item order of %s: %s" % (ty, e), where=dec)
            continue
        n += 1
        # a decoder that reads a (user-properties-only) property block inline instead of through XProperties::decode_async:
        # expand that block on the encoder side too
        dk = set(k for k, _f in D)
        E0 = list(E)
        E2 = []
        for k, fld in E:
            if isinstance(k, str) and k.startswith("enc:") and k.endswith("Properties") and k not in dk:
                full = [imp["self_ty"] for imp in F.impls_of("Encodable") if imp["self_ty"].rsplit("::", 1)[1] == k[4:] and imp["self_ty"].split("::")[0] == ty.split("::")[0]]
                try:
                    E2 += [(kk, fld) for kk, _f in _enc_skeleton(F, full[0], cache)] if full else [(k, fld)]
                except Unsupported:
                    E2.append((k, fld))
            else:
                E2.append((k, fld))
        E = E2
        ke, kd = _kinds(E), _kinds(D)
        # a decoder may read a header-dependent short form (v5 acks: nothing / reason / reason + properties): conditionals are
        # flattened, so the full form is what both skeletons show
        R.check(ke == kd, "L-trace", "%s/kinds" % key,
                "%s: the encoder writes the items %s but the decoder reads %s" % (short, _fmt(ke), _fmt(kd)), where=dec,
                detail={"encode": _fmt(ke), "decode": _fmt(kd)})
        if ke == kd:
            bad = []
            for i, ((k1, f1), (k2, f2)) in enumerate(zip(E, D)):
                if f1 is not None and f2 is not None and not str(f1).startswith("$it") and f1 != f2 and \
                        not (str(f2).startswith(str(f1) + ".") or str(f1).startswith(str(f2) + ".")):
                    bad.append("item %d (%s): written from `%s`, read into `%s`" % (i + 1, k1 if not isinstance(k1, tuple) else "list", f1, f2))
            R.check(not bad, "L-trace", "%s/fields" % key,
                    "%s: encoder and decoder disagree on which field an item belongs to: %s" % (short, "; ".join(bad[:3])), where=dec)
            # value-carrying items (integers wider than a byte, strings / binary data, nested blocks) outside list loops are
            # written from a field as it is and read into a field as they are: an item without a field label is a value that was
            # adjusted on its way (clamped, defaulted, normalised, derived from something else)
            carrying = lambda k: isinstance(k, str) and (k in ("u16", "u32", "bytes") or k.startswith("enc:"))
            lost_e = ["item %d (%s)" % (i + 1, k1) for i, (k1, f1) in enumerate(E) if carrying(k1) and f1 is None]
            lost_d = ["item %d (%s)" % (i + 1, k2) for i, (k2, f2) in enumerate(D) if carrying(k2) and f2 is None
                      and not (k2 == "enc:AuthProperties")]
            R.check(not lost_e, "L-trace", "%s/value-written" % key,
                    "%s: the encoder writes %s from something other than a field of the packet as it is" % (short, ", ".join(lost_e[:3])), where=dec)
            R.check(not lost_d and not it.altered, "L-trace", "%s/value-read" % key,
                    "%s: the decoder does not store %s in the packet as read%s" % (
                        short, ", ".join(lost_d[:3]) or "a value", "; fields holding a function of a value read: %s" % sorted(set(it.altered.values())) if it.altered else ""), where=dec)
            # byte-sized items: only CONNECT's flags byte and v5 SUBSCRIBE's option byte are computed from several fields (T-bits
            # decides them over their complete domains); every other byte an encoder writes is one field as it is (`code as u8`)
            def u8_unlabelled(sk):
                c = 0
                for k_, f_ in sk:
                    if isinstance(k_, tuple) and k_[0] == "each":
                        c += u8_unlabelled(k_[1])
                    elif k_ == "u8" and f_ is None:
                        c += 1
                return c
            allowed = 1 if short == "Connect" or (short == "Subscribe" and ty.startswith("v5::")) else 0
            nb = u8_unlabelled(E0)
            R.check(nb <= allowed, "L-trace", "%s/byte-written" % key,
                    "%s: the encoder writes %d byte-sized item(s) that are not one field of the packet as it is (%d expected: the flags / options byte)" % (short, nb, allowed), where=dec)
            labelled = sum(1 for (k1, f1), (k2, f2) in zip(E, D) if f1 is not None and f2 is not None)
            R.sample({"rule": "L-trace", "type": ty, "items": len(E), "field-labelled on both sides": labelled}) if short in ("Connect", "Publish") else None
    R.floor("L-trace", "body types compared", n, 15)
    # user properties: (name, value) are two strings of the same type; every property set writes them through one loop and
    # every decoder reads them with decode_user_property
    dup = "v5::types::PropertyValue::decode_user_property"
    if dup not in F.fns:
        raise AnchorLost(dup)
    try:
        Dup, _it = _dec_skeleton(F, dup, _args_for(F, dup))
    except (Unsupported, lenread.Diverge) as e:
        raise AnchorLost("%s: %s" % (dup, e))
    want = [(k, f) for k, f in Dup]
    m = 0
    mism = []
    for imp in F.impls_of("Encodable"):
        ty = imp["self_ty"]
        if not ty.endswith("Properties"):
            continue
        try:
            E = _enc_skeleton(F, ty, cache)
        except Unsupported as e:
            R.fail("L-trace", "%s/unsupported" % ty, "L-unsupported: %s" % e)
            continue
        loops = [k for k, fld in E if isinstance(k, tuple) and k[0] == "each" and fld == "user_properties"]
        if not loops:
            continue
        m += 1
        body = [(k, (f or "").replace("$it.", "") or None) for k, f in loops[0][1] if k != "u8"]
        if body == want:
            R.ok("L-trace", "%s/user-property" % ty, body)
        else:
            mism.append((ty.rsplit("::", 1)[1], body))
    R.check(not mism, "L-trace", "user-property",
            "decode_user_property reads %s but %d property set(s) write each user property as %s (%s)" % (
                want, len(mism), mism[0][1] if mism else None, ", ".join(x[0] for x in mism[:4])), where=dup)
    R.floor("L-trace", "property sets with user properties", m, 10)


def _fmt(kinds):
    out = []
    for k in kinds:
        if isinstance(k, tuple) and k[0] == "each":
            out.append("each[%s]" % _fmt(k[1]))
        else:
            out.append(str(k))
    return " ".join(out)
