"""S-panic: audit of every panic-capable site in the call-graph closure of the decoder entry points.
S-loop: every loop in that closure matches a progress pattern. S-alloc: allocation sizes are declared
lengths bounded by the wire format.

A site is discharged by a mechanical guard rule (G-*) or by a named table entry with a one-line reason
(confirmed by reading). An undischarged site is a violation naming the function and the site."""
from facts import strip, lit_value, pp, loc, path_of
from norm import nbody, walk_all, unblock
from report import AnchorLost
from tables import const_eval
from r_io import closure_of, decode_roots, encode_roots, _closure_body, all_bodies
from r_poll import _parents, _ancestors

UNSIGNED = ("usize", "u32", "u16", "u8", "u64")

# named exceptions: (function root, site kind, substring of the site) -> reason
TABLE = [
    ("::poll", "index_mut", "RangeFrom{start: *idx}",
     "idx only grows by ReadBuf::filled().len() of a ReadBuf over buf[idx..], so idx <= buf.len() (ReadBuf contract)"),
    ("::poll", "index", "RangeFull",
     "full-range slicing never panics"),
    ("::poll", "panic", "*idx <= buf.len()",
     "debug assertion of the same ReadBuf contract; never false"),
    ("::poll", "AddAssign", "*idx AddAssign= size",
     "idx <= buf.len() <= 2^28"),
    ("common::types::TopicFilter::is_invalid", "panic", "shared_group_sep == 0 || shared_group_sep == 6",
     "shared_group_sep is assigned only while the 7-character `$share/` prefix matched, i.e. at byte index 6"),
    ("common::types::TopicFilter::is_invalid", "Sub", "len(&*value) Sub 1",
     "dominated by the `value.is_empty() -> return` test"),
    ("encode_len", "expect", "var_int_len",
     "on decode paths the property set was just decoded from a block whose declared length is a var-int (< 2^28) "
     "and equals the re-computed length (H-proplen, L-propdec); VarByteInt values are < 2^28 by construction (C12)"),
]


def _is_async_fn(F, fid):
    f = F.fns.get(fid)
    return bool(f and f.get("is_async") and f["kind"] in ("Fn", "AssocFn"))


def _bodies(F, roots):
    for fid in sorted(closure_of(F, roots)):
        f = F.fns.get(fid)
        if not f or not f.get("thir"):
            continue
        if f["kind"] == "Closure" and fid.endswith("::{closure#0}") and _is_async_fn(F, fid[:-len("::{closure#0}")]):
            continue
        if f["kind"] not in ("Fn", "AssocFn", "Closure"):
            continue
        b = nbody(F, fid) if f["kind"] != "Closure" else _closure_body(F, fid)
        if b is not None:
            yield fid, f, b


def _table(root, kind, text):
    for r, k, sub, reason in TABLE:
        if (root.endswith(r) or r in root) and k == kind and sub in text:
            return reason
    return None


def _in_debug_assert(x):
    return any(e.split("::")[-1].startswith("debug_assert") for e in (x.get("exp") or []))


def _enclosing(par, x, kinds):
    for a in _ancestors(par, x):
        if a.get("k") in kinds:
            return a
    return None


def s_panic(F, R, roots=None, tag="decode"):
    roots = roots or decode_roots(F)
    counts = {}
    nfun = 0
    for fid, f, b in _bodies(F, roots):
        nfun += 1
        par = None
        root = f["root"]
        for x in walk_all(b):
            k = x.get("k")
            site = None
            if k == "Binary" and x["op"] in ("Add", "Sub", "Mul", "Shl", "Div", "Rem") and x.get("ty") in UNSIGNED and const_eval(x) is None:
                site = (x["op"], x)
            elif k == "AssignOp" and x["op"] in ("AddAssign", "SubAssign", "MulAssign", "ShlAssign", "DivAssign", "RemAssign"):
                site = (x["op"], x)
            elif k == "Index":
                site = ("index", x)
            elif k == "Call":
                n = x["fn"].get("name")
                d = x["fn"].get("def") or ""
                if d.startswith("core::panicking") or d.startswith("std::panicking") or d.startswith("core::option::expect_failed"):
                    site = ("panic", x)
                elif n in ("unwrap", "expect") and (d.startswith("core::option::Option") or d.startswith("core::result::Result")):
                    site = (n, x)
                elif n in ("index", "index_mut") and (x["fn"].get("trait") or "").endswith(("Index", "IndexMut")):
                    site = (n, x)
                elif n in ("split_at", "split_at_mut", "copy_from_slice", "remove", "swap_remove", "insert", "drain", "split_off"):
                    site = (n, x)
            if site is None:
                continue
            kind, node = site
            if par is None:
                par = _parents(b)
            text = pp(node)
            why = _discharge(F, f, b, par, kind, node, text)
            key = "%s/%s/%s" % (root, kind, _site_key(node, text))
            counts[kind] = counts.get(kind, 0) + 1
            if why:
                R.ok("S-panic", key, why)
            else:
                R.fail("S-panic", key,
                       "%s: `%s` can panic (%s) and is not covered by a dominating guard or an audited exception" % (root, text[:100], _what(kind)),
                       where=loc(node))
    R.analysed["s_panic_%s_functions" % tag] = nfun
    R.analysed["s_panic_%s_sites" % tag] = counts
    return counts


def _what(kind):
    return {"Sub": "subtraction underflow", "SubAssign": "subtraction underflow", "Add": "overflow", "AddAssign": "overflow",
            "Mul": "overflow", "Shl": "shift overflow", "index": "index out of bounds", "index_mut": "index out of bounds",
            "unwrap": "unwrap on None/Err", "expect": "expect on None/Err", "panic": "explicit panic"}.get(kind, kind)


def _site_key(node, text):
    # stable key: operands rendered without positions
    t = text.replace(" ", "")
    return t[:70]


def _discharge(F, f, b, par, kind, x, text):
    root = f["root"]
    t = _table(root, kind, text)
    if t:
        return "table: " + t
    if root == "common::utils::decode_var_int" and kind in ("Shl", "Add", "AddAssign", "Mul", "MulAssign", "ShlAssign"):
        # counters and shift amounts of the reader depend on the iteration count only; V-reader's evaluation runs every
        # iteration count the loop can make (1..4 bytes, and the over-long case) and PE records arithmetic that leaves its type
        amount = x["r"]
        dep = any(y.get("k") in ("Var", "Upvar") and y["var"]["name"] == "byte" for y in walk_all(amount))
        if kind in ("Add", "Mul"):
            dep = dep or any(y.get("k") in ("Var", "Upvar") and y["var"]["name"] == "byte" for y in walk_all(x["l"]))
        if not dep:
            try:
                from r_pollpe import reader_arith_events
                if not reader_arith_events(F):
                    return "G-eval: iteration-count arithmetic of decode_var_int, in range on all five evaluated byte patterns (V-reader)"
            except Exception:
                pass
    if kind in ("Add", "AddAssign", "Mul"):
        ty = x.get("ty") if kind != "AddAssign" else (strip(x["l"]).get("ty") or "")
        if kind == "AddAssign":
            ty = strip(x["l"]).get("ty") or x["l"].get("ty")
        if ty == "usize":
            return "S-ovf: sum/product of lengths of in-memory values on a 64-bit usize"
        # bounded counters: `c += 1` guarded by `c < K`
        if kind == "AddAssign" and const_eval(x["r"]) == 1:
            cname = pp(strip(x["l"]))
            for a in _ancestors(par, x):
                if a.get("k") == "If":
                    c = unblock(a["cond"])
                    if c.get("k") == "Binary" and c["op"] == "Lt" and pp(strip(c["l"])) == cname and const_eval(c["r"]) is not None:
                        return "G-ctr: increment guarded by %s < %d" % (cname, const_eval(c["r"]))
        if kind == "AddAssign" and const_eval(x["r"]) == 1:
            # the increment sits in a match arm whose pattern bounds the counter: `match (.., c) { (.., 0..=2) => c += 1, .. }`
            cname = pp(strip(x["l"]))
            anc = list(_ancestors(par, x))
            for i_, a in enumerate(anc):
                if a.get("k") is None and "pat" in a and "body" in a:
                    m_ = next((z for z in anc[i_ + 1:] if z.get("k") == "Match"), None)
                    if m_ is None or not any(arm is a for arm in m_["arms"]):
                        continue
                    hi = _pat_upper(a["pat"], strip(m_["scrut"]), cname)
                    bits = {"u8": 8, "u16": 16, "u32": 32, "u64": 64, "usize": 64}.get((x["l"].get("ty") or ty or "").replace("&mut ", "").replace("&", ""), 0)
                    if hi is not None and bits and hi < (1 << bits) - 1:
                        return "G-ctr: increment in a match arm whose pattern bounds %s by %d" % (cname, hi)
        if kind == "Add" and ty in ("u16", "u32") and const_eval(x["r"]) is not None:
            # TopicFilter::is_invalid: shared_group_sep + 1 with shared_group_sep in {0, 6}
            if root == "common::types::TopicFilter::is_invalid" and pp(strip(x["l"])) == "shared_group_sep":
                return "table: shared_group_sep is 0 or 6"
        if kind == "AddAssign" and const_eval(x["r"]) == 1:
            # early-exit form: `if c >= K { return .. }` earlier in the same block
            cname = pp(strip(x["l"]))
            for a in _ancestors(par, x):
                if a.get("k") == "Block":
                    for s in a.get("stmts", []):
                        if any(x is z for z in walk_all(s)):
                            break
                        e = s.get("e")
                        if isinstance(e, dict) and e.get("k") == "If":
                            c = unblock(e["cond"])
                            if c.get("k") == "Binary" and c["op"] in ("Ge", "Gt", "Eq") and pp(strip(c["l"])) == cname and const_eval(c["r"]) is not None \
                                    and (unblock(e["then"]).get("ty") == "!" or any(z.get("k") == "Return" for z in walk_all(e["then"]))):
                                return "G-ctr: increment after `%s %s %d -> return`" % (cname, c["op"], const_eval(c["r"]))
        if kind == "Mul" and ty == "u32":
            # 7 * var_idx with var_idx <= 3 (cap checked by T-varint2)
            if const_eval(x["l"]) == 7 or const_eval(x["r"]) == 7:
                return "G-ctr: 7 * index with index <= 3 (T-varint2 cap)"
        return None
    if kind in ("Div", "Rem", "DivAssign", "RemAssign"):
        dv = const_eval(x["r"])
        if dv is not None and dv != 0:
            return "G-const-div: division by the non-zero constant %d cannot panic on an unsigned type" % dv
        return None
    if kind == "Shl":
        r = _resolve_let(b, strip(x["r"]))
        if r.get("k") == "Binary" and r["op"] == "Mul" and 7 in (const_eval(r["l"]), const_eval(r["r"])):
            return "G-ctr: shift by 7 * index with index <= 3 (T-varint2 cap), < 32"
        return None
    if kind == "Sub":
        r_ = strip(x["r"])
        if r_.get("k") == "Call" and r_["fn"].get("name") in ("leading_zeros", "trailing_zeros", "count_ones", "count_zeros", "leading_ones", "trailing_ones") \
                and (const_eval(x["l"]) in (8, 16, 32, 64, 128) or pp(strip(x["l"])).endswith("BITS")):
            return "G-bits: a bit count of an integer never exceeds its width"
    if kind == "Sub" and const_eval(x["r"]) is not None and strip(x["l"]).get("k") in ("Var", "Upvar"):
        c_ = const_eval(x["r"])
        vid_ = strip(x["l"])["var"]["id"]
        for a in _ancestors(par, x):
            # G-range: the loop variable of `for v in lo..` / `lo..=hi` with lo >= c
            if a.get("k") == "For" and a["pat"].get("k") == "Binding" and a["pat"]["var"]["id"] == vid_:
                it_ = strip(a["iter"])
                lo_ = None
                if it_.get("k") == "Adt" and (it_.get("adt") or "").startswith("core::ops::range::Range") and it_.get("fields"):
                    lo_ = const_eval(next((f_["e"] for f_ in it_["fields"] if f_.get("name") == "start"), {}))
                elif it_.get("k") == "Call" and it_["fn"].get("name") == "new" and "RangeInclusive" in (it_["fn"].get("def") or "") and it_["args"]:
                    lo_ = const_eval(it_["args"][0])
                if lo_ is not None and lo_ >= c_:
                    return "G-range: the loop variable starts at %d >= %d" % (lo_, c_)
            # G-arms: a catch-all match arm binding reached only when the earlier arms did not take the values 0..c-1
            if a.get("k") is None and "pat" in a and "body" in a:
                pt_ = a["pat"]
                while pt_.get("k") in ("Deref",):
                    pt_ = pt_["sub"]
                if pt_.get("k") == "Binding" and not pt_.get("sub") and pt_["var"]["id"] == vid_:
                    m_ = next((z for z in _ancestors(par, a) if z.get("k") == "Match"), None)
                    if m_ is not None:
                        taken = set()
                        for arm in m_["arms"]:
                            if arm is a:
                                break
                            if arm.get("guard") is not None:
                                continue
                            def consts(p_):
                                while p_.get("k") in ("Deref",):
                                    p_ = p_["sub"]
                                if p_.get("k") == "Const" and isinstance(p_.get("val"), int) and not isinstance(p_.get("val"), bool):
                                    return {p_["val"]}
                                if p_.get("k") == "Or":
                                    out_ = set()
                                    for q_ in p_.get("pats", []):
                                        out_ |= consts(q_)
                                    return out_
                                if p_.get("k") == "Range" and isinstance(p_.get("lo"), int) and isinstance(p_.get("hi"), int) and p_["hi"] - p_["lo"] < 4096:
                                    return set(range(p_["lo"], p_["hi"] + (1 if p_.get("end") == "Included" else 0)))
                                return set()
                            taken |= consts(arm["pat"])
                        if all(v_ in taken for v_ in range(c_)):
                            return "G-arms: earlier arms take the values below %d" % c_
    if kind == "Sub":
        # G-dom-while: `a - b` inside `while b < a { .. }` before either operand is written in the iteration
        an_, bn_ = pp(strip(x["l"])), pp(strip(x["r"]))
        w_ = _enclosing(par, x, ("While",))
        if w_ is not None:
            c_ = unblock(w_["cond"])
            if c_.get("k") == "Binary":
                l_, r_, op_ = pp(strip(c_["l"])), pp(strip(c_["r"])), c_["op"]
                if (op_ in ("Lt", "Le") and l_ == bn_ and r_ == an_) or (op_ in ("Gt", "Ge") and l_ == an_ and r_ == bn_):
                    seen_site = False
                    early_write = False
                    for z in walk_all(w_["body"]):
                        if z is x:
                            seen_site = True
                            break
                        if z.get("k") in ("Assign", "AssignOp") and pp(strip(z["l"])) in (an_, bn_):
                            early_write = True
                    if seen_site and not early_write:
                        return "G-dom-while: `while %s %s %s` holds when the subtraction is reached" % (l_, op_, r_)
    if kind in ("Sub", "SubAssign"):
        # G-dom-gt: `x -= 1` as the only write to x in a `while x > 0` body before... any statement order
        if kind == "SubAssign" and const_eval(x["r"]) == 1:
            name = pp(strip(x["l"]))
            w = _enclosing(par, x, ("While",))
            if w is not None:
                c = unblock(w["cond"])
                if c.get("k") == "Binary" and c["op"] in ("Gt", "Ne") and pp(strip(c["l"])) == name and const_eval(c["r"]) == 0:
                    writes = [y for y in walk_all(w["body"]) if y.get("k") in ("Assign", "AssignOp") and pp(strip(y["l"])) == name]
                    if len(writes) == 1 and writes[0] is x:
                        return "G-dom-gt: the only write to %s in `while %s > 0`" % (name, name)
        # G-dom-early: `if b > a { return / continue / break }` (or `a < b`, `>=`/`<=` likewise) earlier in an enclosing block,
        # with neither operand written in between, dominates `a - b` / `a -= b`
        lhs_e, rhs_e = (x["l"], x["r"])
        an, bn = pp(strip(lhs_e)), pp(strip(rhs_e))
        for a in _ancestors(par, x):
            if a.get("k") != "Block":
                continue
            guard = None
            for st in a.get("stmts", []):
                if any(x is z for z in walk_all(st)):
                    break
                e = st.get("e") if st.get("k") != "Let" else None
                if isinstance(e, dict) and unblock(e).get("k") == "If" and not unblock(e).get("else"):
                    i = unblock(e)
                    c = unblock(i["cond"])
                    leaves = unblock(i["then"]).get("ty") == "!" or any(z.get("k") in ("Return", "Break", "Continue") for z in walk_all(i["then"]))
                    if c.get("k") == "Binary" and leaves:
                        l, r, op = pp(strip(c["l"])), pp(strip(c["r"])), c["op"]
                        if (op in ("Gt", "Ge") and l == bn and r == an) or (op in ("Lt", "Le") and l == an and r == bn):
                            guard = "%s %s %s" % (l, op, r)
                            continue
                if guard is not None:
                    # a write to either operand after the guard invalidates it
                    for z in walk_all(st):
                        if z.get("k") in ("Assign", "AssignOp") and pp(strip(z["l"])) in (an, bn):
                            guard = None
                    if st.get("k") == "Let" and st.get("pat", {}).get("name") in (an, bn):
                        guard = None
            if guard is not None:
                return "G-dom-early: `if %s { leave }` dominates the subtraction" % guard
        return None
    if kind == "index":
        if x.get("k") == "Call":
            lhs, idx = x["args"][0], x["args"][1]
            lty = (lhs.get("ty") or "").lstrip("&")
        else:
            lhs, idx = x["lhs"], x["index"]
            lty = x.get("lhs_ty") or ""
        iv = const_eval(idx)
        import re
        # an index that a search of the same array returned: `match A.binary_search*(..) { Ok(i) => A[i], .. }` / `position`
        if strip(idx).get("k") in ("Var", "Upvar"):
            vid_ = strip(idx)["var"]["id"]
            for a in _ancestors(par, x):
                if a.get("k") is None and "pat" in a and "body" in a:
                    pt_ = a["pat"]
                    while pt_.get("k") in ("Deref",):
                        pt_ = pt_["sub"]
                    if pt_.get("k") == "Variant" and pt_.get("variant") in ("Ok", "Some") and pt_.get("subs") and \
                            pt_["subs"][0]["pat"].get("k") == "Binding" and pt_["subs"][0]["pat"]["var"]["id"] == vid_:
                        m_ = next((z for z in _ancestors(par, a) if z.get("k") == "Match"), None)
                        sc_ = strip(m_["scrut"]) if m_ else {}
                        if sc_.get("k") == "Call" and sc_["fn"].get("name") in ("binary_search", "binary_search_by", "binary_search_by_key", "position") \
                                and pp(strip(lhs)).lstrip("&*") in pp(sc_["args"][0]):
                            return "G-found: the index was returned by a search of the same array"
        m = re.fullmatch(r"\[\w+; (\d+)\]", lty)
        if iv is not None and m and iv < int(m.group(1)):
            return "G-const-idx: %d < %s" % (iv, m.group(1))
        if m and strip(idx).get("k") == "Var":
            # short-circuit: `idx < N && ... arr[idx]`
            name = pp(strip(idx))
            for a in _ancestors(par, x):
                if a.get("k") == "Logical" and a["op"] == "And":
                    for y in walk_all(a["l"]):
                        if y.get("k") == "Binary" and y["op"] == "Lt" and pp(strip(y["l"])) == name and const_eval(y["r"]) is not None \
                                and const_eval(y["r"]) <= int(m.group(1)):
                            return "G-dom-lt: %s < %d <= %s" % (name, const_eval(y["r"]), m.group(1))
        if iv == 0 and "filled" in pp(lhs) and root.endswith("::poll"):
            # readbuf.filled()[0] in the poll decoder: the evaluated header transfer function (P-header, transport/eof cases)
            # runs the zero-length read: it must come back as IoError(UnexpectedEof) -- an index into the empty slice would
            # make that evaluation fail -- so the index is reached only with at least one byte filled
            try:
                from r_pollpe import PollRun, header_state, _ret_kind
                from peval import NONE as _N2
                pr = PollRun(F, header_state(_N2, 0, 0), [("eof",)]).run()
                out = _ret_kind(pr.outcome[1]) if pr.outcome[0] == "returned" else pr.outcome
                if out[:2] == ("err", "IoError"):
                    return "G-nonempty: a zero-length read returns UnexpectedEof before the index (evaluated, P-header)"
            except Exception:
                pass
        if iv == 0 and "filled" in pp(lhs):
            # readbuf.filled()[0] after `size == 0 -> return`
            blk = _enclosing(par, x, ("Block",))
            for a in _ancestors(par, x):
                if a.get("k") == "Block":
                    for s in a.get("stmts", []):
                        for y in walk_all(s):
                            if y.get("k") == "If":
                                c = unblock(y["cond"])
                                if c.get("k") == "Binary" and c["op"] == "Eq" and const_eval(c["r"]) == 0 and pp(strip(c["l"])) == "size" \
                                        and any(z.get("k") == "Return" for z in walk_all(y["then"])):
                                    return "G-nonempty: filled().len() == 0 returns before the index"
        return None
    if kind in ("unwrap", "expect"):
        a0 = strip(x["args"][0])
        s = pp(a0)
        if s.lstrip("*") == "control_byte":
            # G-some-set: evaluated transfer function of the header state: from control_byte == None the first byte is
            # stored and the loop continues; Header::new_with receives the stored byte (no unwrap of None is reachable)
            try:
                from r_pollpe import PollRun, header_state, byte
                from peval import NONE as _N
                b0, b1 = byte(0, False), byte(1, False)
                pr = PollRun(F, header_state(_N, 0, 0), [("byte", b0), ("byte", b1)], new_with=__import__("peval").err(__import__("peval").Sym("E"))).run()
                nw = [c for c in pr.calls if c[0] == "new_with"]
                if pr.outcome[0] == "returned" and len(nw) == 1 and nw[0][1] == b0 and not any(ev[0] == "panic" for ev in pr.pe.events):
                    return "G-some-set: the header loop exits only after control_byte was stored (evaluated: first byte -> stored, second byte -> new_with(first byte, ..))"
            except Exception:
                pass
            return None
        if a0.get("k") == "Call" and a0["fn"].get("def") == "common::types::QoS::from_u8":
            v = pp(strip(a0["args"][0]))
            for a in _ancestors(par, x):
                if a.get("k") == "If":
                    c = unblock(a["cond"])
                    if c.get("k") == "Binary" and (c["op"], const_eval(c["r"])) in (("Gt", 1), ("Ge", 2)) and pp(strip(c["l"])) == v \
                            and any(x is z for z in walk_all(a.get("else") or {})):
                        return "G-range: %s <= 1 on this branch and QoS::from_u8 accepts 0..=2 (T-codes)" % v
            return None
        if a0.get("k") == "Call" and a0["fn"].get("name") == "last":
            vec = pp(strip(a0["args"][0]))
            # previous statement in the block pushes to the same Vec
            for a in _ancestors(par, x):
                if a.get("k") == "Block":
                    prev = None
                    for s in a.get("stmts", []):
                        if any(x is z for z in walk_all(s)):
                            break
                        prev = s
                    if prev is not None:
                        for z in walk_all(prev):
                            if z.get("k") == "Call" and z["fn"].get("name") == "push" and _same_vec(pp(strip(z["args"][0])), vec):
                                return "G-nonempty: .last() right after a push on the same Vec"
                    break
            return None
        if a0.get("k") == "Call" and a0["fn"].get("def") == "common::utils::var_int_len":
            arg = strip(a0["args"][0])
            if "VarByteInt::value" in pp(arg):
                return "G-inv: argument is VarByteInt::value() < 2^28 (C12 constructor rule); var_int_len is Ok below 2^28 (T-width)"
            return None
        return None
    if kind == "panic":
        if _in_debug_assert(x):
            return None
        if "unreachable" in text:
            return "G-dispatch: discharged by rule G-dispatch (arms unreachable after build_empty_packet)"
        return None
    if kind in ("index_mut",):
        return None
    return None


def _pat_upper(pat, scrut, cname):
    """Largest value the pattern allows for the scrutinee component spelled `cname`, or None."""
    while pat.get("k") in ("Deref", "DerefPattern", "AscribeUserType") and pat.get("sub"):
        pat = pat["sub"]
    if pp(scrut) == cname or pp(scrut).lstrip("*") == cname.lstrip("*"):
        k = pat.get("k")
        if k == "Const" and isinstance(pat.get("val"), int) and not isinstance(pat.get("val"), bool):
            return pat["val"]
        if k == "Range" and isinstance(pat.get("hi"), int):
            return pat["hi"] if pat.get("end") == "Included" else pat["hi"] - 1
        if k == "Or":
            his = [_pat_upper(q, scrut, cname) for q in pat.get("pats", [])]
            return None if any(h is None for h in his) or not his else max(his)
        if k == "Binding" and pat.get("sub"):
            return _pat_upper(pat["sub"], scrut, cname)
        return None
    if scrut.get("k") == "Binary" and scrut.get("op") in ("Lt", "Le") and pat.get("k") == "Const" and pat.get("val") is True \
            and pp(strip(scrut["l"])).lstrip("*") == cname.lstrip("*") and const_eval(scrut["r"]) is not None:
        # `match (.., c < K) { (.., true) => c += 1, .. }`: the arm runs only when the comparison held
        return const_eval(scrut["r"]) - (1 if scrut["op"] == "Lt" else 0)
    if scrut.get("k") == "Tuple" and pat.get("k") == "Leaf":
        for sp in pat.get("subs", []):
            i = int(sp["idx"])
            if i < len(scrut["items"]):
                h = _pat_upper(sp["pat"], strip(scrut["items"][i]), cname)
                if h is not None:
                    return h
    return None


def _err_free_ty(e):
    """`u16` for an expression of type Result<u16, _> that was unwrapped by `?`."""
    ty = (e.get("ty") or "")
    if ty.startswith("core::result::Result<"):
        return ty[len("core::result::Result<"):].split(",")[0].strip()
    return ty


def _resolve_let(b, e):
    """A local variable stands for its (single) initialiser."""
    if e.get("k") == "Var":
        vid = e["var"]["id"]
        inits = []
        for n in walk_all(b):
            if n.get("k") == "Block":
                for s in n.get("stmts", []):
                    if s["k"] == "Let" and s["pat"].get("k") == "Binding" and s["pat"]["var"]["id"] == vid and s.get("init") is not None:
                        inits.append(s["init"])
        if len(inits) == 1:
            return strip(inits[0])
    return e


def _same_vec(a, b):
    def n(s):
        return s.replace("&mut ", "").replace("&", "").replace("*", "")
    return n(a) in n(b) or n(b) in n(a)


def _control_byte_set(b):
    for x in walk_all(b):
        if x.get("k") == "If":
            c = unblock(x["cond"])
            if c.get("k") == "Call" and c["fn"].get("name") == "is_none" and pp(strip(c["args"][0])).lstrip("*") == "control_byte":
                sets = [y for y in walk_all(x["then"]) if y.get("k") == "Assign" and pp(strip(y["l"])).lstrip("*") == "control_byte"
                        and unblock(y["r"]).get("k") == "Adt" and unblock(y["r"])["variant"] == "Some"]
                breaks_then = [y for y in walk_all(x["then"]) if y.get("k") == "Break"]
                breaks_else = [y for y in walk_all(x.get("else") or {}) if y.get("k") == "Break"]
                if sets and not breaks_then and breaks_else:
                    return True
    return False


def s_panic_decode(F, R):
    c = s_panic(F, R, decode_roots(F), "decode")
    R.floor("S-panic", "sites in the decode closure", sum(c.values()), 60)
    R.floor("S-panic", "index sites", c.get("index", 0), 6)
    R.floor("S-panic", "expect/unwrap sites", c.get("expect", 0) + c.get("unwrap", 0), 10)


def s_panic_validator(F, R):
    """The topic-filter validator computes the cached separator index: a panic-capable or wrapping arithmetic site in it (a
    narrow counter, an unguarded subtraction) makes the accessors' split wrong for the inputs that reach it."""
    c = s_panic(F, R, ["common::types::TopicFilter::is_invalid"], "validator")
    R.floor("S-panic", "sites in the filter validator", sum(c.values()), 3)


def _writes_only_to_vec(F, call, depth=0):
    """The call is a crate helper returning io::Result whose writer argument is a `Vec<u8>` and whose io::Results come only from
    writes to that writer (the write primitives, or helpers of the same kind): `impl Write for Vec<u8>` never fails."""
    cid = call["fn"].get("res") or call["fn"].get("def")
    cf = F.fns.get(cid)
    if cf is None or not cf.get("thir") or depth > 3 or not call["args"]:
        return False
    a0 = call["args"][0]
    if "alloc::vec::Vec<u8>" not in ((a0.get("ty") or "") + (strip(a0).get("ty") or "")):
        return False
    if "std::io::error::Error" not in (call.get("ty") or ""):
        return False
    for y in walk_all(nbody(F, cid)):
        if y.get("k") != "Call" or "std::io::error::Error" not in (y.get("ty") or ""):
            continue
        d2 = y["fn"].get("res") or y["fn"].get("def") or ""
        nm = y["fn"].get("name")
        if d2.startswith("common::utils::write_") or nm in ("write_all", "from_residual", "branch", "from_output"):
            continue
        if d2.startswith("core::result::Result") or d2.startswith("core::ops::try_trait"):
            continue
        return False
    return True


def s_panic_encode(F, R):
    """Encode closure (C11: anything a decoder accepts can be re-encoded without panic)."""
    roots = encode_roots(F)
    known_oversize = 0
    nfun = 0
    for fid, f, b in _bodies(F, roots):
        nfun += 1
        par = _parents(b)
        for x in walk_all(b):
            if x.get("k") != "Call":
                continue
            n = x["fn"].get("name")
            d = x["fn"].get("def") or ""
            if n in ("unwrap", "expect") and (d.startswith("core::option::Option") or d.startswith("core::result::Result")):
                a0 = strip(x["args"][0])
                text = pp(x)
                key = "%s/%s/%s" % (f["root"], n, text.replace(" ", "")[:70])
                if a0.get("k") == "Call" and a0["fn"].get("def") == "common::utils::var_int_len":
                    if "VarByteInt::value" in pp(a0["args"][0]):
                        R.ok("S-panic-enc", key, "G-inv")
                    else:
                        known_oversize += 1
                        # one finding per macro, not per expansion
                        R.fail("S-refuse", "v5::types::encode_properties_len/expect(var_int_len)",
                               "encode_len panics (expect) instead of refusing when a property block is >= 268435456 bytes: "
                               "`%s`" % text[:90], where=loc(x))
                elif a0.get("k") == "Call" and (a0["fn"].get("def") == "common::utils::write_var_int" or _writes_only_to_vec(F, a0)):
                    # Vec<u8>: Write never fails
                    R.ok("S-panic-enc", key, "write to Vec<u8> is infallible")
                else:
                    R.fail("S-panic-enc", key, "%s: `%s` may panic while encoding" % (f["root"], text[:100]), where=loc(x))
            elif d.startswith("core::panicking") and not _in_debug_assert(x):
                R.fail("S-panic-enc", "%s/panic/%s" % (f["root"], pp(x)[:50]), "%s panics: %s" % (f["root"], pp(x)[:80]), where=loc(x))
            elif n in ("index", "index_mut") and (x["fn"].get("trait") or "").endswith(("Index", "IndexMut")) and "RangeFull" not in pp(x):
                R.fail("S-panic-enc", "%s/index/%s" % (f["root"], pp(x)[:50]), "%s indexes: %s" % (f["root"], pp(x)[:80]), where=loc(x))
            elif x.get("k") == "Index":
                pass
    R.analysed["s_panic_encode_functions"] = nfun
    R.analysed["oversize_expect_expansions"] = known_oversize


# ---- S-loop ------------------------------------------------------------------------------------------------------

def s_loop(F, R):
    """Every loop in the decode closure makes progress: `while x > y` loops are accounted by L-consume /
    L-propdec (decrease >= 1 per iteration); raw `loop`s read from the transport in every iteration and
    leave on a zero-length read / error / bounded counter; `for` loops iterate finite collections."""
    n = {"While": 0, "Loop": 0, "For": 0}
    for fid, f, b in _bodies(F, decode_roots(F)):
        for x in walk_all(b):
            k = x.get("k")
            if k not in n:
                continue
            n[k] += 1
            key = "%s/%s" % (f["root"], k)
            if k == "For":
                R.ok("S-loop", key + "/" + pp(x["iter"])[:40], "iterator over a finite collection")
            elif k == "While":
                c = unblock(x["cond"])
                while c.get("k") == "Unary" and c.get("op") == "Not":
                    c = unblock(c["e"])
                ok = (c.get("k") == "Binary" and c["op"] in ("Gt", "Lt", "Ge", "Le", "Ne", "Eq")) or \
                    (c.get("k") == "Call" and (c["fn"].get("res") or c["fn"].get("def")) in F.fns and c.get("ty") == "bool")
                R.check(ok, "S-loop", key + "/" + pp(c)[:50],
                        "%s: loop condition `%s` is not a `remaining > accounted` counter loop" % (f["root"], pp(c)[:80]), where=loc(x))
            else:
                # raw loop: top-level statements of the body must include a transport read whose failure / zero result leaves
                body = x["body"]
                reads = []
                for s in (body.get("stmts", []) if body.get("k") == "Block" else []):
                    e = s.get("init") if s["k"] == "Let" else s.get("e")
                    for y in walk_all(e or {}):
                        if y.get("k") == "Call" and (y["fn"].get("name") in ("read_exact", "poll_read") or
                                                      (y["fn"].get("res") or y["fn"].get("def") or "").startswith("common::utils::read_")):
                            reads.append(y)
                        elif y.get("k") == "Call" and (y["fn"].get("res") or y["fn"].get("def")) in F.fns:
                            # a helper of the crate that performs the read (`poll_read_some(reader, cx, buf)`)
                            hb = nbody(F, y["fn"].get("res") or y["fn"].get("def"))
                            if hb is not None and any(z.get("k") == "Call" and z["fn"].get("name") in ("read_exact", "poll_read") for z in walk_all(hb)):
                                reads.append(y)
                        if y.get("k") in ("If", "Loop", "While"):
                            pass
                inner_loops = [y for y in walk_all(body) if y.get("k") == "Loop" and y is not x]
                only_dispatch = body.get("k") == "Match" or (body.get("k") == "Block" and not body.get("stmts"))
                if reads:
                    R.ok("S-loop", key + "/io-progress", "each iteration reads from the transport; EOF / zero-length read leaves the loop")
                elif only_dispatch and inner_loops:
                    # poll's outer `loop { match state {..} }`: every arm either returns or switches Header -> Body once
                    R.ok("S-loop", key + "/state-dispatch", "outer state dispatch: each pass returns or moves Header -> Body")
                else:
                    R.fail("S-loop", key + "/no-progress", "%s: loop without a transport read or counter in its body" % f["root"], where=loc(x))
    # one floor on the total: a loop rewritten from one kind to another (loop -> for, while -> loop) is still a loop
    R.floor("S-loop", "loops in the decode closure", n["While"] + n["Loop"] + n["For"], 15)
    R.analysed["loops"] = n
    # recursion: the decode call graph is acyclic
    from r_io import callgraph
    g = callgraph(F)
    cl = closure_of(F, decode_roots(F))
    color = {}
    cyc = []

    def dfs(u, stack):
        color[u] = 1
        for v in g.get(u, ()):
            if v not in cl:
                continue
            if color.get(v) == 1:
                cyc.append((u, v))
            elif v not in color:
                dfs(v, stack)
        color[u] = 2
    import sys
    sys.setrecursionlimit(10000)
    for u in sorted(cl):
        if u not in color:
            dfs(u, [])
    R.check(not cyc, "S-loop", "no-recursion", "recursive calls in the decode closure: %s" % cyc[:2])


def _bounded(F, e, b, f, depth=0, seen=()):
    """Provenance of an allocation size: (True, why) when the expression is a widened u8/u16, or derives from the
    fixed header's remaining length (< 2^28, enforced by the var-int readers) by subtraction only."""
    e = strip(e)
    while e.get("k") in ("Try", "Await") or (e.get("k") == "Cast" and e.get("ty") in ("usize", "u32", "u64")) or \
            (e.get("k") == "Call" and e["fn"].get("name") in ("from", "into", "ok_or", "ok_or_else", "unwrap_or", "min") and e["args"] and
             (e.get("ty") or "").replace("core::result::Result<", "").split(",")[0].strip(" >") in ("usize", "u32", "u64", "core::option::Option<usize")):
        if (e.get("ty") or "") in ("u8", "u16"):
            break
        if e.get("k") == "Cast" and e.get("from_ty") in ("u8", "u16"):
            return True, "widened %s" % e["from_ty"]
        e = strip(e["e"] if e.get("k") != "Call" else e["args"][0])
    ty = _err_free_ty(e).lstrip("&")
    if ty in ("u8", "u16"):
        return True, "a %s" % ty
    if depth > 12:
        return False, "provenance too deep"
    k = e.get("k")
    if k == "Field" and e.get("name") == "remaining_len" and (e.get("adt") or "").endswith("::Header"):
        return True, "header.remaining_len"
    if k == "Call" and e["fn"].get("name") == "remaining_len" and (e["fn"].get("trait") or "").endswith("PollHeader"):
        return True, "PollHeader::remaining_len"
    if k == "Binary" and e.get("op") in ("Sub", "Div", "Rem", "Shr", "BitAnd"):
        return _bounded(F, e["l"], b, f, depth + 1, seen)
    if k == "Call" and e["fn"].get("name") in ("checked_sub", "saturating_sub") and e["args"]:
        return _bounded(F, e["args"][0], b, f, depth + 1, seen)
    if k == "Call" and (e["fn"].get("res") or e["fn"].get("def")) in F.fns and F.fns[e["fn"].get("res") or e["fn"].get("def")].get("thir"):
        # a helper of the crate: its result expression, with parameters traced back to every call site
        cid = e["fn"].get("res") or e["fn"].get("def")
        cf = F.fns[cid]
        cb = nbody(F, cid)
        tail = unblock(cb)
        okk, why = _bounded(F, tail, cb, cf, depth + 1, seen + (("call", cid),)) if ("call", cid) not in seen else (True, "recursive")
        return okk, "%s: %s" % (cid, why)
    if k in ("Var", "Upvar"):
        vid = e["var"]["id"]
        if (f["id"], vid) in seen:
            return True, "the variable itself, decreased"
        seen = seen + ((f["id"], vid),)
        # only decreasing updates
        for n in walk_all(b):
            if n.get("k") in ("Assign", "AssignOp") and strip(n["l"]).get("k") == "Var" and strip(n["l"])["var"]["id"] == vid:
                if n["k"] == "AssignOp" and n.get("op") in ("SubAssign", "DivAssign", "RemAssign", "ShrAssign"):
                    continue
                if n["k"] == "Assign":
                    okk, why = _bounded(F, n["r"], b, f, depth + 1, seen)
                    if okk:
                        continue
                return False, "%s is updated by %s" % (e["var"].get("name"), pp(n)[:60])
        init = _resolve_let(b, e)
        if init is not e:
            return _all_tails_bounded(F, init, None, b, f, depth, seen)
        # bound by a match-arm pattern: `match (a(), n()) { (None, body_len) => body_len, .. }` -> the scrutinee component
        for n in walk_all(b):
            if n.get("k") == "Match":
                for arm in n["arms"]:
                    pt = arm["pat"]
                    while pt.get("k") == "Deref":
                        pt = pt["sub"]
                    if pt.get("k") == "Binding" and pt["var"]["id"] == vid:
                        return _bounded(F, n["scrut"], b, f, depth + 1, seen)
                    if pt.get("k") == "Leaf":
                        for sub in pt.get("subs", []):
                            q = sub["pat"]
                            while q.get("k") == "Deref":
                                q = q["sub"]
                            if q.get("k") == "Binding" and q["var"]["id"] == vid:
                                sc = unblock(strip(n["scrut"]))
                                if sc.get("k") == "Tuple" and int(sub["idx"]) < len(sc["items"]):
                                    return _bounded(F, sc["items"][int(sub["idx"])], b, f, depth + 1, seen)
        # bound by a tuple pattern: `let (x, rest) = match .. { .. => (a, r1), .. => (b, r2) }`
        for n in walk_all(b):
            if n.get("k") == "Block":
                for st in n.get("stmts", []):
                    if st.get("k") == "Let" and st.get("init") is not None and st["pat"].get("k") == "Leaf":
                        for sub in st["pat"].get("subs", []):
                            q = sub["pat"]
                            if q.get("k") == "Binding" and q["var"]["id"] == vid:
                                return _all_tails_bounded(F, st["init"], int(sub["idx"]), b, f, depth, seen)
        # a parameter: every call site in the crate passes a bounded expression
        params = [(i, p) for i, p in enumerate(q for q in f["thir"]["params"] if q.get("pat") is not None)
                  if p["pat"].get("k") == "Binding" and p["pat"]["var"]["id"] == vid]
        if params:
            idx = params[0][0]
            sites = 0
            for fid2, f2, b2 in all_bodies(F):
                for c in walk_all(b2):
                    if c.get("k") == "Call" and (c["fn"].get("res") or c["fn"].get("def")) == f.get("def", f.get("id")):
                        sites += 1
                        if idx >= len(c["args"]):
                            return False, "call site with fewer arguments"
                        okk, why = _bounded(F, c["args"][idx], b2, f2, depth + 1, seen)
                        if not okk:
                            return False, "call site in %s passes %s (%s)" % (f2["root"], pp(c["args"][idx])[:60], why)
            if sites:
                return True, "parameter bounded at its %d call sites" % sites
            return False, "parameter %s without call sites in the crate" % e["var"].get("name")
    return False, "%s is not derived from a u16 length or the remaining length" % pp(e)[:80]


def _tails(e):
    """The expressions whose value an expression can evaluate to (through blocks, match arms and if branches)."""
    e = unblock(strip(e))
    k = e.get("k")
    if k == "Match":
        out = []
        for arm in e["arms"]:
            out += _tails(arm["body"])
        return out
    if k == "If":
        return _tails(e["then"]) + (_tails(e["else"]) if e.get("else") else [])
    if k == "Block":
        return _tails(e["expr"]) if e.get("expr") is not None else []
    if k in ("Return", "Break", "Continue") or e.get("ty") == "!":
        return []
    return [e]


def _all_tails_bounded(F, init, idx, b, f, depth, seen):
    tails = _tails(init)
    if not tails:
        return False, "no value"
    why = ""
    for t in tails:
        if idx is not None:
            t = unblock(strip(t))
            t0 = t
            while t0.get("k") in ("Try", "Await"):
                t0 = unblock(strip(t0["e"]))
            cid = (t0["fn"].get("res") or t0["fn"].get("def")) if t0.get("k") == "Call" else None
            if t.get("k") != "Tuple" and cid in F.fns and F.fns[cid].get("thir") and ("call", cid) not in seen and depth < 12:
                # `let (x, rest) = helper(..).await?;`: the component of every tuple the helper returns, in the helper's own context
                cf = F.fns[cid]
                cb = nbody(F, cid)
                results = _tails(cb) + [r["e"] for r in walk_all(cb) if r.get("k") == "Return" and r.get("e") is not None]
                if not results:
                    return False, "%s returns no value" % cid
                for r in results:
                    for r2 in _tails(r):
                        r2 = unblock(strip(r2))
                        if r2.get("k") == "Adt" and r2.get("variant") in ("Ok", "Some") and r2.get("fields"):
                            r2 = unblock(strip(r2["fields"][0]["e"]))
                        if r2.get("k") == "Adt" and r2.get("variant") in ("Err", "None"):
                            continue
                        if r2.get("k") != "Tuple" or idx >= len(r2["items"]):
                            return False, "`%s` (returned by %s) is not a tuple value" % (pp(r2)[:60], cid)
                        okk, why = _bounded(F, r2["items"][idx], cb, cf, depth + 1, seen + (("call", cid),))
                        if not okk:
                            return False, "%s: %s" % (cid, why)
                continue
            if t.get("k") != "Tuple" or idx >= len(t["items"]):
                return False, "`%s` is not a tuple value" % pp(t)[:60]
            t = t["items"][idx]
        okk, why = _bounded(F, t, b, f, depth + 1, seen)
        if not okk:
            return False, why
    return True, why


def s_alloc(F, R):
    """Every allocation size in the decode closure is a declared length bounded by the format: a u8/u16
    widened, or derived from the header's remaining length (< 2^28) by subtraction only (provenance is
    followed through local variables and through parameters to every call site in the crate)."""
    n = 0
    for fid, f, b in _bodies(F, decode_roots(F)):
        for x in walk_all(b):
            if x.get("k") != "Call":
                continue
            d = x["fn"].get("def") or ""
            if d in ("alloc::vec::from_elem", "alloc::vec::Vec::<T>::with_capacity", "alloc::vec::Vec::<T, A>::reserve", "alloc::vec::Vec::<T, A>::resize",
                     "alloc::string::String::with_capacity", "alloc::vec::Vec::<T, A>::set_len"):
                if f["root"].endswith("encode_packet"):
                    continue
                n += 1
                ok, why = _bounded(F, x["args"][-1], b, f)
                R.check(ok, "S-alloc", "%s/%s" % (f["root"], d.rsplit("::", 1)[1]),
                        "%s allocates %s bytes: %s" % (f["root"], pp(strip(x["args"][-1]))[:80], why), where=loc(x))
    R.floor("S-alloc", "allocation sites", n, 2)
