//! THIR -> JSON tree. `Scope`, `Use`, `NeverToAny` and type ascriptions are elided
//! (the child is emitted in their place).

use crate::common::*;
use crate::json::J;
use rustc_hir::def_id::LocalDefId;
use rustc_middle::thir::*;
use rustc_middle::ty::{self, TyCtxt};

struct Cx<'a, 'tcx> {
    tcx: TyCtxt<'tcx>,
    thir: &'a Thir<'tcx>,
    owner: LocalDefId,
}

pub fn export_thir<'tcx>(tcx: TyCtxt<'tcx>, ldid: LocalDefId) -> Option<J> {
    let (steal, root) = tcx.thir_body(ldid).ok()?;
    let thir = steal.borrow();
    let cx = Cx { tcx, thir: &thir, owner: ldid };
    let mut j = J::obj();
    let mut params = Vec::new();
    for p in thir.params.iter() {
        let mut pj = J::obj();
        pj.put("ty", J::s(ty_str(p.ty)));
        pj.put("pat", match &p.pat {
            Some(pat) => cx.pat(pat),
            None => J::Null,
        });
        pj.put("self_kind", match p.self_kind {
            Some(k) => J::s(format!("{:?}", k)),
            None => J::Null,
        });
        params.push(pj);
    }
    j.put("params", J::Arr(params));
    j.put("body_ty", match &thir.body_type {
        BodyTy::Fn(sig) => J::obj()
            .set("inputs", J::Arr(sig.inputs().iter().map(|t| J::s(ty_str(*t))).collect()))
            .set("output", J::s(ty_str(sig.output()))),
        BodyTy::Const(t) => J::obj().set("const", J::s(ty_str(*t))),
        BodyTy::GlobalAsm(t) => J::obj().set("asm", J::s(ty_str(*t))),
    });
    j.put("n_exprs", thir.exprs.len().into());
    j.put("root", cx.expr(root));
    Some(j)
}

impl<'a, 'tcx> Cx<'a, 'tcx> {
    fn var(&self, id: LocalVarId) -> J {
        let name = self.tcx.hir_name(id.0).to_string();
        J::obj()
            .set("name", J::s(name))
            .set("id", J::s(format!("{}.{}", id.0.owner.def_id.local_def_index.as_u32(), id.0.local_id.as_u32())))
    }

    fn exprs(&self, ids: &[ExprId]) -> J {
        J::Arr(ids.iter().map(|e| self.expr(*e)).collect())
    }

    fn expr(&self, id: ExprId) -> J {
        let e = &self.thir[id];
        let tcx = self.tcx;
        // transparent wrappers
        match &e.kind {
            ExprKind::Scope { value, .. } => return self.expr(*value),
            ExprKind::Use { source } => return self.expr(*source),
            ExprKind::NeverToAny { source } => return self.expr(*source),
            ExprKind::PlaceTypeAscription { source, .. } => return self.expr(*source),
            ExprKind::ValueTypeAscription { source, .. } => return self.expr(*source),
            _ => {}
        }
        let mut j = J::obj();
        let k: &str;
        match &e.kind {
            ExprKind::Scope { .. }
            | ExprKind::Use { .. }
            | ExprKind::NeverToAny { .. }
            | ExprKind::PlaceTypeAscription { .. }
            | ExprKind::ValueTypeAscription { .. } => unreachable!(),
            ExprKind::If { cond, then, else_opt, .. } => {
                k = "If";
                j.put("cond", self.expr(*cond));
                j.put("then", self.expr(*then));
                j.put("else", match else_opt {
                    Some(x) => self.expr(*x),
                    None => J::Null,
                });
            }
            ExprKind::Call { ty, fun, args, from_hir_call, fn_span } => {
                k = "Call";
                j.put("fn", callee_json(tcx, self.owner.to_def_id(), *ty));
                if !matches!(ty.kind(), ty::FnDef(..)) {
                    j.put("fun", self.expr(*fun));
                }
                j.put("args", self.exprs(args));
                j.put("from_hir_call", J::Bool(*from_hir_call));
                j.put("fn_sp", J::s(span_str(tcx, *fn_span)));
            }
            ExprKind::ByUse { expr, .. } => {
                k = "ByUse";
                j.put("e", self.expr(*expr));
            }
            ExprKind::Deref { arg } => {
                k = "Deref";
                j.put("e", self.expr(*arg));
            }
            ExprKind::Binary { op, lhs, rhs } => {
                k = "Binary";
                j.put("op", J::s(format!("{:?}", op)));
                j.put("l", self.expr(*lhs));
                j.put("r", self.expr(*rhs));
            }
            ExprKind::LogicalOp { op, lhs, rhs } => {
                k = "Logical";
                j.put("op", J::s(format!("{:?}", op)));
                j.put("l", self.expr(*lhs));
                j.put("r", self.expr(*rhs));
            }
            ExprKind::Unary { op, arg } => {
                k = "Unary";
                j.put("op", J::s(format!("{:?}", op)));
                j.put("e", self.expr(*arg));
            }
            ExprKind::Cast { source } => {
                k = "Cast";
                j.put("from_ty", J::s(ty_str(self.thir[*source].ty)));
                j.put("e", self.expr(*source));
            }
            ExprKind::PointerCoercion { cast, source, is_from_as_cast } => {
                k = "PtrCoerce";
                j.put("cast", J::s(format!("{:?}", cast)));
                j.put("as_cast", J::Bool(*is_from_as_cast));
                j.put("from_ty", J::s(ty_str(self.thir[*source].ty)));
                j.put("e", self.expr(*source));
            }
            ExprKind::Loop { body } => {
                k = "Loop";
                j.put("body", self.expr(*body));
            }
            ExprKind::LoopMatch { .. } => {
                k = "LoopMatch";
            }
            ExprKind::Let { expr, pat } => {
                k = "Let";
                j.put("e", self.expr(*expr));
                j.put("pat", self.pat(pat));
            }
            ExprKind::Match { scrutinee, arms, match_source } => {
                k = "Match";
                j.put("src", J::s(format!("{:?}", match_source)));
                j.put("scrut", self.expr(*scrutinee));
                let mut av = Vec::new();
                for a in arms.iter() {
                    let arm = &self.thir[*a];
                    let mut aj = J::obj();
                    aj.put("pat", self.pat(&arm.pattern));
                    aj.put("guard", match arm.guard {
                        Some(g) => self.expr(g),
                        None => J::Null,
                    });
                    aj.put("body", self.expr(arm.body));
                    put_span(tcx, &mut aj, arm.span);
                    av.push(aj);
                }
                j.put("arms", J::Arr(av));
            }
            ExprKind::Block { block } => {
                k = "Block";
                self.block(*block, &mut j);
            }
            ExprKind::Assign { lhs, rhs } => {
                k = "Assign";
                j.put("l", self.expr(*lhs));
                j.put("r", self.expr(*rhs));
            }
            ExprKind::AssignOp { op, lhs, rhs } => {
                k = "AssignOp";
                j.put("op", J::s(format!("{:?}", op)));
                j.put("l", self.expr(*lhs));
                j.put("r", self.expr(*rhs));
            }
            ExprKind::Field { lhs, variant_index, name } => {
                k = "Field";
                let lty = self.thir[*lhs].ty;
                j.put("idx", J::UInt(name.as_u32() as u128));
                if let ty::Adt(def, _) = lty.kind() {
                    let v = def.variant(*variant_index);
                    j.put("name", J::s(v.fields[*name].name.to_string()));
                    j.put("adt", J::s(def_path(tcx, def.did())));
                    if def.is_enum() {
                        j.put("variant", J::s(v.name.to_string()));
                    }
                } else {
                    j.put("name", J::s(format!("{}", name.as_u32())));
                }
                j.put("lhs", self.expr(*lhs));
            }
            ExprKind::Index { lhs, index } => {
                k = "Index";
                j.put("lhs_ty", J::s(ty_str(self.thir[*lhs].ty)));
                j.put("lhs", self.expr(*lhs));
                j.put("index", self.expr(*index));
            }
            ExprKind::VarRef { id } => {
                k = "Var";
                j.put("var", self.var(*id));
            }
            ExprKind::UpvarRef { closure_def_id, var_hir_id } => {
                k = "Upvar";
                j.put("var", self.var(*var_hir_id));
                j.put("closure", J::s(def_path(tcx, *closure_def_id)));
            }
            ExprKind::Borrow { borrow_kind, arg } => {
                k = "Borrow";
                j.put("bk", J::s(format!("{:?}", borrow_kind)));
                j.put("mut", J::Bool(matches!(borrow_kind, rustc_middle::mir::BorrowKind::Mut { .. })));
                j.put("e", self.expr(*arg));
            }
            ExprKind::RawBorrow { mutability, arg } => {
                k = "RawBorrow";
                j.put("mut", J::Bool(mutability.is_mut()));
                j.put("e", self.expr(*arg));
            }
            ExprKind::Break { value, .. } => {
                k = "Break";
                j.put("e", match value {
                    Some(v) => self.expr(*v),
                    None => J::Null,
                });
            }
            ExprKind::Continue { .. } => {
                k = "Continue";
            }
            ExprKind::ConstContinue { value, .. } => {
                k = "ConstContinue";
                j.put("e", self.expr(*value));
            }
            ExprKind::Return { value } => {
                k = "Return";
                j.put("e", match value {
                    Some(v) => self.expr(*v),
                    None => J::Null,
                });
            }
            ExprKind::Become { value } => {
                k = "Become";
                j.put("e", self.expr(*value));
            }
            ExprKind::ConstBlock { did, .. } => {
                k = "ConstBlock";
                j.put("def", J::s(def_path(tcx, *did)));
            }
            ExprKind::Repeat { value, count } => {
                k = "Repeat";
                j.put("e", self.expr(*value));
                j.put("count", J::s(format!("{}", count)));
                if let Some(n) = count.try_to_target_usize(tcx) {
                    j.put("n", J::UInt(n as u128));
                }
            }
            ExprKind::Array { fields } => {
                k = "Array";
                j.put("items", self.exprs(fields));
            }
            ExprKind::Tuple { fields } => {
                k = "Tuple";
                j.put("items", self.exprs(fields));
            }
            ExprKind::Adt(adt) => {
                k = "Adt";
                let def = adt.adt_def;
                let v = def.variant(adt.variant_index);
                j.put("adt", J::s(def_path(tcx, def.did())));
                j.put("variant", J::s(v.name.to_string()));
                j.put("vidx", J::UInt(adt.variant_index.as_u32() as u128));
                let mut fs = Vec::new();
                for f in adt.fields.iter() {
                    fs.push(
                        J::obj()
                            .set("name", J::s(v.fields[f.name].name.to_string()))
                            .set("idx", J::UInt(f.name.as_u32() as u128))
                            .set("e", self.expr(f.expr)),
                    );
                }
                j.put("fields", J::Arr(fs));
                match &adt.base {
                    AdtExprBase::None => {}
                    AdtExprBase::Base(fru) => j.put("base", self.expr(fru.base)),
                    AdtExprBase::DefaultFields(_) => j.put("base", J::s("<default-fields>")),
                }
            }
            ExprKind::PlaceUnwrapUnsafeBinder { source }
            | ExprKind::ValueUnwrapUnsafeBinder { source }
            | ExprKind::WrapUnsafeBinder { source } => {
                k = "UnsafeBinder";
                j.put("e", self.expr(*source));
            }
            ExprKind::Closure(c) => {
                k = "Closure";
                j.put("def", J::s(def_path(tcx, c.closure_id.to_def_id())));
                j.put("upvars", self.exprs(&c.upvars));
                j.put("coroutine", J::Bool(c.movability.is_some()));
            }
            ExprKind::Literal { lit, neg } => {
                k = "Lit";
                j.put("neg", J::Bool(*neg));
                use rustc_ast::LitKind;
                match &lit.node {
                    LitKind::Str(s, _) => j.put("str", J::s(s.to_string())),
                    LitKind::ByteStr(b, _) | LitKind::CStr(b, _) => {
                        j.put("bytes", J::Arr(b.as_byte_str().iter().map(|x| J::UInt(*x as u128)).collect()))
                    }
                    LitKind::Byte(b) => j.put("v", J::UInt(*b as u128)),
                    LitKind::Char(c) => j.put("char", J::UInt(*c as u128)),
                    LitKind::Int(n, _) => j.put("v", J::UInt(n.get())),
                    LitKind::Float(s, _) => j.put("float", J::s(s.to_string())),
                    LitKind::Bool(b) => j.put("v", J::Bool(*b)),
                    LitKind::Err(_) => j.put("err", J::Bool(true)),
                }
            }
            ExprKind::NonHirLiteral { lit, .. } => {
                k = "Lit";
                j.put("v", scalar_int_json(*lit, e.ty));
            }
            ExprKind::ZstLiteral { .. } => {
                k = "Zst";
                if let ty::FnDef(..) = e.ty.kind() {
                    j.put("fn", callee_json(tcx, self.owner.to_def_id(), e.ty));
                }
            }
            ExprKind::NamedConst { def_id, args, .. } => {
                k = "NamedConst";
                j.put("def", J::s(def_path(tcx, *def_id)));
                j.put("name", J::s(tcx.opt_item_name(*def_id).map(|s| s.to_string()).unwrap_or_default()));
                if args.is_empty() || tcx.generics_of(*def_id).count() == 0 {
                    j.put("val", const_item_json(tcx, *def_id));
                } else {
                    // associated const of a concrete type (e.g. u16::MAX via trait): try resolve
                    let typing_env = ty::TypingEnv::post_analysis(tcx, self.owner.to_def_id());
                    let uv = rustc_middle::mir::UnevaluatedConst::new(*def_id, args);
                    match tcx.const_eval_resolve(typing_env, uv, e.span) {
                        Ok(v) => j.put("val", mir_const_value_json(tcx, v, e.ty)),
                        Err(_) => j.put("val", J::Null),
                    }
                }
            }
            ExprKind::ConstParam { param, .. } => {
                k = "ConstParam";
                j.put("name", J::s(param.name.to_string()));
            }
            ExprKind::StaticRef { def_id, .. } => {
                k = "StaticRef";
                j.put("def", J::s(def_path(tcx, *def_id)));
                j.put("mutable", J::Bool(tcx.is_mutable_static(*def_id)));
            }
            ExprKind::InlineAsm(_) => {
                k = "InlineAsm";
            }
            ExprKind::ThreadLocalRef(did) => {
                k = "ThreadLocalRef";
                j.put("def", J::s(def_path(tcx, *did)));
            }
            ExprKind::Yield { value } => {
                k = "Yield";
                j.put("e", self.expr(*value));
            }
        }
        // put "k" first for readability: rebuild
        let mut out = J::obj();
        out.put("k", J::s(k));
        out.put("ty", J::s(ty_str(e.ty)));
        put_span(tcx, &mut out, e.span);
        if let J::Obj(items) = j {
            for (kk, vv) in items {
                out.put(kk, vv);
            }
        }
        out
    }

    fn block(&self, id: BlockId, j: &mut J) {
        let b = &self.thir[id];
        j.put("safety", J::s(match b.safety_mode {
            BlockSafety::Safe => "Safe",
            BlockSafety::BuiltinUnsafe => "BuiltinUnsafe",
            BlockSafety::ExplicitUnsafe(_) => "ExplicitUnsafe",
        }));
        let mut stmts = Vec::new();
        for s in b.stmts.iter() {
            let st = &self.thir[*s];
            match &st.kind {
                StmtKind::Expr { expr, .. } => {
                    stmts.push(J::obj().set("k", J::s("Expr")).set("e", self.expr(*expr)));
                }
                StmtKind::Let { pattern, initializer, else_block, span, .. } => {
                    let mut sj = J::obj();
                    sj.put("k", J::s("Let"));
                    put_span(self.tcx, &mut sj, *span);
                    sj.put("pat", self.pat(pattern));
                    sj.put("init", match initializer {
                        Some(i) => self.expr(*i),
                        None => J::Null,
                    });
                    if let Some(eb) = else_block {
                        let mut ej = J::obj();
                        ej.put("k", J::s("Block"));
                        self.block(*eb, &mut ej);
                        sj.put("else", ej);
                    }
                    stmts.push(sj);
                }
            }
        }
        j.put("stmts", J::Arr(stmts));
        j.put("expr", match b.expr {
            Some(e) => self.expr(e),
            None => J::Null,
        });
    }

    fn pat(&self, p: &Pat<'tcx>) -> J {
        let tcx = self.tcx;
        let mut j = J::obj();
        let k: &str;
        let mut body = J::obj();
        match &p.kind {
            PatKind::Missing => k = "Missing",
            PatKind::Wild => k = "Wild",
            PatKind::Binding { name, mode, var, subpattern, .. } => {
                k = "Binding";
                body.put("name", J::s(name.to_string()));
                body.put("var", self.var(*var));
                body.put("mode", J::s(format!("{:?}", mode)));
                if let Some(sp) = subpattern {
                    body.put("sub", self.pat(sp));
                }
            }
            PatKind::Variant { adt_def, variant_index, subpatterns, .. } => {
                k = "Variant";
                let v = adt_def.variant(*variant_index);
                body.put("adt", J::s(def_path(tcx, adt_def.did())));
                body.put("variant", J::s(v.name.to_string()));
                body.put("vidx", J::UInt(variant_index.as_u32() as u128));
                body.put("subs", J::Arr(subpatterns.iter().map(|fp| {
                    J::obj()
                        .set("field", J::s(v.fields[fp.field].name.to_string()))
                        .set("idx", J::UInt(fp.field.as_u32() as u128))
                        .set("pat", self.pat(&fp.pattern))
                }).collect()));
            }
            PatKind::Leaf { subpatterns } => {
                k = "Leaf";
                if let ty::Adt(def, _) = p.ty.kind() {
                    body.put("adt", J::s(def_path(tcx, def.did())));
                }
                body.put("subs", J::Arr(subpatterns.iter().map(|fp| {
                    let name = match p.ty.kind() {
                        ty::Adt(def, _) if !def.is_enum() => def.non_enum_variant().fields[fp.field].name.to_string(),
                        _ => format!("{}", fp.field.as_u32()),
                    };
                    J::obj()
                        .set("field", J::s(name))
                        .set("idx", J::UInt(fp.field.as_u32() as u128))
                        .set("pat", self.pat(&fp.pattern))
                }).collect()));
            }
            PatKind::Deref { subpattern, .. } => {
                k = "Deref";
                body.put("sub", self.pat(subpattern));
            }
            PatKind::DerefPattern { subpattern, .. } => {
                k = "DerefPattern";
                body.put("sub", self.pat(subpattern));
            }
            PatKind::Constant { value } => {
                k = "Const";
                body.put("val", valtree_json(tcx, *value));
            }
            PatKind::Range(r) => {
                k = "Range";
                let b = |x: &PatRangeBoundary<'tcx>| match x {
                    PatRangeBoundary::Finite(v) => match v.try_to_leaf() {
                        Some(l) => scalar_int_json(l, r.ty),
                        None => J::Null,
                    },
                    PatRangeBoundary::NegInfinity => J::s("-inf"),
                    PatRangeBoundary::PosInfinity => J::s("+inf"),
                };
                body.put("lo", b(&r.lo));
                body.put("hi", b(&r.hi));
                body.put("end", J::s(format!("{:?}", r.end)));
            }
            PatKind::Slice { prefix, slice, suffix } | PatKind::Array { prefix, slice, suffix } => {
                k = if matches!(p.kind, PatKind::Slice { .. }) { "Slice" } else { "Array" };
                body.put("prefix", J::Arr(prefix.iter().map(|x| self.pat(x)).collect()));
                body.put("slice", match slice {
                    Some(s) => self.pat(s),
                    None => J::Null,
                });
                body.put("suffix", J::Arr(suffix.iter().map(|x| self.pat(x)).collect()));
            }
            PatKind::Or { pats } => {
                k = "Or";
                body.put("pats", J::Arr(pats.iter().map(|x| self.pat(x)).collect()));
            }
            PatKind::Guard { subpattern, condition } => {
                k = "Guard";
                body.put("sub", self.pat(subpattern));
                body.put("cond", self.expr(*condition));
            }
            PatKind::Never => k = "Never",
            PatKind::Error(_) => k = "Error",
        }
        j.put("k", J::s(k));
        j.put("ty", J::s(ty_str(p.ty)));
        if let Some(extra) = &p.extra {
            if let Some(did) = extra.expanded_const {
                j.put("named_const", J::s(def_path(tcx, did)));
            }
        }
        if let J::Obj(items) = body {
            for (kk, vv) in items {
                j.put(kk, vv);
            }
        }
        j
    }
}
