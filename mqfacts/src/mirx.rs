//! `mir_built` (pre-borrowck, pre-coroutine-transform MIR with overflow/bounds asserts) -> JSON.

use crate::common::*;
use crate::json::J;
use rustc_hir::def_id::LocalDefId;
use rustc_middle::mir::*;
use rustc_middle::ty::{self, TyCtxt};

pub fn export_mir<'tcx>(tcx: TyCtxt<'tcx>, ldid: LocalDefId) -> Option<J> {
    // mir_built is only meaningful for things with bodies that are not const-only ctor shims
    let steal = tcx.mir_built(ldid);
    if steal.is_stolen() {
        return None;
    }
    let body = steal.borrow();
    let body: &Body<'tcx> = &body;
    let mut j = J::obj();
    j.put("arg_count", body.arg_count.into());
    // local names from debug info
    let mut names: Vec<Option<String>> = vec![None; body.local_decls.len()];
    for vdi in body.var_debug_info.iter() {
        if let VarDebugInfoContents::Place(p) = &vdi.value {
            if p.projection.is_empty() {
                names[p.local.as_usize()] = Some(vdi.name.to_string());
            }
        }
    }
    let mut locals = Vec::new();
    for (l, d) in body.local_decls.iter_enumerated() {
        let mut lj = J::obj();
        lj.put("ty", J::s(ty_str(d.ty)));
        if let Some(n) = &names[l.as_usize()] {
            lj.put("name", J::s(n.clone()));
        }
        lj.put("user", J::Bool(d.is_user_variable()));
        lj.put("mut", J::Bool(d.mutability.is_mut()));
        locals.push(lj);
    }
    j.put("locals", J::Arr(locals));
    let cx = Mx { tcx, body, owner: ldid };
    let mut blocks = Vec::new();
    for (_bb, data) in body.basic_blocks.iter_enumerated() {
        let mut bj = J::obj();
        bj.put("cleanup", J::Bool(data.is_cleanup));
        let mut stmts = Vec::new();
        for s in data.statements.iter() {
            if let Some(sj) = cx.stmt(s) {
                stmts.push(sj);
            }
        }
        bj.put("stmts", J::Arr(stmts));
        bj.put("term", match &data.terminator {
            Some(t) => cx.term(t),
            None => J::Null,
        });
        blocks.push(bj);
    }
    j.put("blocks", J::Arr(blocks));
    Some(j)
}

struct Mx<'a, 'tcx> {
    tcx: TyCtxt<'tcx>,
    body: &'a Body<'tcx>,
    owner: LocalDefId,
}

impl<'a, 'tcx> Mx<'a, 'tcx> {
    fn place(&self, p: &Place<'tcx>) -> J {
        let tcx = self.tcx;
        let mut j = J::obj();
        j.put("l", J::UInt(p.local.as_u32() as u128));
        if !p.projection.is_empty() {
            let mut proj = Vec::new();
            let mut pty = PlaceTy::from_ty(self.body.local_decls[p.local].ty);
            for elem in p.projection.iter() {
                let ej = match elem {
                    ProjectionElem::Deref => J::obj().set("k", J::s("Deref")),
                    ProjectionElem::Field(f, fty) => {
                        let mut e = J::obj().set("k", J::s("Field")).set("i", J::UInt(f.as_u32() as u128));
                        if let ty::Adt(def, _) = pty.ty.kind() {
                            let v = match pty.variant_index {
                                Some(vi) => Some(def.variant(vi)),
                                None if !def.is_enum() => Some(def.non_enum_variant()),
                                None => None,
                            };
                            if let Some(v) = v {
                                if f.as_usize() < v.fields.len() {
                                    e.put("name", J::s(v.fields[f].name.to_string()));
                                }
                            }
                            e.put("adt", J::s(def_path(tcx, def.did())));
                        }
                        e.put("ty", J::s(ty_str(fty)));
                        e
                    }
                    ProjectionElem::Index(l) => J::obj().set("k", J::s("Index")).set("l", J::UInt(l.as_u32() as u128)),
                    ProjectionElem::ConstantIndex { offset, min_length, from_end } => J::obj()
                        .set("k", J::s("ConstantIndex"))
                        .set("offset", J::UInt(offset as u128))
                        .set("min_length", J::UInt(min_length as u128))
                        .set("from_end", J::Bool(from_end)),
                    ProjectionElem::Subslice { from, to, from_end } => J::obj()
                        .set("k", J::s("Subslice"))
                        .set("from", J::UInt(from as u128))
                        .set("to", J::UInt(to as u128))
                        .set("from_end", J::Bool(from_end)),
                    ProjectionElem::Downcast(name, vi) => J::obj()
                        .set("k", J::s("Downcast"))
                        .set("variant", match name {
                            Some(n) => J::s(n.to_string()),
                            None => J::Null,
                        })
                        .set("vidx", J::UInt(vi.as_u32() as u128)),
                    ProjectionElem::OpaqueCast(_) => J::obj().set("k", J::s("OpaqueCast")),
                    ProjectionElem::UnwrapUnsafeBinder(_) => J::obj().set("k", J::s("UnwrapUnsafeBinder")),
                };
                proj.push(ej);
                pty = pty.projection_ty(tcx, elem);
            }
            j.put("proj", J::Arr(proj));
            j.put("ty", J::s(ty_str(pty.ty)));
        }
        j
    }

    fn operand(&self, o: &Operand<'tcx>) -> J {
        match o {
            Operand::Copy(p) => J::obj().set("k", J::s("Copy")).set("p", self.place(p)),
            Operand::Move(p) => J::obj().set("k", J::s("Move")).set("p", self.place(p)),
            Operand::Constant(c) => self.constant(c),
            Operand::RuntimeChecks(rc) => J::obj().set("k", J::s("RuntimeChecks")).set("which", J::s(format!("{:?}", rc))),
        }
    }

    fn constant(&self, c: &ConstOperand<'tcx>) -> J {
        let tcx = self.tcx;
        let ty = c.const_.ty();
        let mut j = J::obj().set("k", J::s("Const")).set("ty", J::s(ty_str(ty)));
        if let ty::FnDef(..) = ty.kind() {
            j.put("fn", callee_json(tcx, self.owner.to_def_id(), ty));
            return j;
        }
        let typing_env = ty::TypingEnv::post_analysis(tcx, self.owner.to_def_id());
        match c.const_ {
            Const::Val(v, t) => j.put("v", mir_const_value_json(tcx, v, t)),
            Const::Unevaluated(uv, t) => {
                j.put("def", J::s(def_path(tcx, uv.def)));
                // not evaluated here: const evaluation would steal `mir_built` of the
                // const's body before it is exported. Look the value up in "consts".
                let _ = (typing_env, t);
                if uv.promoted.is_some() {
                    j.put("promoted", J::Bool(true));
                }
            }
            Const::Ty(_, ct) => {
                if let ty::ConstKind::Value(v) = ct.kind() {
                    j.put("v", valtree_json(tcx, v));
                } else {
                    j.put("s", J::s(format!("{}", ct)));
                }
            }
        }
        j
    }

    fn rvalue(&self, rv: &Rvalue<'tcx>) -> J {
        let tcx = self.tcx;
        match rv {
            Rvalue::Use(o, _) => J::obj().set("k", J::s("Use")).set("o", self.operand(o)),
            Rvalue::Repeat(o, n) => J::obj().set("k", J::s("Repeat")).set("o", self.operand(o)).set("n", J::s(format!("{}", n))),
            Rvalue::Ref(_, bk, p) => J::obj()
                .set("k", J::s("Ref"))
                .set("mut", J::Bool(matches!(bk, BorrowKind::Mut { .. })))
                .set("bk", J::s(format!("{:?}", bk)))
                .set("p", self.place(p)),
            Rvalue::ThreadLocalRef(d) => J::obj().set("k", J::s("ThreadLocalRef")).set("def", J::s(def_path(tcx, *d))),
            Rvalue::RawPtr(kind, p) => J::obj().set("k", J::s("RawPtr")).set("kind", J::s(format!("{:?}", kind))).set("p", self.place(p)),
            Rvalue::Cast(kind, o, t) => J::obj()
                .set("k", J::s("Cast"))
                .set("kind", J::s(format!("{:?}", kind)))
                .set("o", self.operand(o))
                .set("from_ty", J::s(ty_str(o.ty(&self.body.local_decls, tcx))))
                .set("ty", J::s(ty_str(*t))),
            Rvalue::BinaryOp(op, ab) => J::obj()
                .set("k", J::s("BinaryOp"))
                .set("op", J::s(format!("{:?}", op)))
                .set("a", self.operand(&ab.0))
                .set("b", self.operand(&ab.1))
                .set("a_ty", J::s(ty_str(ab.0.ty(&self.body.local_decls, tcx)))),
            Rvalue::UnaryOp(op, o) => J::obj().set("k", J::s("UnaryOp")).set("op", J::s(format!("{:?}", op))).set("o", self.operand(o)),
            Rvalue::Discriminant(p) => J::obj().set("k", J::s("Discriminant")).set("p", self.place(p)),
            Rvalue::Aggregate(kind, ops) => {
                let mut j = J::obj().set("k", J::s("Aggregate"));
                match &**kind {
                    AggregateKind::Array(t) => {
                        j.put("agg", J::s("Array"));
                        j.put("elem_ty", J::s(ty_str(*t)));
                    }
                    AggregateKind::Tuple => j.put("agg", J::s("Tuple")),
                    AggregateKind::Adt(did, vi, _, _, _) => {
                        j.put("agg", J::s("Adt"));
                        let def = tcx.adt_def(*did);
                        j.put("adt", J::s(def_path(tcx, *did)));
                        let v = def.variant(*vi);
                        j.put("variant", J::s(v.name.to_string()));
                        j.put("fields", J::Arr(v.fields.iter().map(|f| J::s(f.name.to_string())).collect()));
                    }
                    AggregateKind::Closure(did, _) => {
                        j.put("agg", J::s("Closure"));
                        j.put("def", J::s(def_path(tcx, *did)));
                    }
                    AggregateKind::Coroutine(did, _) => {
                        j.put("agg", J::s("Coroutine"));
                        j.put("def", J::s(def_path(tcx, *did)));
                    }
                    AggregateKind::CoroutineClosure(did, _) => {
                        j.put("agg", J::s("CoroutineClosure"));
                        j.put("def", J::s(def_path(tcx, *did)));
                    }
                    AggregateKind::RawPtr(..) => j.put("agg", J::s("RawPtr")),
                }
                j.put("ops", J::Arr(ops.iter().map(|o| self.operand(o)).collect()));
                j
            }
            Rvalue::CopyForDeref(p) => J::obj().set("k", J::s("CopyForDeref")).set("p", self.place(p)),
            Rvalue::WrapUnsafeBinder(o, _) => J::obj().set("k", J::s("WrapUnsafeBinder")).set("o", self.operand(o)),
        }
    }

    fn stmt(&self, s: &Statement<'tcx>) -> Option<J> {
        let mut j = match &s.kind {
            StatementKind::Assign(b) => {
                let (p, rv) = &**b;
                J::obj().set("k", J::s("Assign")).set("p", self.place(p)).set("rv", self.rvalue(rv))
            }
            StatementKind::SetDiscriminant { place, variant_index } => J::obj()
                .set("k", J::s("SetDiscriminant"))
                .set("p", self.place(place))
                .set("vidx", J::UInt(variant_index.as_u32() as u128)),
            StatementKind::Intrinsic(i) => J::obj().set("k", J::s("Intrinsic")).set("s", J::s(format!("{:?}", i))),
            StatementKind::FakeRead(..)
            | StatementKind::StorageLive(_)
            | StatementKind::StorageDead(_)
            | StatementKind::PlaceMention(_)
            | StatementKind::AscribeUserType(..)
            | StatementKind::Coverage(_)
            | StatementKind::ConstEvalCounter
            | StatementKind::Nop
            | StatementKind::BackwardIncompatibleDropHint { .. } => return None,
            #[allow(unreachable_patterns)]
            _ => J::obj().set("k", J::s("Other")).set("s", J::s(format!("{:?}", s.kind))),
        };
        put_span(self.tcx, &mut j, s.source_info.span);
        Some(j)
    }

    fn term(&self, t: &Terminator<'tcx>) -> J {
        let bb = |b: BasicBlock| J::UInt(b.as_u32() as u128);
        let obb = |b: Option<BasicBlock>| match b {
            Some(b) => J::UInt(b.as_u32() as u128),
            None => J::Null,
        };
        let unwind = |u: &UnwindAction| match u {
            UnwindAction::Cleanup(b) => J::UInt(b.as_u32() as u128),
            _ => J::Null,
        };
        let mut j = match &t.kind {
            TerminatorKind::Goto { target } => J::obj().set("k", J::s("Goto")).set("target", bb(*target)),
            TerminatorKind::SwitchInt { discr, targets } => {
                let mut tv = Vec::new();
                for (v, b) in targets.iter() {
                    tv.push(J::Arr(vec![J::UInt(v), bb(b)]));
                }
                J::obj()
                    .set("k", J::s("SwitchInt"))
                    .set("discr", self.operand(discr))
                    .set("discr_ty", J::s(ty_str(discr.ty(&self.body.local_decls, self.tcx))))
                    .set("targets", J::Arr(tv))
                    .set("otherwise", bb(targets.otherwise()))
            }
            TerminatorKind::UnwindResume => J::obj().set("k", J::s("UnwindResume")),
            TerminatorKind::UnwindTerminate(_) => J::obj().set("k", J::s("UnwindTerminate")),
            TerminatorKind::Return => J::obj().set("k", J::s("Return")),
            TerminatorKind::Unreachable => J::obj().set("k", J::s("Unreachable")),
            TerminatorKind::Drop { place, target, unwind: u, .. } => J::obj()
                .set("k", J::s("Drop"))
                .set("p", self.place(place))
                .set("target", bb(*target))
                .set("unwind", unwind(u)),
            TerminatorKind::Call { func, args, destination, target, unwind: u, call_source, .. } => {
                let mut c = J::obj().set("k", J::s("Call"));
                c.put("func", self.operand(func));
                c.put("args", J::Arr(args.iter().map(|a| self.operand(&a.node)).collect()));
                c.put("dest", self.place(destination));
                c.put("target", obb(*target));
                c.put("unwind", unwind(u));
                c.put("source", J::s(format!("{:?}", call_source)));
                c
            }
            TerminatorKind::TailCall { func, args, .. } => J::obj()
                .set("k", J::s("TailCall"))
                .set("func", self.operand(func))
                .set("args", J::Arr(args.iter().map(|a| self.operand(&a.node)).collect())),
            TerminatorKind::Assert { cond, expected, msg, target, unwind: u } => {
                let mut a = J::obj().set("k", J::s("Assert"));
                a.put("cond", self.operand(cond));
                a.put("expected", J::Bool(*expected));
                let (mk, ops): (String, Vec<J>) = match &**msg {
                    AssertKind::BoundsCheck { len, index } => ("BoundsCheck".into(), vec![self.operand(len), self.operand(index)]),
                    AssertKind::Overflow(op, a1, b1) => (format!("Overflow:{:?}", op), vec![self.operand(a1), self.operand(b1)]),
                    AssertKind::OverflowNeg(o) => ("OverflowNeg".into(), vec![self.operand(o)]),
                    AssertKind::DivisionByZero(o) => ("DivisionByZero".into(), vec![self.operand(o)]),
                    AssertKind::RemainderByZero(o) => ("RemainderByZero".into(), vec![self.operand(o)]),
                    other => (format!("{:?}", std::mem::discriminant(other)), vec![]),
                };
                a.put("msg", J::s(mk));
                a.put("ops", J::Arr(ops));
                a.put("target", bb(*target));
                a.put("unwind", unwind(u));
                a
            }
            TerminatorKind::Yield { value, resume, drop, .. } => J::obj()
                .set("k", J::s("Yield"))
                .set("value", self.operand(value))
                .set("target", bb(*resume))
                .set("drop", obb(*drop)),
            TerminatorKind::CoroutineDrop => J::obj().set("k", J::s("CoroutineDrop")),
            TerminatorKind::FalseEdge { real_target, imaginary_target } => J::obj()
                .set("k", J::s("FalseEdge"))
                .set("target", bb(*real_target))
                .set("imaginary", bb(*imaginary_target)),
            TerminatorKind::FalseUnwind { real_target, unwind: u } => J::obj()
                .set("k", J::s("FalseUnwind"))
                .set("target", bb(*real_target))
                .set("unwind", unwind(u)),
            TerminatorKind::InlineAsm { .. } => J::obj().set("k", J::s("InlineAsm")),
        };
        put_span(self.tcx, &mut j, t.source_info.span);
        j
    }
}
