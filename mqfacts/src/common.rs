//! Shared helpers: spans, expansion info, def paths, types, constants.

use crate::json::J;
use rustc_hir::def_id::DefId;
use rustc_middle::ty::{self, Ty, TyCtxt};
use rustc_span::hygiene::ExpnKind;
use rustc_span::Span;

/// "file:line:col" of the *call site* of the outermost macro (or the span itself).
pub fn span_str(tcx: TyCtxt<'_>, sp: Span) -> String {
    let sp = sp.source_callsite();
    let sm = tcx.sess.source_map();
    let loc = sm.lookup_char_pos(sp.lo());
    let name = format!("{}", loc.file.name.prefer_local_unconditionally());
    format!("{}:{}:{}", name, loc.line, loc.col.0 + 1)
}

/// "file:line:col" of the span inside the macro definition (no callsite walk).
pub fn span_inner_str(tcx: TyCtxt<'_>, sp: Span) -> String {
    let sm = tcx.sess.source_map();
    let loc = sm.lookup_char_pos(sp.lo());
    let name = format!("{}", loc.file.name.prefer_local_unconditionally());
    format!("{}:{}:{}", name, loc.line, loc.col.0 + 1)
}

/// Macro / desugaring backtrace, innermost first. Empty when not from expansion.
pub fn expansion(sp: Span) -> Vec<String> {
    let mut v = Vec::new();
    if !sp.from_expansion() {
        return v;
    }
    for ed in sp.macro_backtrace() {
        match ed.kind {
            ExpnKind::Macro(_, name) => v.push(name.to_string()),
            ExpnKind::Desugaring(k) => v.push(format!("desugar:{:?}", k)),
            ExpnKind::AstPass(p) => v.push(format!("astpass:{:?}", p)),
            ExpnKind::Root => {}
        }
    }
    v
}

pub fn put_span(tcx: TyCtxt<'_>, j: &mut J, sp: Span) {
    j.put("sp", J::s(span_str(tcx, sp)));
    let e = expansion(sp);
    if !e.is_empty() {
        j.put("exp", J::Arr(e.into_iter().map(J::Str).collect()));
        j.put("isp", J::s(span_inner_str(tcx, sp)));
    }
}

pub fn def_path(tcx: TyCtxt<'_>, did: DefId) -> String {
    tcx.def_path_str(did)
}

pub fn ty_str<'tcx>(ty: Ty<'tcx>) -> String {
    format!("{}", ty)
}

/// Structured, shallow description of a type (kind + adt path + args).
pub fn ty_json<'tcx>(tcx: TyCtxt<'tcx>, ty: Ty<'tcx>) -> J {
    let mut j = J::obj();
    j.put("s", J::s(ty_str(ty)));
    match ty.kind() {
        ty::Adt(def, args) => {
            j.put("k", J::s("adt"));
            j.put("adt", J::s(def_path(tcx, def.did())));
            let a: Vec<J> = args.iter().filter_map(|a| a.as_type()).map(|t| J::s(ty_str(t))).collect();
            j.put("args", J::Arr(a));
        }
        ty::Ref(_, inner, m) => {
            j.put("k", J::s("ref"));
            j.put("mut", J::Bool(m.is_mut()));
            j.put("inner", J::s(ty_str(*inner)));
        }
        ty::RawPtr(inner, m) => {
            j.put("k", J::s("rawptr"));
            j.put("mut", J::Bool(m.is_mut()));
            j.put("inner", J::s(ty_str(*inner)));
        }
        ty::Array(inner, len) => {
            j.put("k", J::s("array"));
            j.put("inner", J::s(ty_str(*inner)));
            j.put("len", J::s(format!("{}", len)));
            if let Some(n) = len.try_to_target_usize(tcx) {
                j.put("n", J::UInt(n as u128));
            }
        }
        ty::Slice(inner) => {
            j.put("k", J::s("slice"));
            j.put("inner", J::s(ty_str(*inner)));
        }
        ty::Tuple(ts) => {
            j.put("k", J::s("tuple"));
            j.put("args", J::Arr(ts.iter().map(|t| J::s(ty_str(t))).collect()));
        }
        ty::FnDef(did, args) => {
            j.put("k", J::s("fndef"));
            j.put("def", J::s(def_path(tcx, *did)));
            j.put("args", J::Arr(args.iter().map(|a| J::s(format!("{}", a))).collect()));
        }
        ty::Closure(did, _) => {
            j.put("k", J::s("closure"));
            j.put("def", J::s(def_path(tcx, *did)));
        }
        ty::Coroutine(did, _) => {
            j.put("k", J::s("coroutine"));
            j.put("def", J::s(def_path(tcx, *did)));
        }
        ty::Param(p) => {
            j.put("k", J::s("param"));
            j.put("name", J::s(p.name.to_string()));
        }
        ty::Bool | ty::Char | ty::Int(_) | ty::Uint(_) | ty::Float(_) | ty::Str | ty::Never => {
            j.put("k", J::s("prim"));
        }
        _ => {
            j.put("k", J::s("other"));
        }
    }
    j
}

/// Description of a callee given its `FnDef` type: definition path, generic args,
/// the impl-resolved instance when resolvable, and trait/impl context.
pub fn callee_json<'tcx>(tcx: TyCtxt<'tcx>, caller: DefId, fty: Ty<'tcx>) -> J {
    let mut j = J::obj();
    match fty.kind() {
        ty::FnDef(did, args) => {
            j.put("def", J::s(def_path(tcx, *did)));
            j.put("name", J::s(tcx.opt_item_name(*did).map(|s| s.to_string()).unwrap_or_default()));
            j.put("krate", J::s(tcx.crate_name(did.krate).to_string()));
            j.put("args", J::Arr(args.iter().map(|a| J::s(format!("{}", a))).collect()));
            if let Some(tr) = tcx.trait_of_assoc(*did) {
                j.put("trait", J::s(def_path(tcx, tr)));
                if let Some(self_ty) = args.types().next() {
                    j.put("self_ty", J::s(ty_str(self_ty)));
                }
            } else if let Some(imp) = tcx.inherent_impl_of_assoc(*did) {
                let st = tcx.type_of(imp).instantiate_identity().skip_norm_wip();
                j.put("impl_self", J::s(ty_str(st)));
            }
            // impl resolution
            let typing_env = ty::TypingEnv::post_analysis(tcx, caller);
            if let Ok(Some(inst)) = ty::Instance::try_resolve(tcx, typing_env, *did, args) {
                let rd = inst.def_id();
                if rd != *did {
                    j.put("res", J::s(def_path(tcx, rd)));
                }
                let rk = match inst.def {
                    ty::InstanceKind::Item(_) => "Item",
                    ty::InstanceKind::Intrinsic(_) => "Intrinsic",
                    ty::InstanceKind::Virtual(..) => "Virtual",
                    ty::InstanceKind::ClosureOnceShim { .. } => "ClosureOnceShim",
                    ty::InstanceKind::FnPtrShim(..) => "FnPtrShim",
                    ty::InstanceKind::DropGlue(..) => "DropGlue",
                    ty::InstanceKind::CloneShim(..) => "CloneShim",
                    _ => "Other",
                };
                j.put("res_kind", J::s(rk));
            } else {
                j.put("res_kind", J::s("Unresolved"));
            }
            j.put("sig_out", J::s(ty_str(tcx.fn_sig(*did).instantiate(tcx, args).skip_norm_wip().skip_binder().output())));
        }
        ty::FnPtr(..) => {
            j.put("fnptr", J::s(ty_str(fty)));
        }
        _ => {
            j.put("other", J::s(ty_str(fty)));
        }
    }
    j
}

/// Evaluate a constant item to JSON (ints/bools/chars as numbers, &[u8]/&str as byte list / string).
pub fn const_item_json<'tcx>(tcx: TyCtxt<'tcx>, did: DefId) -> J {
    let ty = tcx.type_of(did).instantiate_identity().skip_norm_wip();
    let Ok(val) = tcx.const_eval_poly(did) else {
        return J::Null;
    };
    mir_const_value_json(tcx, val, ty)
}

pub fn mir_const_value_json<'tcx>(
    tcx: TyCtxt<'tcx>,
    val: rustc_middle::mir::ConstValue,
    ty: Ty<'tcx>,
) -> J {
    use rustc_middle::mir::ConstValue;
    match val {
        ConstValue::Scalar(s) => {
            if let Ok(int) = s.try_to_scalar_int() {
                scalar_int_json(int, ty)
            } else {
                // thin pointer to data: read `&[u8; N]`
                if let ty::Ref(_, inner, _) = ty.kind() {
                    if let ty::Array(elem, n) = inner.kind() {
                        if matches!(elem.kind(), ty::Uint(ty::UintTy::U8)) {
                            if let (Some(n), Ok(ptr)) = (n.try_to_target_usize(tcx), s.to_pointer(&tcx).discard_err().ok_or(())) {
                                if let Ok(p) = ptr.into_pointer_or_addr() {
                                    let (prov, off) = p.prov_and_relative_offset();
                                    if let Some(rustc_middle::mir::interpret::GlobalAlloc::Memory(a)) = tcx.try_get_global_alloc(prov.alloc_id()) {
                                        let a = a.inner();
                                        let start = off.bytes() as usize;
                                        let end = start + n as usize;
                                        if end <= a.len() {
                                            let bytes = a.inspect_with_uninit_and_ptr_outside_interpreter(start..end);
                                            return bytes_json(bytes, ty);
                                        }
                                    }
                                }
                            }
                        }
                    }
                }
                J::s(format!("<ptr:{}>", ty))
            }
        }
        ConstValue::ZeroSized => J::s("<zst>"),
        ConstValue::Slice { .. } => {
            if let Some(bytes) = val.try_get_slice_bytes_for_diagnostics(tcx) {
                bytes_json(bytes, ty)
            } else {
                J::s("<slice>")
            }
        }
        ConstValue::Indirect { alloc_id, offset } => {
            if let ty::Ref(_, inner, _) = ty.kind() {
                if matches!(inner.kind(), ty::Str | ty::Slice(_)) {
                    if let ty::Slice(e) = inner.kind() {
                        if !matches!(e.kind(), ty::Uint(ty::UintTy::U8)) {
                            return J::s(format!("<indirect:{}>", ty));
                        }
                    }
                    return match val.try_get_slice_bytes_for_diagnostics(tcx) {
                        Some(bytes) => bytes_json(bytes, ty),
                        None => J::s("<slice>"),
                    };
                }
            }
            if let ty::Array(elem, n) = ty.kind() {
                let esize = match elem.kind() {
                    ty::Uint(ty::UintTy::U8) | ty::Bool => 1usize,
                    ty::Uint(ty::UintTy::U16) => 2,
                    ty::Uint(ty::UintTy::U32) | ty::Char => 4,
                    ty::Uint(ty::UintTy::U64) | ty::Uint(ty::UintTy::Usize) => 8,
                    _ => 0,
                };
                if esize > 0 {
                    if let (Some(n), Some(rustc_middle::mir::interpret::GlobalAlloc::Memory(a))) =
                        (n.try_to_target_usize(tcx), tcx.try_get_global_alloc(alloc_id))
                    {
                        let a = a.inner();
                        let start = offset.bytes() as usize;
                        let end = start + n as usize * esize;
                        if end <= a.len() {
                            let bytes = a.inspect_with_uninit_and_ptr_outside_interpreter(start..end);
                            let mut items = Vec::new();
                            for ch in bytes.chunks(esize) {
                                let mut v: u128 = 0;
                                for (i, b) in ch.iter().enumerate() {
                                    v |= (*b as u128) << (8 * i);
                                }
                                items.push(if matches!(elem.kind(), ty::Char) {
                                    J::obj().set("char", J::UInt(v))
                                } else {
                                    J::UInt(v)
                                });
                            }
                            return J::Arr(items);
                        }
                    }
                }
            }
            J::s(format!("<indirect:{}>", ty))
        }
    }
}

fn bytes_json<'tcx>(bytes: &[u8], ty: Ty<'tcx>) -> J {
    let is_str = matches!(ty.peel_refs().kind(), ty::Str);
    if is_str {
        J::obj().set("str", J::s(String::from_utf8_lossy(bytes).to_string()))
    } else {
        J::obj().set("bytes", J::Arr(bytes.iter().map(|b| J::UInt(*b as u128)).collect()))
    }
}

pub fn scalar_int_json<'tcx>(int: ty::ScalarInt, ty: Ty<'tcx>) -> J {
    let bits = int.to_bits(int.size());
    match ty.kind() {
        ty::Bool => J::Bool(bits != 0),
        ty::Char => J::obj().set("char", J::UInt(bits)),
        ty::Int(_) => {
            let size = int.size().bits();
            let v = if size == 128 { bits as i128 } else {
                let sh = 128 - size;
                ((bits << sh) as i128) >> sh
            };
            J::Int(v)
        }
        _ => J::UInt(bits),
    }
}

/// A `ty::Value` (valtree) to JSON: leaves as numbers, branches as lists; &str as {"str":..}.
pub fn valtree_json<'tcx>(tcx: TyCtxt<'tcx>, v: ty::Value<'tcx>) -> J {
    let ty = v.ty;
    if let Some(int) = v.try_to_leaf() {
        return scalar_int_json(int, ty);
    }
    if matches!(ty.peel_refs().kind(), ty::Str | ty::Slice(_) | ty::Array(..)) {
        if let Some(bytes) = v.try_to_raw_bytes(tcx) {
            return bytes_json(bytes, ty);
        }
    }
    valtree_raw(v.valtree)
}

fn valtree_raw<'tcx>(vt: ty::ValTree<'tcx>) -> J {
    if let Some(l) = vt.try_to_leaf() {
        return J::UInt(l.to_bits(l.size()));
    }
    if let Some(b) = vt.try_to_branch() {
        return J::Arr(b.iter().map(|c| match c.kind() {
            ty::ConstKind::Value(v) => valtree_raw(v.valtree),
            _ => J::s(format!("{}", c)),
        }).collect());
    }
    J::Null
}
