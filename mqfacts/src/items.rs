//! Item-level facts: ADTs with evaluated discriminants and field visibility,
//! evaluated constants, impl table, function headers.

use crate::common::*;
use crate::json::J;
use rustc_hir::def::DefKind;
use rustc_hir::def_id::{DefId, LocalDefId};
use rustc_middle::ty::{self, TyCtxt};

pub fn export_items<'tcx>(tcx: TyCtxt<'tcx>) -> (J, J) {
    let mut adts = Vec::new();
    let mut consts = Vec::new();
    for ldid in tcx.hir_crate_items(()).definitions() {
        let did: DefId = ldid.to_def_id();
        match tcx.def_kind(did) {
            DefKind::Struct | DefKind::Enum | DefKind::Union => {
                adts.push(adt_json(tcx, did));
            }
            DefKind::Const { .. } | DefKind::AssocConst { .. } => {
                // only non-generic consts can be evaluated
                if tcx.generics_of(did).count() == 0 && !in_test_cfg(tcx, did) {
                    let mut c = J::obj();
                    c.put("path", J::s(def_path(tcx, did)));
                    c.put("name", J::s(tcx.opt_item_name(did).map(|s| s.to_string()).unwrap_or_default()));
                    c.put("ty", J::s(ty_str(tcx.type_of(did).instantiate_identity().skip_norm_wip())));
                    c.put("val", const_item_json(tcx, did));
                    put_span(tcx, &mut c, tcx.def_span(did));
                    c.put("parent", J::s(def_path(tcx, tcx.parent(did))));
                    consts.push(c);
                }
            }
            _ => {}
        }
    }
    (J::Arr(adts), J::Arr(consts))
}

fn in_test_cfg(_tcx: TyCtxt<'_>, _did: DefId) -> bool {
    false
}

fn vis_str(tcx: TyCtxt<'_>, vis: ty::Visibility<DefId>) -> String {
    match vis {
        ty::Visibility::Public => "pub".to_string(),
        ty::Visibility::Restricted(m) => {
            if m.is_crate_root() {
                "crate".to_string()
            } else {
                format!("in:{}", def_path(tcx, m))
            }
        }
    }
}

fn adt_json<'tcx>(tcx: TyCtxt<'tcx>, did: DefId) -> J {
    let def = tcx.adt_def(did);
    let mut j = J::obj();
    j.put("path", J::s(def_path(tcx, did)));
    j.put("name", J::s(tcx.opt_item_name(did).map(|s| s.to_string()).unwrap_or_default()));
    j.put("kind", J::s(if def.is_enum() { "enum" } else if def.is_union() { "union" } else { "struct" }));
    j.put("vis", J::s(vis_str(tcx, tcx.visibility(did))));
    j.put("module", J::s(def_path(tcx, tcx.parent_module_from_def_id(did.expect_local()).to_def_id())));
    let repr = def.repr();
    j.put("repr_int", match repr.int {
        Some(i) => J::s(format!("{:?}", i)),
        None => J::Null,
    });
    j.put("repr_c", J::Bool(repr.c()));
    j.put("repr_transparent", J::Bool(repr.transparent()));
    put_span(tcx, &mut j, tcx.def_span(did));
    let generic = tcx.generics_of(did).count() > 0;
    j.put("generic", J::Bool(generic));
    let mut variants = Vec::new();
    let discrs: Vec<u128> = if def.is_enum() {
        def.discriminants(tcx).map(|(_, d)| d.val).collect()
    } else {
        Vec::new()
    };
    for (vi, v) in def.variants().iter_enumerated() {
        let mut vj = J::obj();
        vj.put("name", J::s(v.name.to_string()));
        vj.put("idx", J::UInt(vi.as_u32() as u128));
        if def.is_enum() {
            vj.put("discr", J::UInt(discrs[vi.as_usize()]));
            vj.put("explicit_discr", J::Bool(matches!(v.discr, ty::VariantDiscr::Explicit(_))));
        }
        vj.put("ctor", match v.ctor_kind() {
            Some(k) => J::s(format!("{:?}", k)),
            None => J::Null,
        });
        let mut fields = Vec::new();
        for f in v.fields.iter() {
            let mut fj = J::obj();
            fj.put("name", J::s(f.name.to_string()));
            fj.put("vis", J::s(vis_str(tcx, f.vis)));
            let fty = tcx.type_of(f.did).instantiate_identity().skip_norm_wip();
            fj.put("ty", J::s(ty_str(fty)));
            fields.push(fj);
        }
        vj.put("fields", J::Arr(fields));
        variants.push(vj);
    }
    j.put("variants", J::Arr(variants));
    j
}

pub fn export_impls<'tcx>(tcx: TyCtxt<'tcx>) -> J {
    let mut impls = Vec::new();
    for ldid in tcx.hir_crate_items(()).definitions() {
        let did = ldid.to_def_id();
        if !matches!(tcx.def_kind(did), DefKind::Impl { .. }) {
            continue;
        }
        let mut j = J::obj();
        let self_ty = tcx.type_of(did).instantiate_identity().skip_norm_wip();
        j.put("self_ty", J::s(ty_str(self_ty)));
        if let ty::Adt(ad, _) = self_ty.kind() {
            j.put("self_adt", J::s(def_path(tcx, ad.did())));
        }
        match tcx.impl_opt_trait_ref(did) {
            Some(tr) => {
                let tr = tr.instantiate_identity().skip_norm_wip();
                j.put("trait", J::s(def_path(tcx, tr.def_id)));
                j.put("trait_ref", J::s(format!("{}", tr)));
                j.put("trait_args", J::Arr(tr.args.iter().skip(1).map(|a| J::s(format!("{}", a))).collect()));
            }
            None => j.put("trait", J::Null),
        }
        j.put("derived", J::Bool(tcx.is_automatically_derived(did)));
        put_span(tcx, &mut j, tcx.def_span(did));
        let mut items = Vec::new();
        for it in tcx.associated_items(did).in_definition_order() {
            let mut ij = J::obj();
            ij.put("name", J::s(it.name().to_string()));
            ij.put("def", J::s(def_path(tcx, it.def_id)));
            ij.put("kind", J::s(format!("{:?}", it.tag())));
            if let Some(t) = it.trait_item_def_id() {
                ij.put("trait_item", J::s(def_path(tcx, t)));
            }
            if matches!(tcx.def_kind(it.def_id), DefKind::AssocFn) {
                ij.put("vis", J::s(vis_str(tcx, tcx.visibility(it.def_id))));
            }
            items.push(ij);
        }
        j.put("items", J::Arr(items));
        impls.push(j);
    }
    J::Arr(impls)
}

pub fn fn_header<'tcx>(tcx: TyCtxt<'tcx>, ldid: LocalDefId) -> J {
    let did = ldid.to_def_id();
    let mut j = J::obj();
    j.put("id", J::s(def_path(tcx, did)));
    let kind = tcx.def_kind(did);
    j.put("kind", J::s(format!("{:?}", kind)));
    put_span(tcx, &mut j, tcx.def_span(did));
    j.put("body_span", J::s(span_str(tcx, tcx.hir_span(tcx.local_def_id_to_hir_id(ldid)))));
    // chain of parents up to the module
    let tdid = tcx.typeck_root_def_id(did);
    j.put("root", J::s(def_path(tcx, tdid)));
    if tdid != did {
        j.put("parent", J::s(def_path(tcx, tcx.parent(did))));
    }
    if matches!(tcx.def_kind(tdid), DefKind::Fn | DefKind::AssocFn) {
        j.put("name", J::s(tcx.opt_item_name(tdid).map(|s| s.to_string()).unwrap_or_default()));
        j.put("vis", J::s(vis_str(tcx, tcx.visibility(tdid))));
        j.put("is_async", J::Bool(tcx.asyncness(tdid).is_async()));
        j.put("unsafe_fn", J::Bool(tcx.fn_sig(tdid).skip_binder().safety().is_unsafe()));
    }
    if matches!(tcx.def_kind(tdid), DefKind::AssocFn) {
        let parent = tcx.parent(tdid);
        if matches!(tcx.def_kind(parent), DefKind::Impl { .. }) {
            let self_ty = tcx.type_of(parent).instantiate_identity().skip_norm_wip();
            j.put("impl_self", J::s(ty_str(self_ty)));
            if let ty::Adt(ad, _) = self_ty.kind() {
                j.put("impl_adt", J::s(def_path(tcx, ad.did())));
            }
            if let Some(tr) = tcx.impl_opt_trait_ref(parent) {
                let tr = tr.instantiate_identity().skip_norm_wip();
                j.put("impl_trait", J::s(def_path(tcx, tr.def_id)));
                j.put("impl_trait_ref", J::s(format!("{}", tr)));
            }
            j.put("impl_derived", J::Bool(tcx.is_automatically_derived(parent)));
        } else {
            j.put("in_trait", J::s(def_path(tcx, parent)));
        }
    }
    j.put("module", J::s(def_path(tcx, tcx.parent_module_from_def_id(ldid).to_def_id())));
    // is the item (or an ancestor) under #[cfg(test)]? -> not present in a lib check build anyway.
    j
}
