//! Minimal JSON value + writer (no external crates are available offline).

use std::fmt::Write;

#[derive(Clone, Debug)]
pub enum J {
    Null,
    Bool(bool),
    Int(i128),
    UInt(u128),
    Str(String),
    Arr(Vec<J>),
    Obj(Vec<(String, J)>),
}

impl J {
    pub fn obj() -> J {
        J::Obj(Vec::new())
    }
    pub fn s<S: Into<String>>(s: S) -> J {
        J::Str(s.into())
    }
    pub fn set<S: Into<String>>(mut self, k: S, v: J) -> J {
        if let J::Obj(ref mut items) = self {
            items.push((k.into(), v));
        }
        self
    }
    pub fn put<S: Into<String>>(&mut self, k: S, v: J) {
        if let J::Obj(ref mut items) = self {
            items.push((k.into(), v));
        }
    }
    pub fn write(&self, out: &mut String) {
        match self {
            J::Null => out.push_str("null"),
            J::Bool(b) => out.push_str(if *b { "true" } else { "false" }),
            J::Int(i) => {
                let _ = write!(out, "{}", i);
            }
            J::UInt(i) => {
                let _ = write!(out, "{}", i);
            }
            J::Str(s) => write_str(s, out),
            J::Arr(items) => {
                out.push('[');
                for (i, it) in items.iter().enumerate() {
                    if i > 0 {
                        out.push(',');
                    }
                    it.write(out);
                }
                out.push(']');
            }
            J::Obj(items) => {
                out.push('{');
                for (i, (k, v)) in items.iter().enumerate() {
                    if i > 0 {
                        out.push(',');
                    }
                    write_str(k, out);
                    out.push(':');
                    v.write(out);
                }
                out.push('}');
            }
        }
    }
}

fn write_str(s: &str, out: &mut String) {
    out.push('"');
    for c in s.chars() {
        match c {
            '"' => out.push_str("\\\""),
            '\\' => out.push_str("\\\\"),
            '\n' => out.push_str("\\n"),
            '\r' => out.push_str("\\r"),
            '\t' => out.push_str("\\t"),
            c if (c as u32) < 0x20 => {
                let _ = write!(out, "\\u{:04x}", c as u32);
            }
            c => out.push(c),
        }
    }
    out.push('"');
}

impl From<&str> for J {
    fn from(s: &str) -> J {
        J::Str(s.to_string())
    }
}
impl From<String> for J {
    fn from(s: String) -> J {
        J::Str(s)
    }
}
impl From<bool> for J {
    fn from(b: bool) -> J {
        J::Bool(b)
    }
}
impl From<usize> for J {
    fn from(b: usize) -> J {
        J::UInt(b as u128)
    }
}
impl From<u128> for J {
    fn from(b: u128) -> J {
        J::UInt(b)
    }
}
impl<T: Into<J>> From<Option<T>> for J {
    fn from(o: Option<T>) -> J {
        match o {
            Some(v) => v.into(),
            None => J::Null,
        }
    }
}
impl<T: Into<J>> From<Vec<T>> for J {
    fn from(v: Vec<T>) -> J {
        J::Arr(v.into_iter().map(Into::into).collect())
    }
}
