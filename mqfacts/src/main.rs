//! mqfacts: a rustc_private driver that exports type-checked facts (ADTs, impls,
//! THIR trees, MIR CFGs) of the crate under analysis as one JSON file.
//!
//! Usage (through cargo):
//!   RUSTC_WORKSPACE_WRAPPER=/path/to/mqfacts MQFACTS_OUT=/path/facts.json \
//!   MQFACTS_CRATE=mqtt_proto cargo +nightly check --offline
//! When invoked as a workspace wrapper argv[1] is the real rustc path and is dropped.
#![feature(rustc_private)]

extern crate rustc_abi;
extern crate rustc_ast;
extern crate rustc_driver;
extern crate rustc_hir;
extern crate rustc_interface;
extern crate rustc_middle;
extern crate rustc_session;
extern crate rustc_span;

mod common;
mod items;
mod json;
mod mirx;
mod thirx;

use json::J;
use rustc_driver::{Callbacks, Compilation};
use rustc_interface::interface::Compiler;
use rustc_middle::ty::TyCtxt;

struct Facts {
    out: Option<String>,
    want_crate: String,
}

impl Callbacks for Facts {
    fn after_expansion<'tcx>(&mut self, _c: &Compiler, tcx: TyCtxt<'tcx>) -> Compilation {
        let Some(out) = self.out.clone() else {
            return Compilation::Continue;
        };
        let krate = tcx.crate_name(rustc_hir::def_id::LOCAL_CRATE).to_string();
        if krate != self.want_crate {
            return Compilation::Continue;
        }
        // cargo may invoke the wrapper for build scripts / other targets of the same
        // package; only lib targets of the wanted crate are exported.
        let root = rustc_middle::ty::print::with_no_visible_paths!(rustc_middle::ty::print::with_no_trimmed_paths!(export(tcx, &krate)));
        let mut s = String::with_capacity(1 << 24);
        root.write(&mut s);
        std::fs::write(&out, s).expect("mqfacts: cannot write facts file");
        Compilation::Continue
    }
}

fn export<'tcx>(tcx: TyCtxt<'tcx>, krate: &str) -> J {
    let mut root = J::obj();
    root.put("crate", J::s(krate));
    root.put("rustc", J::s(option_env!("CFG_VERSION").unwrap_or("nightly")));
    // Pass 1: MIR of every body, before anything evaluates a constant (const
    // evaluation runs the MIR pipeline of the const body and steals `mir_built`).
    let owners: Vec<_> = tcx.hir_body_owners().collect();
    let mut mirs = Vec::new();
    let mut n_mir = 0usize;
    for &ldid in &owners {
        let m = mirx::export_mir(tcx, ldid);
        if m.is_some() {
            n_mir += 1;
        }
        mirs.push(m);
    }
    // Pass 2: items (with evaluated consts/discriminants) and THIR.
    let (adts, consts) = items::export_items(tcx);
    root.put("adts", adts);
    root.put("consts", consts);
    root.put("impls", items::export_impls(tcx));
    let mut fns = Vec::new();
    let mut n_thir = 0usize;
    for (&ldid, m) in owners.iter().zip(mirs.into_iter()) {
        let mut f = items::fn_header(tcx, ldid);
        match thirx::export_thir(tcx, ldid) {
            Some(t) => {
                n_thir += 1;
                f.put("thir", t);
            }
            None => f.put("thir", J::Null),
        }
        f.put("mir", match m {
            Some(m) => m,
            None => J::Null,
        });
        fns.push(f);
    }
    root.put("fns", J::Arr(fns));
    root.put(
        "inventory",
        J::obj().set("thir_bodies", n_thir.into()).set("mir_bodies", n_mir.into()),
    );
    root
}

fn main() {
    let mut args: Vec<String> = std::env::args().collect();
    // RUSTC_WORKSPACE_WRAPPER passes the real rustc as argv[1].
    if args.len() > 1 && (args[1].ends_with("rustc") || args[1].contains("/rustc")) {
        args.remove(1);
    }
    let out = std::env::var("MQFACTS_OUT").ok();
    let want_crate = std::env::var("MQFACTS_CRATE").unwrap_or_else(|_| "mqtt_proto".to_string());
    let mut cb = Facts { out, want_crate };
    rustc_driver::run_compiler(&args, &mut cb);
}
